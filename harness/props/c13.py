"""C13 — Validation, hole-filling and resampling preserve the data they are given.

Model: lean/Ladybug/Model/Resample.lean (on Model/Cal.lean, Model/AP.lean) and the object state
machine lean/Ladybug/Model/ResampleObj.lean; theorems: lean/Ladybug/Props/C13.lean (lemmas:
Proofs/C13Lemmas|C13Interp|C13Contain|C13Holes|C13Obj.lean); driver: drv_c13.
Tie: correspondence on the ops below (values are distinct ids where the code only moves them,
rationals where it interpolates).

The model, the theorems and the oracle describe the code WITH fixes/C13_*.patch applied (ten small
repairs, see the patch headers); on a tree without them this check reports a VIOLATION.

Stages (round 3 added the last three):
  * fresh-object correspondence / oracle: one new collection, one call (vh vd vm vp cull holes interp agg rate)
  * HISTORY correspondence (`hist`): the Lean object machine and the real hourly collection (continuous /
    discontinuous x mutable / immutable) run the same op list on ONE object; the answer of every step and the
    public state after every step are compared.  Ops: reads (values, period, flag; `datetimes`, which fills the
    lazily computed slot of a continuous collection), validate, cull, in-place cull, hole filling, refinement,
    `values` setter, item assignment, to_immutable / to_mutable / duplicate / to_discontinuous / dict round trip;
    derived collections are adopted as the current object or not; refused calls (invalid / non-dividing
    timesteps, wrong lengths, strings, indices out of range, immutables, missing methods, unvalidated data,
    nothing on the grid) are caught and followed by further ops.
  * HISTORY oracle (`history`, `key_history`): independent of the model, the harness keeps the state the user has
    established (period, datetimes, values, flag) by its own bookkeeping; after every step the derived collection
    must satisfy the clause of the statement that speaks about it for THAT state, and the current object must
    show exactly that state (a refused op changed nothing; a derived collection did not touch its source).
    `key_history`: the same for Daily / Monthly / MonthlyPerHour collections (validate, setters, copies, flag
    through from_dict).
  * PROCESS ORDER (`order`): the fixed corpus and a slice of every generated stream are evaluated in 2 (quick) /
    4 (thorough) fresh interpreters, each in another order (rare classes first: leap, wrapping, sub-hourly,
    refused first call; shuffled; reversed).  A case that fails only after others is reported with the shortest
    order found by bisection; `replay('order', {'order': [...]})` re-runs it in a fresh interpreter.

Round 4 (input shapes, aliasing, override gaps, conventions, numeric edges, rare branches):
  * every fresh-object case names the CLASS it runs on (mutable / immutable twin; continuous / discontinuous) and
    the CONTAINER of each sequence argument (`datetimes`: list, tuple, generator, iter(), map object; `values`:
    list, tuple, deque – the constructors take len() of the values) and the ENTRY POINT of the header period
    (constructor, from_string text, dictionary, its own printed text read back).  The model is fed the same data
    as plain lists, so the correspondence itself checks that the answer does not depend on the container.
    Every fourth oracle case is also evaluated on the sibling class and the two answers must be equal (`twin`).
  * ALIASING: after every derive call the source must be as before; the result is then edited in place (metadata
    entry, first value) and the source must not change; then the source is edited and the result must not change.
    In histories a non-adopted result is edited at once and must still be as it was at the end of the history; an
    abandoned current object is edited after it was replaced (`alias`, `state:metadata`, `alias:later`).
  * time aggregation / rate of change have an ORACLE of their own (`timeagg`: physics of the units: W over
    1/timestep h -> kWh, m/s -> m, kg/s -> kg, dC over a day -> degC-days; the inverse; every class incl. Daily and
    the immutable twins), so a change there is reported with a failing input, not only as a broken tie.
  * numeric strata: values given as int (not float), magnitudes 1e-12 .. 1e16 judged on their own scale (all
    tolerances are relative to the data now), every one of the 12 timesteps at the far end of the year (leap and
    common), odd numbers of sub-steps, (month, hour) keys without minute, float timestep arguments (2.0 == 2).
  * BRANCHES of the anchored functions are listed above `_branches` and counted from the input alone
    (`branch:*` counters in the evidence); the fixed corpus `_corpus_round4` reaches each of them on every run.
  * the in-place cull of a CONTINUOUS collection must leave one value per step of the header period (or be
    refused): tools/extract/resample_src.py reads off datacollection.py whether the continuous class asserts
    divisibility (Gen/ResampleSrc.lean); the object machine follows it, the oracle reports the unrepaired code as
    the recorded finding C13-cont-inplace-cull-nondividing (fixes/C13_continuous_cull_in_place_divisor.patch).

Round 6 (comparison through the objects' rich ordering instead of a derived field: the hidden year of DateTime):
  * CLASS: a DateTime orders / equals itself with its hidden year (2016 leap, 2017 common), so a comparison of a step
    with header.analysis_period.st_time / end_time through <, >, ==, .date instead of .doy / .moy / month-day changes
    nothing while steps and header are of the same kind of year and everything when they are not.  The statement says
    "any starting header": a header with the WRONG LEAP FLAG is one.  The `leap_mix` stratum (14 % of the hourly
    validation stream: leap steps with / without 29 Feb under a common-year header, common-year steps under a leap
    header, placed around the header dates of their own calendar; non-wrapping, annual and wrapping headers) is now part
    of the ORACLE, not only of the correspondence: same pairs, sorted from the period start, every step a step of the
    output period BY ITS CALENDAR FIELDS (month, day, hour, minute counted in the year of the output period), 29 Feb
    only in a leap period (`cause: leap29`).  Fixed corpus: seven such inputs (`_corpus`).
  * the unchanged code itself decides by day / minute of the YEAR with each side counted in its own kind of year, which
    is off by one day after February: recorded finding C13-hourly-leap-mix-day-of-year, matched through the input-only
    flag `mix_tie` (`_mix_tie`: some step for which a day-of-year / minute-of-year comparison the validation takes differs
    from the comparison of the calendar fields); Lean: C13_validate_leap_mix_counterexample.  Inputs without such a tie
    are judged at full strength, so a change of the class is reported with a failing input.
  * Lean: C13_validate_leap_mix_flag (leap flag of the output period for every pair of flags),
    C13_validate_leap_mix_widens (the widening is a function of the days of the year and takes the step's own date).
  * the same input class for the keyed collections: day 366 under a header that is not flagged leap (DailyCollection)
    is no longer left out of the oracle stream; the unchanged code compares the days (of the leap year) with the
    header's day numbers counted in a common year: finding C13-daily-leap-mix-day-of-year through `_daily_mix_tie`;
    Lean: C13_validate_daily_leap_mix_counterexample.
  * DateTime comparisons in the anchored code: validate_analysis_period (sorted(); first / last against st_time / end_time
    .doy; rotation point .moy; "make it annual" .doy; duplicates !=), interpolate_holes (== between period steps and
    collection steps: only reached with equal flags here; hole filling of a collection validated from leap steps
    without 29 Feb under a common-year header is not covered).

Consumers of every modelled mechanism (each is exercised by a correspondence op or an oracle clause):
  _timestep_cull ............. cull_to_timestep, convert_to_culled_timestep (discontinuous, continuous, immutable
                               twins: cull / history ops cull, convcull)
  _xxrange ................... interpolate_holes (holes), interpolate_to_timestep (interp)
  validated flag ............. written by validate_analysis_period, cull_to_timestep, from_dict, to_discontinuous,
                               the continuous constructor, copied by duplicate / to_mutable / to_immutable / to_dict;
                               read by interpolate_holes (history ops in every order; validation must not read it)
  `_datetimes` slot (cont.) .. datetimes, _timestep_cull, to_discontinuous, written by convert_to_culled_timestep
                               (history template `slot`)
  data type time flags ....... cumulative / point_in_time -> divide / shift of interpolate_to_timestep (every
                               data type of ladybug.datatype, cumulative=None/True/False)
  VALIDTIMESTEPS ............. target check of both culls, timestep repair of hourly / mph validation, AnalysisPeriod
  AnalysisPeriod.datetimes ... continuous datetimes, interpolate_holes grid
  time_aggregated_factor ..... to_time_aggregated, to_time_rate_of_change (hourly continuous / discontinuous, daily,
                               immutable twins: correspondence agg / rate, oracle timeagg)
  sort + period repair ....... validate_analysis_period of the four classes, fresh and after any history
"""
import contextlib
import io
from datetime import datetime, timedelta
from fractions import Fraction

from harness.core import err_name, run_oracle_cases

PROP = 'C13'
PROOF_MODULES = ['Ladybug.Props.C13']
GREP_MODULES = ['Ladybug.Model.Resample', 'Ladybug.Model.ResampleObj', 'Ladybug.Gen.ResampleSrc', 'Ladybug.Proofs.C13Obj', 'Ladybug.Proofs.C13Lemmas', 'Ladybug.Proofs.C13Interp',
                'Ladybug.Proofs.C13Contain', 'Ladybug.Proofs.C13Holes', 'Ladybug.Drv.C13',
                'Ladybug.Model.AP', 'Ladybug.Model.Cal', 'Ladybug.Py', 'Ladybug.DrvCore']
RULE = ('correspondence: header periods from a boundary product (one day / few days / months / annual / '
        'wrapping the year end; hour windows full, partial, overnight; 8 timesteps; leap; 14 % with steps flagged for the '
        'other kind of year than the header, in correspondence AND oracle) x data = subsets '
        'of the annual grid placed inside, across the edges of and far from the header period (sizes '
        '0,1,2,3,10,50; thorough up to 500), shuffled, on the header grid / a finer grid / mixed minute '
        'offsets, ~8 % malformed (duplicates, empty, invalid target timesteps); hole patterns leading / '
        'trailing / interior / single / none on full-day periods incl. wrapping ones; refinement for every '
        'valid (source, target) timestep pair, every data type of ladybug.datatype (all cumulative types incl. '
        'the point-in-time ones) and cumulative=None/True/False; culling of sparse, dense and continuous '
        'sources incl. (current, target) timestep pairs where the target does not divide the current one; '
        'histories of 3-10 ops on one hourly collection (class x mutability x flag route x all 12 timesteps x leap / '
        'wrapping; templates flag_then_validate, slot, refused_first, twice, set_then_derive, random) and on the keyed '
        'classes; every fresh-object case on a named class (mutable / immutable twin) with the sequence arguments as '
        'list / tuple / deque / generator / iter / map and the header period from the constructor, text, dictionary or '
        'its own printed form; values as int or float, magnitudes 1e-12..1e16, all 12 timesteps at the year end; '
        'time aggregation of five rate families on continuous / discontinuous / daily collections; every branch of the '
        'anchored functions counted from the input (branch:* counters); process-order runs in fresh interpreters; a case is non-trivial '
        'when the implementation returns a value; distinct = distinct (op, input)')
TRUSTED_BASE = [
    'hand-written object machine Model/ResampleObj.lean (hourly collections with the `_datetimes` slot, 13 ops, '
    'refusals): tied to the code by the history correspondence only',
    'hand-written model Model/Resample.lean of datacollection.py validate_analysis_period (4 classes), '
    'interpolate_holes, _xxrange, interpolate_to_timestep, _timestep_cull/cull_to_timestep and of the '
    'factor arithmetic of _time_aggregated_collection/_time_rate_of_change_collection: tied to the code '
    'by the correspondence run only',
    'Python sorted() on (DateTime, value) pairs is modelled as a stable sort on the minute of the year '
    '(all DateTimes of one collection carry one leap flag)',
    'interpolation is modelled over exact rationals; the float results of the code are compared with '
    'relative/absolute tolerance 1e-9 (values at source steps: exactly)',
    'the AnalysisPeriod constructor and enumeration are those of the C04 model (Model/AP.lean, theorems '
    'C04_*), DateTime fields those of the C08 model (Model/Cal.lean)',
    'unit conversion inside to_time_aggregated/to_time_rate_of_change (to_unit) belongs to C06; only the '
    'factor is modelled here (the oracle `timeagg` checks the aggregated amounts against the physics of the base units)',
    'whether HourlyContinuousCollection.convert_to_culled_timestep asserts divisibility is read off the source by '
    'tools/extract/resample_src.py (one Boolean, Gen/ResampleSrc.lean); the machine is proved for both values',
]
ASSUMPTIONS = [
    'all DateTime objects of one hourly collection carry the same leap flag; the containment theorems need it equal to '
    'the header flag; a header with the other flag is compared with the model, judged by the oracle on calendar fields '
    '(finding C13-hourly-leap-mix-day-of-year for day-of-year ties) and covered by C13_validate_leap_mix_flag / _widens',
    'containment is judged by the C04 membership predicate of the output period',
    'hole filling is claimed for validated collections whose period has the hour window 0..23 '
    '(HourlyContinuousCollection accepts no other)',
]

ML = [31, 28, 31, 30, 31, 30, 31, 31, 30, 31, 30, 31]
VALID_TS = [1, 2, 3, 4, 5, 6, 10, 12, 15, 20, 30, 60]


# ---------------------------------------------------------------------------------------------
# plain-number helpers (stdlib calendar, not the code under test)


def _ny(leap):
    return 527040 if leap else 525600


def _mlen(leap, m):
    return 29 if (leap and m == 2) else ML[m - 1]


def _md_to_doy(leap, m, d):
    return sum(_mlen(leap, k) for k in range(1, m)) + d


def _moy_fields(leap, moy):
    r = datetime(2016 if leap else 2017, 1, 1) + timedelta(minutes=moy)
    return r.month, r.day, r.hour, r.minute


def _doy_to_md(leap, doy):
    r = datetime(2016 if leap else 2017, 1, 1) + timedelta(days=doy - 1)
    return r.month, r.day


def _b(x):
    return '1' if x else '0'


def _ap_line(ap):
    return '%d %d %d %d %d %d %d %s' % (ap[0], ap[1], ap[2], ap[3], ap[4], ap[5], ap[6], _b(ap[7]))


AP_SHAPES = ('ctor', 'string', 'dict', 'repr')


def _mk_ap(ap, shape='ctor'):
    """The header period, built through one of the public entry points: the constructor, the text form
    (`from_string`, one- and two-digit fields as they come, `*` for a leap year), a dictionary, or the
    text the period prints for itself read back."""
    from ladybug.analysisperiod import AnalysisPeriod
    if shape == 'string':
        return AnalysisPeriod.from_string('%d/%d to %d/%d between %d and %d @%d%s' % (
            ap[0], ap[1], ap[3], ap[4], ap[2], ap[5], ap[6], '*' if ap[7] else ''))
    if shape == 'dict':
        return AnalysisPeriod.from_dict({'st_month': ap[0], 'st_day': ap[1], 'st_hour': ap[2], 'end_month': ap[3],
                                         'end_day': ap[4], 'end_hour': ap[5], 'timestep': ap[6],
                                         'is_leap_year': bool(ap[7])})
    a = AnalysisPeriod(ap[0], ap[1], ap[2], ap[3], ap[4], ap[5], ap[6], bool(ap[7]))
    if shape == 'repr':
        return AnalysisPeriod.from_string(str(a))
    return a


SEQ_SHAPES = ('list', 'tuple', 'gen', 'iter', 'map')       # any iterable: `datetimes`
SIZED_SHAPES = ('list', 'tuple', 'deque')                  # sized iterables: `values` (len() is taken)


def _as_shape(seq, shape):
    """The same items in another container: the code must not depend on the container type of an
    argument, nor iterate a one-shot iterable twice."""
    seq = list(seq)
    if shape == 'tuple':
        return tuple(seq)
    if shape == 'gen':
        return (x for x in seq)
    if shape == 'iter':
        return iter(seq)
    if shape == 'map':
        return map(lambda x: x, seq)
    if shape == 'deque':
        import collections
        return collections.deque(seq)
    return seq


def _pick_shapes(rng, c, p=0.45):
    """Generator side: container shapes of the sequence arguments, the entry point of the header period,
    the immutable twin.  Plain lists / the constructor / the mutable class stay the most frequent."""
    if rng.random() < p:
        c['dshape'] = rng.choice(SEQ_SHAPES)
    if rng.random() < p:
        c['vshape'] = rng.choice(SIZED_SHAPES)
    if rng.random() < p:
        c['apshape'] = rng.choice(AP_SHAPES)
    if rng.random() < 0.3:
        c['imm'] = True
    return c


def _count_shapes(ctx, op, c):
    ctx.count('shape:datetimes:%s' % c.get('dshape', 'list'))
    ctx.count('shape:values:%s' % c.get('vshape', 'list'))
    ctx.count('shape:period:%s' % c.get('apshape', 'ctor'))
    ctx.count('twin:%s:%s' % (op, 'immutable' if c.get('imm') else 'mutable'))


def _ap_fields(a):
    return [a.st_month, a.st_day, a.st_hour, a.end_month, a.end_day, a.end_hour, a.timestep,
            bool(a.is_leap_year)]


def _show_ap(a):
    return _ap_line(_ap_fields(a))


def _mk_dt(leap, moy):
    from ladybug.dt import DateTime
    mo, da, h, mi = _moy_fields(leap, moy)
    return DateTime(mo, da, h, mi, leap)


LEGACY_KINDS = {'point': 'Temperature', 'cumulative': 'Energy', 'averaged': 'Power',
                'point_cumulative': 'Distance'}


def _type_of(kind):
    """Data type class for a kind: one of the four legacy names or any name of ladybug.datatype.TYPESDICT."""
    from ladybug.datatype import TYPESDICT
    return TYPESDICT[LEGACY_KINDS.get(kind, kind)]


def _kind_flags(kind):
    """(native cumulative, point in time) of the data type, read from the type itself."""
    t = _type_of(kind)()
    return bool(t.cumulative), bool(t.point_in_time)


def _all_type_names():
    """Names of every data type that can be instantiated, sorted; cumulative ones first."""
    from ladybug.datatype import TYPESDICT
    names = []
    for n in sorted(TYPESDICT):
        try:
            t = TYPESDICT[n]()
            t.units[0]
            names.append((not t.cumulative, n))
        except Exception:
            pass
    return [n for _, n in sorted(names)]


def _cumulative_type_names():
    return [n for n in _all_type_names() if _kind_flags(n)[0]]


def _header(ap, kind='point', apshape='ctor', unit=None):
    from ladybug.header import Header
    t = _type_of(kind)()
    return Header(t, unit or t.units[0], _mk_ap(ap, apshape), {'k': 'v'})


def _hourly_cls(cont, imm):
    import ladybug.datacollection as dc
    import ladybug.datacollectionimmutable as di
    if cont:
        return di.HourlyContinuousCollectionImmutable if imm else dc.HourlyContinuousCollection
    return di.HourlyDiscontinuousCollectionImmutable if imm else dc.HourlyDiscontinuousCollection


def _key_cls(name, imm):
    import ladybug.datacollection as dc
    import ladybug.datacollectionimmutable as di
    return getattr(di, name + 'Immutable') if imm else getattr(dc, name)


def _build_disc(c, values, moys, dl, kind='point'):
    """A discontinuous hourly collection (or its immutable twin) from plain numbers, the sequence
    arguments in the container shapes the case names."""
    cls = _hourly_cls(False, c.get('imm'))
    return cls(_header(c['ap'], kind, c.get('apshape', 'ctor')), _as_shape(values, c.get('vshape', 'list')),
               _as_shape([_mk_dt(dl, m) for m in moys], c.get('dshape', 'list')))


def _build_cont(c, values, kind='point'):
    cls = _hourly_cls(True, c.get('imm'))
    return cls(_header(c['ap'], kind, c.get('apshape', 'ctor')), _as_shape(values, c.get('vshape', 'list')))


# ---------------------------------------------------------------------------------------------
# generators


def _gen_period(rng, full_day=False, short=False):
    """Header period as 8 plain numbers (valid for the AnalysisPeriod constructor)."""
    leap = rng.random() < 0.3
    r = rng.random()
    if r < 0.12 and not short:
        sm, sd, em, ed = 1, 1, 12, 31
    else:
        if rng.random() < 0.5:
            sm, sd = rng.choice([(1, 1), (2, 28), (3, 1), (6, 21), (12, 30), (12, 31), (2, 27), (7, 31)])
        else:
            sm = rng.randrange(1, 13)
            sd = rng.randrange(1, _mlen(leap, sm) + 1)
        if leap and rng.random() < 0.1:
            sm, sd = 2, 29
        span = rng.choice([0, 0, 1, 2, 3, 7] if short else [0, 0, 1, 2, 5, 30, 200, 364])
        if rng.random() < 0.25:
            span = -rng.choice([1, 2, 30, 300] if not short else [358, 360, 362, 363])   # wraps the year end
        doy = (_md_to_doy(leap, sm, sd) - 1 + span) % (366 if leap else 365) + 1
        em, ed = _doy_to_md(leap, doy)
    if full_day:
        sh, eh = 0, 23
    else:
        sh, eh = rng.choice([(0, 23), (0, 23), (0, 23), (6, 18), (22, 4), (0, 12), (12, 23), (9, 9), (5, 4),
                             (1, 22)])
    ts = rng.choice([1, 1, 1, 2, 2, 3, 4, 6, 12, 60] if not short else [1, 1, 2, 3, 4, 6])
    if (sh, eh) != (0, 23):
        # Header.duplicate() enumerates a period with an hour window (6 us per step): keep those small
        nd = 366 if leap else 365
        days = (_md_to_doy(leap, em, ed) - _md_to_doy(leap, sm, sd)) % nd + 1
        if (em, ed, eh) != (sm, sd, sh) and days == 1 and eh < sh:
            days = nd
        while days * 24 * ts > 2500 and ts > 1:
            ts = max(t for t in VALID_TS if t < ts)
        if days * 24 * ts > 2500 and rng.random() < 0.9:
            doy = (_md_to_doy(leap, sm, sd) - 1 + rng.choice([0, 1, 3, 40, 90])) % nd + 1
            em, ed = _doy_to_md(leap, doy)
    return [sm, sd, sh, em, ed, eh, ts, leap]


def _gen_hourly_data(rng, ap, nmax):
    """Subset of the annual grid of steps as (moy, id) pairs, shuffled."""
    leap = ap[7]
    ny = _ny(leap)
    st = (_md_to_doy(leap, ap[0], ap[1]) - 1) * 1440
    en = (_md_to_doy(leap, ap[3], ap[4]) - 1) * 1440 + 1440
    n = rng.choice([1, 1, 2, 3, 5, 10, nmax])
    g = rng.random()
    if g < 0.55:
        grid = 60 // ap[6]
    elif g < 0.8:
        grid = 60 // rng.choice([1, 2, 4, 6, 60])
    else:
        grid = None                                   # mixed minute offsets
    moys = set()
    for _ in range(n):
        r = rng.random()
        if r < 0.45:
            span = (en - st) % ny or ny
            m = (st + rng.randrange(span)) % ny       # inside the date range
        elif r < 0.6:
            m = (st + rng.randrange(-2880, 0)) % ny   # just before the start day
        elif r < 0.75:
            m = (en + rng.randrange(0, 2880)) % ny    # just after the end day
        elif r < 0.85:
            m = rng.choice([0, ny - 60, ny - 1440, 59 * 1440, 60 * 1440, st % ny, (en - 60) % ny])
        else:
            m = rng.randrange(ny)
        if rng.random() < 0.5:
            h = rng.choice([0, 1, 23, 22, ap[2], ap[5], (ap[5] + 1) % 24, (ap[2] - 1) % 24])
            m = m // 1440 * 1440 + h * 60 + m % 60
        gg = grid if grid else 60 // rng.choice([1, 2, 3, 4, 6])
        m -= m % gg
        moys.add(m)
    moys = list(moys)
    rng.shuffle(moys)
    return [[m, i + 1] for i, m in enumerate(moys)]


def _gen_validate_hourly(ctx, count):
    rng = ctx.rng
    out = []
    for _ in range(count):
        ap = _gen_period(rng)
        data = _gen_hourly_data(rng, ap, ctx.n(50, 500))
        dl = ap[7]
        r = rng.random()
        tag = 'ok'
        if r < 0.03:
            data = []
            tag = 'empty'
        elif r < 0.08 and data:
            data.append([data[0][0], len(data) + 1])
            rng.shuffle(data)
            tag = 'duplicate'
        elif r < 0.22:
            # the steps are flagged for the other kind of year than the header (leap steps under a common-year
            # header, 29 Feb among them or not; common-year steps under a leap header); they are placed
            # around the header dates of their OWN calendar
            dl = not ap[7]
            data = _gen_hourly_data(rng, ap[:7] + [dl], ctx.n(50, 500))
            if dl and rng.random() < 0.6:
                m29 = 59 * 1440 + rng.randrange(24) * 60                             # 29 Feb
                if m29 not in [m for m, _ in data]:
                    data.append([m29, len(data) + 1])
                    rng.shuffle(data)
            tag = 'leap_mix'
            ctx.count('validate_hourly:leap_mix:%s:%s' % ('leap_steps' if dl else 'leap_header',
                                                          'tie' if _mix_tie(ap, dl, data) else 'plain'))
        out.append(_pick_shapes(rng, {'ap': ap, 'dl': dl, 'data': data, 'tag': tag}))
    return out


def _gen_keys(ctx, kind, count):
    """Daily / monthly / monthly-per-hour validation cases."""
    rng = ctx.rng
    out = []
    for _ in range(count):
        ap = _gen_period(rng)
        leap = ap[7]
        n = rng.choice([1, 1, 2, 3, 5, 12, 40])
        keys = set()
        sdoy, edoy = _md_to_doy(leap, ap[0], ap[1]), _md_to_doy(leap, ap[3], ap[4])
        for _ in range(n):
            if kind == 'daily':
                r = rng.random()
                nd = 366 if leap else 365
                if r < 0.5:
                    k = (sdoy - 1 + rng.randrange(((edoy - sdoy) % nd) + 1)) % nd + 1
                elif r < 0.75:
                    k = (rng.choice([sdoy, edoy]) - 1 + rng.randrange(-3, 4)) % nd + 1
                else:
                    k = rng.randrange(1, nd + 1)
                if rng.random() < 0.03:
                    k = rng.choice([366, 365, 1, 60])
            elif kind == 'monthly':
                k = rng.randrange(1, 13) if rng.random() < 0.6 else \
                    (rng.choice([ap[0], ap[3]]) - 1 + rng.randrange(-1, 2)) % 12 + 1
            else:
                mo = rng.randrange(1, 13) if rng.random() < 0.6 else \
                    (rng.choice([ap[0], ap[3]]) - 1 + rng.randrange(-1, 2)) % 12 + 1
                h = rng.choice([0, 23, ap[2], ap[5], rng.randrange(24)])
                mi = 0 if rng.random() < 0.8 else rng.choice([15, 30, 45])
                k = (mo, h, mi)
            keys.add(k)
        if kind == 'mph' and rng.random() < 0.08:
            keys = set((k[0], k[1]) for k in keys)            # (month, hour) keys without a minute
        keys = list(keys)
        rng.shuffle(keys)
        data = [[k, i + 1] for i, k in enumerate(keys)]
        tag = 'ok'
        r = rng.random()
        if r < 0.03:
            data, tag = [], 'empty'
        elif r < 0.08:
            data.append([data[0][0], len(data) + 1])
            rng.shuffle(data)
            tag = 'duplicate'
        elif r < 0.10 and kind == 'daily':
            data.append([rng.choice([0, 367, 400]), len(data) + 1])
            tag = 'bad_key'
        elif r < 0.12 and kind != 'daily':
            data.append([13 if kind == 'monthly' else (13, 5, 0)[:len(data[0][0])], len(data) + 1])
            tag = 'bad_key'
        out.append(_pick_shapes(rng, {'ap': ap, 'data': [[list(k) if isinstance(k, tuple) else k, v] for k, v in data],
                                      'tag': tag}))
    return out


def _full_day_steps(ap):
    """Minutes of the year of every step of a period with the window 0..23, in period order."""
    leap = ap[7]
    ny = _ny(leap)
    st = (_md_to_doy(leap, ap[0], ap[1]) - 1) * 1440
    en = (_md_to_doy(leap, ap[3], ap[4]) - 1) * 1440 + 1440
    n = ((en - st - 1) % ny + 1) // (60 // ap[6])
    step = 60 // ap[6]
    return [(st + k * step) % ny for k in range(n)]


def _gen_holes(ctx, count):
    rng = ctx.rng
    out = []
    for _ in range(count):
        ap = _gen_period(rng, full_day=True, short=rng.random() < 0.9)
        if rng.random() < 0.2:
            # the far end of the year (where products of hours and timesteps are largest), every timestep
            leap = rng.random() < 0.4
            sm, sd, em, ed = rng.choice([(12, 30, 12, 31), (12, 31, 12, 31), (12, 31, 1, 1), (12, 30, 1, 1), (12, 31, 1, 2)])
            ap = [sm, sd, 0, em, ed, 23, rng.choice(VALID_TS), leap]
            ctx.count('holes_gen:year_end')
        if ap[:6] == [1, 1, 0, 12, 31, 23]:
            ap[6] = rng.choice([1, 2])
        if len(_full_day_steps(ap)) > 20000:
            ap[6] = 1
        steps = _full_day_steps(ap)
        n = len(steps)
        pat = rng.choice(['none', 'leading', 'trailing', 'interior', 'single', 'random', 'sparse', 'one_hole',
                          'both_ends'])
        if pat == 'none':
            keep = list(range(n))
        elif pat == 'leading':
            keep = list(range(rng.randrange(1, max(2, n // 2)), n))
        elif pat == 'trailing':
            keep = list(range(0, n - rng.randrange(1, max(2, n // 2))))
        elif pat == 'interior':
            a = rng.randrange(1, max(2, n - 2))
            b = rng.randrange(a, max(a + 1, n - 1))
            keep = [i for i in range(n) if i < a or i > b]
        elif pat == 'single':
            keep = [rng.randrange(n)]
        elif pat == 'one_hole':
            a = rng.randrange(n)
            keep = [i for i in range(n) if i != a]
        elif pat == 'both_ends':
            a = rng.randrange(0, max(1, n // 3))
            b = rng.randrange(max(a + 1, 2 * n // 3), n)
            keep = [i for i in range(a, b + 1) if rng.random() < 0.7 or i in (a, b)]
        elif pat == 'sparse':
            keep = sorted(rng.sample(range(n), min(n, rng.choice([2, 3, 5]))))
        else:
            p = rng.choice([0.2, 0.5, 0.8])
            keep = [i for i in range(n) if rng.random() < p] or [rng.randrange(n)]
        vals = [rng.randrange(-50, 200) * rng.choice([1, 1, 10]) for _ in keep]
        ints = False
        q = rng.random()
        if q < 0.3:
            vals = [v + rng.choice([0.5, 0.25, 0.125]) for v in vals]
        elif q < 0.42:
            scale = rng.choice([1e-12, 1e-6, 1e9, 1e16])        # magnitudes: judged on their own scale
            vals = [v * scale for v in vals]
            ctx.count('holes_gen:magnitude')
        elif q < 0.6:
            ints = True                                          # whole numbers given as int, not float
        data = [[steps[i], v] for i, v in zip(keep, vals)]
        validated = True
        tag = pat
        if rng.random() < 0.03:
            validated, tag = False, 'not_validated'
        c = _pick_shapes(rng, {'ap': ap, 'validated': validated, 'data': data, 'tag': tag})
        if ints:
            c['ints'] = True
        out.append(c)
    # a period with an hour window is rejected by the continuous collection
    for _ in range(max(2, count // 40)):
        ap = _gen_period(rng, short=True)
        if (ap[2], ap[5]) == (0, 23):
            ap[2] = 3
        try:
            st = (_md_to_doy(ap[7], ap[0], ap[1]) - 1) * 1440 + ap[2] * 60
        except Exception:
            continue
        out.append({'ap': ap, 'validated': True, 'data': [[st, 5]], 'tag': 'window'})
    return out


def _gen_interp(ctx, count):
    rng = ctx.rng
    out = []
    all_types, cum_types = _all_type_names(), _cumulative_type_names()
    for _ in range(count):
        ap = _gen_period(rng, full_day=True, short=True)
        ap[6] = rng.choice([1, 1, 1, 2, 3, 4, 6, 12])
        if rng.random() < 0.15:
            leap = rng.random() < 0.4
            sm, sd, em, ed = rng.choice([(12, 31, 12, 31), (12, 31, 1, 1), (12, 30, 12, 31)])
            ap = [sm, sd, 0, em, ed, 23, rng.choice([1, 2, 3, 4, 5, 6, 10, 12, 15, 20, 30]), leap]
        n = len(_full_day_steps(ap))
        if n > 2500:
            ap[3], ap[4] = ap[0], ap[1]
            n = len(_full_day_steps(ap))
        mult = [t for t in VALID_TS if t % ap[6] == 0]
        ts = rng.choice(mult)
        tag = 'ok'
        r = rng.random()
        if r < 0.04:
            ts, tag = rng.choice([t for t in (7, 8, 9, 16, 24) if t % ap[6] == 0] or [7 * ap[6]]), 'invalid_target'
        elif r < 0.08:
            ts, tag = ap[6] + 1, 'not_multiple'
        r2 = rng.random()
        if r2 < 0.4:
            kind = rng.choice(['point', 'cumulative', 'averaged', 'point_cumulative'])
        elif r2 < 0.8:
            kind = rng.choice(cum_types)          # every data type with cumulative=True, incl. point-in-time ones
        else:
            kind = rng.choice(all_types)
        cum = rng.choice([None, None, True, False])
        scale = rng.choice([1, 60, 3600])
        vals = [rng.randrange(-20, 100) * scale for _ in range(n)]
        ints = False
        q = rng.random()
        if q < 0.2:
            vals = [v + rng.choice([0.5, 0.25]) for v in vals]
        elif q < 0.32:
            m = rng.choice([1e-12, 1e-6, 1e9, 1e16])
            vals = [v * m for v in vals]
        elif q < 0.5:
            ints = True
        c = _pick_shapes(rng, {'ap': ap, 'ts': ts, 'kind': kind, 'cum': cum, 'vals': vals, 'tag': tag})
        if ints:
            c['ints'] = True
        out.append(c)
    return out


NON_DIVISOR_PAIRS = [(cur, tgt) for cur in VALID_TS for tgt in VALID_TS if tgt < cur and cur % tgt != 0]


def _gen_cull(ctx, count):
    """Cull cases.  flavour 'sparse': a discontinuous subset (as for validation); 'dense': a
    discontinuous collection holding every step of a short whole-day period; 'cont': the same data as
    a HourlyContinuousCollection.  Dense/continuous sources are biased to (current, target) timestep
    pairs where the target does not divide the current timestep (6->4, 6->5, 12->5, 3->2 ...)."""
    rng = ctx.rng
    out = []
    for _ in range(count):
        r = rng.random()
        tag = 'ok'
        if r < 0.5:
            ap = _gen_period(rng)
            data = _gen_hourly_data(rng, ap, ctx.n(50, 300))
            ts = rng.choice(VALID_TS)
            flavour = 'sparse'
        else:
            ap = _gen_period(rng, full_day=True, short=True)
            q = rng.random()
            if q < 0.55:
                ap[6], ts = rng.choice(NON_DIVISOR_PAIRS)
            elif q < 0.8:
                ap[6] = rng.choice([2, 3, 4, 6, 12])
                ts = rng.choice([t for t in VALID_TS if ap[6] % t == 0])
            else:
                ap[6], ts = rng.choice([1, 2, 3, 4]), rng.choice(VALID_TS)     # incl. finer targets
            if len(_full_day_steps(ap)) > 700:
                ap[3], ap[4] = ap[0], ap[1]
            steps = _full_day_steps(ap)
            data = [[m, i + 1] for i, m in enumerate(steps)]
            flavour = 'cont' if rng.random() < 0.6 else 'dense'
        if rng.random() < 0.08:
            ts, tag = rng.choice([0, 7, 8, 24, 120]), 'invalid_target'
        out.append(_pick_shapes(rng, {'ap': ap, 'dl': ap[7], 'data': data, 'ts': ts, 'tag': tag, 'flavour': flavour,
                                      'pair': 'divisor' if (ts and ap[6] % ts == 0) else 'non_divisor'}))
    return out


# ---------------------------------------------------------------------------------------------
# implementation adapters (return the model's output format; exceptions -> err:<class>)


def _impl_vh(c):
    coll = _build_disc(c, [v for _, v in c['data']], [m for m, _ in c['data']], c['dl'])
    v = coll.validate_analysis_period()
    return 'ok %s %d%s' % (_show_ap(v.header.analysis_period), len(v.values),
                           ''.join(' %d %d' % (d.moy, x) for d, x in zip(v.datetimes, v.values)))


def _impl_keys(cls_name):
    def run(c):
        cls = _key_cls(cls_name, c.get('imm'))
        keys = [tuple(k) if isinstance(k, list) else k for k, _ in c['data']]
        coll = cls(_header(c['ap'], 'point', c.get('apshape', 'ctor')),
                   _as_shape([v for _, v in c['data']], c.get('vshape', 'list')), _as_shape(keys, c.get('dshape', 'list')))
        v = coll.validate_analysis_period()
        if cls_name == 'MonthlyPerHourCollection':
            items = ''.join(' %d-%d-%d %d' % (k[0], k[1], k[2] if len(k) > 2 else 0, x)
                            for k, x in zip(v.datetimes, v.values))
        else:
            items = ''.join(' %d %d' % (k, x) for k, x in zip(v.datetimes, v.values))
        return 'ok %s %d%s' % (_show_ap(v.header.analysis_period), len(v.values), items)
    return run


def _cull_source(c):
    if c.get('flavour') == 'cont':
        return _build_cont(c, [v for _, v in c['data']])
    return _build_disc(c, [v for _, v in c['data']], [m for m, _ in c['data']], c['dl'])


def _impl_cull(c):
    coll = _cull_source(c)
    v = coll.cull_to_timestep(c['ts'])
    return 'ok %s %d%s' % (_show_ap(v.header.analysis_period), len(v.values),
                           ''.join(' %d %d' % (d.moy, x) for d, x in zip(v.datetimes, v.values)))


def _num(c, v):
    """A value as the case wants it typed: float (default) or as it stands (whole numbers stay int)."""
    return v if c.get('ints') else float(v)


def _impl_holes(c):
    leap = c['ap'][7]
    coll = _build_disc(c, [_num(c, v) for _, v in c['data']], [m for m, _ in c['data']], leap)
    coll._validated_a_period = bool(c.get('validated', True))
    r = coll.interpolate_holes()
    return ('ok', None, list(r.values))


def _impl_interp(c):
    coll = _build_cont(c, [_num(c, v) for v in c['vals']], c['kind'])
    r = coll.interpolate_to_timestep(c['ts'], c['cum'])
    return ('ok', _show_ap(r.header.analysis_period), list(r.values))


def _rat(x):
    f = Fraction(x)
    return '%d' % f.numerator if f.denominator == 1 else '%d/%d' % (f.numerator, f.denominator)


def _line_items(data):
    return ''.join(' %d %d' % (m, v) for m, v in data)


def _compare_exact(ctx, op, cases, model_line, impl_fn):
    lines = [model_line(c) for c in cases]
    outs = ctx.driver().run(lines)
    for c, line, mo in zip(cases, lines, outs):
        try:
            io = impl_fn(c)
        except Exception as e:
            io = 'err:' + err_name(e)
        ctx.compared += 1
        ctx.count('op:' + op)
        ctx.count('%s:%s' % (op, c.get('tag', 'ok')))
        _count_shapes(ctx, op, c)
        if 'flavour' in c:
            ctx.count('%s:%s:%s' % (op, c['flavour'], c.get('pair', '')))
        ctx.case((op, line), nontrivial=not io.startswith('err:'))
        if io.startswith('err:'):
            ctx.count('err_results')
        if mo != io:
            ctx.disagree(op, {'case': c, 'line': line}, mo[:600], io[:600])
    if cases:
        ctx.sample({'op': op, 'request': lines[0][:300], 'model': outs[0][:300]})


def _close(a, b):
    return abs(a - b) <= 1e-9 * max(1.0, abs(a), abs(b))


def _compare_num(ctx, op, cases, model_line, impl_fn):
    """Model answers exact rationals, the code floats: compare header text exactly and values
    within 1e-9 (relative, absolute below 1)."""
    lines = [model_line(c) for c in cases]
    outs = ctx.driver().run(lines)
    for c, line, mo in zip(cases, lines, outs):
        try:
            io = impl_fn(c)
        except Exception as e:
            io = 'err:' + err_name(e)
        ctx.compared += 1
        ctx.count('op:' + op)
        ctx.count('%s:%s' % (op, c.get('tag', 'ok')))
        _count_shapes(ctx, op, c)
        ok_impl = not isinstance(io, str)
        ctx.case((op, line), nontrivial=ok_impl)
        if not ok_impl:
            ctx.count('err_results')
            if mo != io:
                ctx.disagree(op, {'case': c, 'line': line[:400]}, mo[:300], io)
            continue
        toks = mo.split(' ')
        good = toks[0] == 'ok'
        if good:
            k = 1
            if io[1] is not None:
                good = ' '.join(toks[1:9]) == io[1]
                k = 9
            if good:
                n = int(toks[k])
                mv = [Fraction(t) for t in toks[k + 1:]]
                src = [x for _, x in c['data']] if 'data' in c else c['vals']
                tol = 1e-9 * max([abs(float(x)) for x in src] or [0.0])      # relative to the data's own scale
                good = n == len(mv) == len(io[2]) and all(abs(float(a) - b) <= tol for a, b in zip(mv, io[2]))
        if not good:
            ctx.disagree(op, {'case': c, 'line': line[:400]}, mo[:400], repr(io)[:400])
    if cases:
        ctx.sample({'op': op, 'request': lines[0][:300], 'model': outs[0][:300]})


def extract(ctx):
    """Translator part: whether the continuous class refuses an in-place cull to a timestep that does not
    divide its own is read off datacollection.py (Gen/ResampleSrc.lean; the object machine follows it)."""
    from tools.extract import resample_src
    ctx.resample_src = resample_src.extract()


def _tick(ctx, what):
    import os
    import sys
    if os.environ.get('C13_TIMING'):
        sys.stderr.write('C13 %6.1fs %s\n' % (ctx.elapsed(), what))


def correspondence(ctx):
    # AnalysisPeriod prints 'Updated end_day ...' when it clips a day: keep the run's stdout clean
    _tick(ctx, 'correspondence starts')
    with contextlib.redirect_stdout(io.StringIO()):
        _correspondence(ctx)
    _tick(ctx, 'correspondence done')


def _correspondence(ctx):
    rng = ctx.rng
    # fixed corpus first
    corpus = [c for op, c in _corpus() if op == 'validate_hourly']
    cases = corpus + _gen_validate_hourly(ctx, ctx.n(800, 12000))
    _compare_exact(ctx, 'vh', cases,
                   lambda c: 'vh %s %s %d%s' % (_ap_line(c['ap']), _b(c['dl']), len(c['data']),
                                                 _line_items(c['data'])), _impl_vh)
    _tick(ctx, 'vh done')
    for kind, op, cls in (('daily', 'vd', 'DailyCollection'), ('monthly', 'vm', 'MonthlyCollection')):
        cases = _gen_keys(ctx, kind, ctx.n(500, 5000))
        _compare_exact(ctx, op, cases,
                       lambda c, op=op: '%s %s %d%s' % (op, _ap_line(c['ap']), len(c['data']),
                                                        _line_items(c['data'])), _impl_keys(cls))
    _tick(ctx, 'vd vm done')
    cases = _gen_keys(ctx, 'mph', ctx.n(500, 5000))
    _compare_exact(ctx, 'vp', cases,
                   lambda c: 'vp %s %d%s' % (_ap_line(c['ap']), len(c['data']),
                                             ''.join(' %d %d %d %d' % (k[0], k[1], k[2] if len(k) > 2 else 0, v)
                                                     for k, v in c['data'])),
                   _impl_keys('MonthlyPerHourCollection'))
    _tick(ctx, 'vp done')
    cases = [c for op, c in _corpus() if op == 'cull'] + _gen_cull(ctx, ctx.n(600, 5000))
    _compare_exact(ctx, 'cull', cases,
                   lambda c: 'cull %s %d %d%s' % (_ap_line(c['ap']), c['ts'], len(c['data']),
                                                  _line_items(c['data'])), _impl_cull)
    _tick(ctx, 'cull done')
    cases = [c for op, c in _corpus() if op == 'holes'] + _gen_holes(ctx, ctx.n(350, 3000))
    _compare_num(ctx, 'holes', cases,
                 lambda c: 'holes %s %s %d%s' % (_ap_line(c['ap']), _b(c.get('validated', True)), len(c['data']),
                                                 ''.join(' %d %s' % (m, _rat(v)) for m, v in c['data'])),
                 _impl_holes)
    _tick(ctx, 'holes done')
    cases = [c for op, c in _corpus() if op == 'interp'] + _gen_interp(ctx, ctx.n(350, 2500))
    _compare_num(ctx, 'interp', cases,
                 lambda c: 'interp %s %d %s %s %s %d%s' % (
                     _ap_line(c['ap']), c['ts'], 'N' if c['cum'] is None else _b(c['cum']),
                     _b(_kind_flags(c['kind'])[0]), _b(_kind_flags(c['kind'])[1]), len(c['vals']),
                     ''.join(' ' + _rat(v) for v in c['vals'])), _impl_interp)
    _corr_factor(ctx, rng)
    _tick(ctx, 'fresh-object correspondence done')
    # histories on one object: the Lean object machine step by step against the real object
    cases = [c for op, c in _corpus() if op == 'history'] + _gen_history(ctx, ctx.n(300, 3000))
    _compare_hist(ctx, cases)


def _corr_factor(ctx, rng):
    """to_time_aggregated / to_time_rate_of_change: value * (factor / timestep) and its inverse."""
    from ladybug.datacollection import HourlyContinuousCollection, DailyCollection
    from ladybug.header import Header
    from ladybug.datatype.power import Power
    from ladybug.datatype.energy import Energy
    from ladybug.datatype.speed import Speed
    from ladybug.datatype.distance import Distance
    lines, expect = [], []
    for _ in range(ctx.n(60, 600)):
        ts = rng.choice([1, 2, 4, 6])
        ap = [6, 21, 0, 6, 21, 23, ts, False]
        vals = [float(rng.randrange(0, 5000)) for _ in range(24 * ts)]
        rate_t, agg_t, u1, u2 = rng.choice([(Power, Energy, 'W', 'kWh'), (Speed, Distance, 'm/s', 'm')])
        factor = rate_t().time_aggregated_factor
        if rng.random() < 0.5:
            coll = HourlyContinuousCollection(Header(rate_t(), u1, _mk_ap(ap)), vals)
            got = coll.to_time_aggregated()
            op, want_unit, want_type = 'agg', u2, agg_t
        else:
            coll = HourlyContinuousCollection(Header(agg_t(), u2, _mk_ap(ap)), vals)
            got = coll.to_time_rate_of_change()
            op, want_unit, want_type = 'rate', u1, rate_t
        k = rng.randrange(len(vals))
        lines.append('%s %s %d %s' % (op, _rat(factor), ts, _rat(vals[k])))
        expect.append((op, got.values[k], got.header.unit == want_unit and isinstance(got.header.data_type, want_type)))
    # daily collections aggregate with timestep 1/24
    for _ in range(ctx.n(10, 100)):
        vals = [float(rng.randrange(0, 5000)) for _ in range(3)]
        coll = DailyCollection(Header(Power(), 'W', _mk_ap([1, 1, 0, 1, 3, 23, 1, False])), vals, [1, 2, 3])
        got = coll.to_time_aggregated()
        lines.append('agg %s 1/24 %s' % (_rat(Power().time_aggregated_factor), _rat(vals[1])))
        expect.append(('agg', got.values[1], got.header.unit == 'kWh'))
    outs = ctx.driver().run(lines)
    for line, mo, (op, val, hdr_ok) in zip(lines, outs, expect):
        ctx.compared += 1
        ctx.count('op:' + op)
        ctx.case((op, line))
        good = mo.startswith('ok ') and hdr_ok and _close(float(Fraction(mo[3:])), val)
        if not good:
            ctx.disagree(op, {'line': line}, mo, repr((val, hdr_ok)))


# ---------------------------------------------------------------------------------------------
# property oracle: the statement of C13 evaluated on the real code, independent of the model


OPT_KEYS = ('dshape', 'vshape', 'apshape', 'imm', 'ints', 'twin', 'keylen')


def _opt(c):
    """The optional fields of a generated case that the oracle input keeps (shapes, twin, typing)."""
    return dict((k, c[k]) for k in OPT_KEYS if k in c)


_TOKEN = [0]


def _token():
    """A value never used before in this process (a constant would be idempotent on a shared object)."""
    import os
    _TOKEN[0] += 1
    return 'poke-%d-%d' % (os.getpid(), _TOKEN[0])


def _dkey(d):
    return d.moy if hasattr(d, 'moy') else d


def _snap(c):
    """Everything the property speaks about, of one collection."""
    from ladybug.datacollection import HourlyContinuousCollection
    h = c.header
    # (the datetimes of a continuous collection are the steps of its period: not enumerated here, which costs
    # 10 us per step and would fill the lazily computed slot)
    if isinstance(c, HourlyContinuousCollection) and c._datetimes is None:
        dts = 'steps of the period'
    else:
        dts = [_dkey(d) for d in c.datetimes]
        if isinstance(c, HourlyContinuousCollection) and dts == _full_day_steps(_ap_fields(h.analysis_period)):
            dts = 'steps of the period'          # the slot has been filled: the same public state
    return (_ap_fields(h.analysis_period), dts, list(c.values), dict(h.metadata), h.unit,
            h.data_type.name, bool(c.validated_a_period))


def _poke(c):
    """Edit a collection in place through its public surface: a metadata entry, and the first value
    when the collection is mutable."""
    c.header.metadata['poke'] = _token()
    if c.is_mutable:
        c[0] = c[0] + 1000003


def _alias_probe(src, res, src_before=None):
    """A derived collection and its source do not share state: the call left the source as it was;
    editing the result in place does not change the source; editing the source afterwards does not
    change the result.  -> None | (what, observed)"""
    if res is src:
        return 'same-object', 'the derived collection is the source object itself'
    s0 = _snap(src)
    if src_before is not None and s0 != src_before:
        return 'call-changed-source', 'source after the call: %s' % str(_diff_snap(src_before, s0))
    _poke(res)
    s1 = _snap(src)
    if s1 != s0:
        return 'result-edit-reaches-source', str(_diff_snap(s0, s1))
    r0 = _snap(res)
    _poke(src)
    r1 = _snap(res)
    if r1 != r0:
        return 'source-edit-reaches-result', str(_diff_snap(r0, r1))
    return None


SNAP_FIELDS = ('period', 'datetimes', 'values', 'metadata', 'unit', 'data_type', 'validated')


def _diff_snap(a, b):
    return [(n, str(x)[:80], str(y)[:80]) for n, x, y in zip(SNAP_FIELDS, a, b) if x != y][:3]


def _twin_of(inp):
    """The same case on the sibling class (mutable <-> immutable), plain containers."""
    t = dict((k, v) for k, v in inp.items() if k not in ('dshape', 'vshape', 'apshape', 'twin'))
    t['imm'] = not inp.get('imm')
    return t


def _same_answer(a, b):
    """Two siblings answered the same collection (mutability aside)."""
    sa, sb = _snap(a), _snap(b)
    sa[3].pop('poke', None)
    sb[3].pop('poke', None)
    return None if sa == sb else _diff_snap(sa, sb)


def _moy_in_year(leap_to, leap_from, moy):
    """The minute of the year of the calendar date (month, day, hour, minute) that `moy` is in a year of
    kind `leap_from`, counted in a year of kind `leap_to`; None for 29 Feb in a common year."""
    if bool(leap_to) == bool(leap_from):
        return moy
    mo, da, h, mi = _moy_fields(leap_from, moy)
    if (mo, da) == (2, 29):
        return None
    return (_md_to_doy(leap_to, mo, da) - 1) * 1440 + h * 60 + mi


def _mix_tie(ap, dl, data):
    """Input-only fact for the signature of a leap-mixed validation (steps flagged for one kind of year under a
    header of the other kind): does deciding by the DAY OF THE YEAR (each side counted in
    its own year) miss a widening that the calendar dates (month, day) call for?  Only possible after February,
    where the two day counts differ by one."""
    if not data or bool(dl) == bool(ap[7]):
        return False
    st_doy, en_doy = _md_to_doy(ap[7], ap[0], ap[1]), _md_to_doy(ap[7], ap[3], ap[4])
    if (st_doy, ap[2]) > (en_doy, ap[5]):
        # wrapping header: the rotation point (minute of the year against the end of the header + 1 h) and the
        # "outside on both sides" test (day of the year strictly between end and start) are taken for every
        # step; a tie is a step for which one of them differs from the comparison of the calendar fields
        for m, _ in data:
            mo, da, h, mi = _moy_fields(dl, m)
            doy = m // 1440 + 1
            if (m < (en_doy - 1) * 1440 + ap[5] * 60 + 60) != ((mo, da, h * 60 + mi) < (ap[3], ap[4], ap[5] * 60 + 60)):
                return True
            if (doy > en_doy) != ((mo, da) > (ap[3], ap[4])) or (doy < st_doy) != ((mo, da) < (ap[0], ap[1])):
                return True
        return False
    first, last = min(m for m, _ in data), max(m for m, _ in data)
    fmd, lmd = _moy_fields(dl, first)[:2], _moy_fields(dl, last)[:2]
    need_st = fmd < (ap[0], ap[1])
    need_en = lmd > (ap[3], ap[4])
    doy_st = first // 1440 + 1 < _md_to_doy(ap[7], ap[0], ap[1])
    doy_en = last // 1440 + 1 > _md_to_doy(ap[7], ap[3], ap[4])
    return bool((need_st and not doy_st) or (need_en and not doy_en))


def _LM(mo, da, h):
    """Minute of a leap year of month/day/hour."""
    return (_md_to_doy(True, mo, da) - 1) * 1440 + h * 60


def _CM(mo, da, h):
    """Minute of a common year of month/day/hour."""
    return (_md_to_doy(False, mo, da) - 1) * 1440 + h * 60


def _daily_mix_tie(ap, days):
    """Input-only fact for the signature of a daily validation with day 366 under a common-year header: is there a
    day whose position against the start / end of the header differs between the header dates counted in a common
    year (what the header object says) and in the leap year the days belong to?  Only the day that equals the
    common-year number of a start after February, or the leap-year number of an end after February."""
    st_c, st_l = _md_to_doy(False, ap[0], ap[1]), _md_to_doy(True, ap[0], ap[1])
    en_c, en_l = _md_to_doy(False, ap[3], ap[4]), _md_to_doy(True, ap[3], ap[4])
    return any((d < st_c) != (d < st_l) or (d > en_c) != (d > en_l) for d in days if isinstance(d, int))


def _contains(ap, leap_dt, moy):
    """Is the step (minute of the year, leap flag of its DateTime) a step of the period `ap`
    (AnalysisPeriod object)?  Written from the description of a period: grid, hour window, date
    range; cyclic for wrapping periods.  Returns None or the name of the criterion that fails."""
    if bool(ap.is_leap_year) != bool(leap_dt):
        # a step flagged for the other kind of year (header with the wrong leap flag): it is judged by its
        # calendar fields (month, day, hour, minute) in the year of the period; 29 Feb has no place in a
        # common year
        moy = _moy_in_year(ap.is_leap_year, leap_dt, moy)
        if moy is None:
            return 'leap29'
    step = 60 // ap.timestep
    if moy % step:
        return 'grid'
    mod = moy % 1440
    sh, eh = ap.st_hour, ap.end_hour
    if sh <= eh:
        win = (sh * 60 <= mod <= eh * 60) or (sh == 0 and eh == 23)
        if not win:
            return 'minute_after_end_hour' if (sh * 60 <= mod and mod // 60 == eh) else 'window'
    elif not (mod >= sh * 60 or mod <= eh * 60):
        return 'minute_after_end_hour' if mod // 60 == eh else 'window'
    st = (_md_to_doy(ap.is_leap_year, ap.st_month, ap.st_day) - 1) * 1440 + sh * 60
    en = (_md_to_doy(ap.is_leap_year, ap.end_month, ap.end_day) - 1) * 1440 + eh * 60
    if st <= en:
        ok = st <= moy < en + 60
    else:
        ok = moy >= st or moy < en + 60
    return None if ok else 'dates'


def _header_kind(ap):
    a = _mk_ap(ap)
    return 'rev' if a.is_reversed else ('annual' if a.is_annual else 'fwd')


def _check_validate_hourly(inp):
    from ladybug.datacollection import HourlyDiscontinuousCollection
    ap, dl, data = inp['ap'], inp['dl'], inp['data']
    sig = {'header': _header_kind(ap), 'window': 'full' if (ap[2], ap[5]) == (0, 23) else 'partial',
           'leap_mix': bool(dl) != bool(ap[7]), 'n': 'one' if len(data) == 1 else 'many'}
    if sig['leap_mix']:
        sig.update(mix_tie=_mix_tie(ap, dl, data), mix='leap_steps' if dl else 'leap_header')
    sig.update(imm=bool(inp.get('imm')), shape='%s/%s/%s' % (inp.get('dshape', 'list'), inp.get('vshape', 'list'),
                                                              inp.get('apshape', 'ctor')))
    moys = [m for m, _ in data]
    dup = len(set(moys)) != len(moys)
    coll = _build_disc(inp, [v for _, v in data], moys, dl)
    before = _snap(coll)
    try:
        v = coll.validate_analysis_period()
    except AssertionError as e:
        if dup:
            return None
        return {'required': 'validated collection', 'observed': 'AssertionError: %s' % e,
                'sig': dict(sig, fail='raise')}
    except Exception as e:
        return {'required': 'validated collection', 'observed': '%s: %s' % (type(e).__name__, e),
                'sig': dict(sig, fail='raise')}
    if dup:
        return {'required': 'duplicate datetimes rejected', 'observed': 'accepted', 'sig': dict(sig, fail='dup')}
    f = _pred_validated(v, dl, data, sig)
    if f:
        return f
    if inp.get('twin'):
        try:
            tw = _build_disc(_twin_of(inp), [x for _, x in data], moys, dl).validate_analysis_period()
            d = _same_answer(v, tw)
        except Exception as e:
            d = '%s: %s' % (type(e).__name__, e)
        if d:
            return {'required': 'the mutable and the immutable collection validate to the same collection',
                    'observed': str(d)[:300], 'sig': dict(sig, fail='twin')}
    a = _alias_probe(coll, v, before)
    if a:
        return {'required': 'the validated collection and its source share no state (%s)' % a[0],
                'observed': a[1][:300], 'sig': dict(sig, fail='alias', alias=a[0])}
    return None


def _pred_validated(v, dl, data, sig, header=('C', {'k': 'v'}, 'Temperature')):
    """The statement about a validated hourly collection `v` obtained from the pairs `data`
    ((moy, value); DateTime leap flag `dl`): same pairs, flagged, sorted from the period start,
    every datetime a step of the output period, header otherwise kept."""
    nap = v.header.analysis_period
    got = [(d.moy, bool(d.leap_year), x) for d, x in zip(v.datetimes, v.values)]
    if sorted(got) != sorted((m, bool(dl), x) for m, x in data) or len(v.values) != len(v.datetimes):
        return {'required': 'same (datetime, value) pairs', 'observed': str(got)[:300], 'sig': dict(sig, fail='pairs')}
    if not v.validated_a_period:
        return {'required': 'validated flag', 'observed': 'False', 'sig': dict(sig, fail='flag')}
    nleap = bool(nap.is_leap_year)
    ny = _ny(nleap)
    st = (_md_to_doy(nleap, nap.st_month, nap.st_day) - 1) * 1440 + nap.st_hour * 60
    pm = [_moy_in_year(nleap, l, m) for m, l, _ in got]          # in the year of the output period
    if any(m is None for m in pm):
        return {'required': 'a period with 29 Feb for steps on 29 Feb', 'observed': str(nap),
                'sig': dict(sig, fail='contain', cause='leap29')}
    keys = [(m - st) % ny for m in pm] if nap.is_reversed else pm
    if any(a >= b for a, b in zip(keys, keys[1:])):
        return {'required': 'chronological order from the period start', 'sig': dict(sig, fail='order'),
                'observed': '%s: %s' % (nap, [str(d) for d in v.datetimes][:12])}
    bad = [(str(d), _contains(nap, d.leap_year, d.moy)) for d in v.datetimes]
    bad = [b for b in bad if b[1]]
    if bad:
        causes = sorted(set(b[1] for b in bad))
        return {'required': 'every datetime is a step of the output period',
                'observed': '%s does not contain %s' % (nap, bad[:6]),
                'sig': dict(sig, fail='contain', cause='+'.join(causes))}
    hd = v.header
    if header and (hd.unit != header[0] or hd.metadata != header[1] or hd.data_type.name != header[2]):
        return {'required': 'header data type/unit/metadata kept', 'observed': str(hd), 'sig': dict(sig, fail='header')}
    return None


def _check_validate_keys(op, inp):
    ap, data = inp['ap'], inp['data']
    keys = [tuple(k) if isinstance(k, list) else k for k, _ in data]
    sig = {'header': _header_kind(ap), 'n': 'one' if len(data) == 1 else 'many',
           'same_month': ap[0] == ap[3], 'window': 'full' if (ap[2], ap[5]) == (0, 23) else 'partial'}
    if op == 'validate_daily' and not ap[7] and any(k == 366 for k in keys):
        # day 366 under a header that is not flagged leap (round 6): the days are days of a leap year
        sig.update(leap_mix=True, mix_tie=_daily_mix_tie(ap, keys))
    dup = len(set(keys)) != len(keys)
    sig.update(imm=bool(inp.get('imm')), shape='%s/%s/%s' % (inp.get('dshape', 'list'), inp.get('vshape', 'list'),
                                                              inp.get('apshape', 'ctor')))

    def build(c):
        return _key_cls(KEY_CLASSES[op], c.get('imm'))(
            _header(ap, 'point', c.get('apshape', 'ctor')), _as_shape([x for _, x in data], c.get('vshape', 'list')),
            _as_shape(keys, c.get('dshape', 'list')))
    coll = build(inp)
    before = _snap(coll)
    try:
        v = coll.validate_analysis_period()
    except AssertionError as e:
        if dup:
            return None
        return {'required': 'validated collection', 'observed': 'AssertionError: %s' % e, 'sig': dict(sig, fail='raise')}
    except Exception as e:
        return {'required': 'validated collection', 'observed': '%s: %s' % (type(e).__name__, e),
                'sig': dict(sig, fail='raise')}
    if dup:
        return {'required': 'duplicates rejected', 'observed': 'accepted', 'sig': dict(sig, fail='dup')}
    f = _pred_validated_keys(op, v, list(zip(keys, [x for _, x in data])), sig)
    if f:
        return f
    if inp.get('twin'):
        try:
            d = _same_answer(v, build(_twin_of(inp)).validate_analysis_period())
        except Exception as e:
            d = '%s: %s' % (type(e).__name__, e)
        if d:
            return {'required': 'the mutable and the immutable collection validate to the same collection',
                    'observed': str(d)[:300], 'sig': dict(sig, fail='twin')}
    a = _alias_probe(coll, v, before)
    if a:
        return {'required': 'the validated collection and its source share no state (%s)' % a[0],
                'observed': a[1][:300], 'sig': dict(sig, fail='alias', alias=a[0])}
    return None


def _pred_validated_keys(op, v, pairs, sig):
    """The statement about a validated Daily / Monthly / MonthlyPerHour collection `v` obtained from
    the (key, value) pairs `pairs`."""
    nap = v.header.analysis_period
    got = list(zip(v.datetimes, v.values))
    if sorted(got) != sorted(pairs):
        return {'required': 'same (key, value) pairs', 'observed': str(got)[:300], 'sig': dict(sig, fail='pairs')}
    leap = bool(nap.is_leap_year)
    nd = 366 if leap else 365
    sdoy = _md_to_doy(leap, nap.st_month, nap.st_day)
    edoy = _md_to_doy(leap, nap.end_month, nap.end_day)
    if op == 'validate_daily':
        pos = [(k - sdoy) % nd for k in v.datetimes] if nap.is_reversed else list(v.datetimes)
        if nap.is_reversed and sdoy == edoy and pos and v.datetimes[-1] == sdoy:
            pos[-1] = nd              # a period that starts and ends on one day lists that day at both ends
        inside = [(1 <= k <= nd) and ((sdoy <= k <= edoy) if sdoy <= edoy and not nap.is_reversed
                                       else (k >= sdoy or k <= edoy)) for k in v.datetimes]
    elif op == 'validate_monthly':
        sm, em = nap.st_month, nap.end_month
        pos = [(k - sm) % 12 for k in v.datetimes] if nap.is_reversed else list(v.datetimes)
        inside = [(sm <= k <= em) if not nap.is_reversed else (k >= sm or k <= em) for k in v.datetimes]
    else:
        cause = 'other'
        sm, em, sh, eh = nap.st_month, nap.end_month, nap.st_hour, nap.end_hour
        pos = [(((k[0] - sm) % 12) if nap.is_reversed else k[0], k[1]) for k in v.datetimes]
        inside = []
        causes = set()
        for k in v.datetimes:
            k = tuple(k) + (0,) * (3 - len(k))          # a (month, hour) key is on the hour
            mo_ok = (sm <= k[0] <= em) if not nap.is_reversed else (k[0] >= sm or k[0] <= em)
            h_ok = (sh <= k[1] <= eh) if sh <= eh else (k[1] >= sh or k[1] <= eh)
            grid_ok = k[2] % (60 // nap.timestep) == 0
            mi_ok = k[2] == 0 or k[1] != eh or (sh, eh) == (0, 23)
            inside.append(mo_ok and h_ok and grid_ok and mi_ok)
            if not (mo_ok and h_ok):
                causes.add('other')
            elif not grid_ok:
                causes.add('minute_grid')
            elif not mi_ok:
                causes.add('minute_after_end_hour')
        cause = '+'.join(sorted(causes))
    if op == 'validate_mph':
        pos = [p + (k[2] if len(k) > 2 else 0,) for p, k in zip(pos, v.datetimes)]
        unordered = any(a >= b for a, b in zip(pos, pos[1:]))
    else:
        unordered = any(a >= b for a, b in zip(pos, pos[1:]))
    if unordered:
        return {'required': 'chronological order from the period start', 'sig': dict(sig, fail='order'),
                'observed': '%s: %s' % (nap, list(v.datetimes)[:14])}
    if not all(inside):
        if op == 'validate_mph':
            sig = dict(sig, cause=cause)
        return {'required': 'every key lies in the output period', 'sig': dict(sig, fail='contain'),
                'observed': '%s does not contain %s' % (nap, [k for k, ok in zip(v.datetimes, inside) if not ok][:8])}
    return None


def _check_holes(inp):
    ap, data = inp['ap'], inp['data']
    leap = ap[7]
    steps = _full_day_steps(ap)
    pos = {m: i for i, m in enumerate(steps)}
    sig = {'header': _header_kind(ap), 'ts': 'hourly' if ap[6] == 1 else 'sub',
           'leading': data[0][0] != steps[0], 'via': inp.get('via', 'flag'), 'imm': bool(inp.get('imm'))}
    # steps flagged for the other kind of year than the header (same calendar dates; round 6, fixed corpus only)
    dl = inp.get('dl', leap)
    dt_moys = [_moy_in_year(dl, leap, m) for m, _ in data]
    if bool(dl) != bool(leap):
        sig['leap_mix'] = True

    def build(c):
        coll = _build_disc(c, [_num(c, v) for _, v in data], dt_moys, dl)
        if c.get('via') == 'validate':
            coll = coll.validate_analysis_period()
            if c.get('imm'):
                coll = _hourly_cls(False, True)(coll.header, coll.values, coll.datetimes)
                coll._validated_a_period = True
        else:
            coll._validated_a_period = True
        return coll
    coll = build(inp)
    if inp.get('via') == 'validate' and _ap_fields(coll.header.analysis_period) != ap:
        return {'required': 'validation keeps a fitting header', 'observed': str(coll.header.analysis_period),
                'sig': dict(sig, fail='validate')}
    before = _snap(coll)
    try:
        r = coll.interpolate_holes()
    except Exception as e:
        return {'required': 'continuous collection', 'observed': '%s: %s' % (type(e).__name__, e),
                'sig': dict(sig, fail='raise')}
    f = _pred_holes(r, ap, data, sig)
    if f:
        return f
    if inp.get('twin'):
        try:
            d = _same_answer(r, build(_twin_of(inp)).interpolate_holes())
        except Exception as e:
            d = '%s: %s' % (type(e).__name__, e)
        if d:
            return {'required': 'the mutable and the immutable collection are filled to the same collection',
                    'observed': str(d)[:300], 'sig': dict(sig, fail='twin')}
    a = _alias_probe(coll, r, before)
    if a:
        return {'required': 'the filled collection and its source share no state (%s)' % a[0],
                'observed': a[1][:300], 'sig': dict(sig, fail='alias', alias=a[0])}
    # a continuous collection has no holes: it answers a copy of itself (the sibling override)
    r2 = r.interpolate_holes()
    d = _same_answer(r, r2) if r2 is not r else [('same-object',)]
    if d:
        return {'required': 'filling a continuous collection answers an equal copy', 'observed': str(d)[:300],
                'sig': dict(sig, fail='cont_copy')}
    return None


def _pred_holes(r, ap, data, sig):
    """The statement about the hole-filled collection `r` of validated pairs `data` under the
    whole-day period `ap`: one value per step, source values kept, the rest between neighbours."""
    steps = _full_day_steps(ap)
    pos = {m: i for i, m in enumerate(steps)}
    out = list(r.values)
    if len(out) != len(steps) or _ap_fields(r.header.analysis_period) != ap:
        return {'required': 'one value per step (%d)' % len(steps), 'observed': len(out), 'sig': dict(sig, fail='length')}
    src = sorted((pos[m], float(v)) for m, v in data)
    for i, v in src:
        if out[i] != v:
            return {'required': 'source value %r at step %d' % (v, i), 'observed': out[i], 'sig': dict(sig, fail='source')}
    idx = [i for i, _ in src]
    for k in range(len(steps)):
        if k < idx[0]:
            want = (src[0][1], src[0][1])
        elif k > idx[-1]:
            want = (src[-1][1], src[-1][1])
        else:
            import bisect
            j = bisect.bisect_right(idx, k)
            a, b = src[j - 1][1], (src[j][1] if j < len(src) else src[j - 1][1])
            if idx[j - 1] == k:
                continue
            want = (min(a, b), max(a, b))
        tol = 1e-9 * max(abs(want[0]), abs(want[1]))           # relative: tiny data are judged on their own scale
        if not (want[0] - tol <= out[k] <= want[1] + tol):
            return {'required': 'value at step %d between %r and %r' % (k, want[0], want[1]), 'observed': out[k],
                    'sig': dict(sig, fail='between', where='lead' if k < idx[0] else 'trail' if k > idx[-1] else 'hole')}
    return None


def _check_interp(inp):
    """Time semantics from the statement: data are treated as cumulative when the caller says so
    (cumulative=True/False) or, by default, when the data type is cumulative – then the total is
    conserved; otherwise point-in-time types keep their values at the original steps and the other
    (averaged) types keep their mean."""
    ap, ts, kind, vals = inp['ap'], inp['ts'], inp['kind'], inp['vals']
    cum = inp.get('cum')
    native_cum, pit = _kind_flags(kind)
    as_cum = native_cum if cum is None else bool(cum)
    r = ts // ap[6]
    sig = {'kind': kind, 'type_cumulative': native_cum, 'type_point_in_time': pit,
           'cum_arg': 'default' if cum is None else str(bool(cum)),
           'source': 'hourly' if ap[6] == 1 else 'sub', 'header': _header_kind(ap)}
    sig['imm'] = bool(inp.get('imm'))
    coll = _build_cont(inp, [_num(inp, v) for v in vals], kind)
    before = _snap(_build_cont(inp, [_num(inp, v) for v in vals], kind))
    try:
        new = coll.interpolate_to_timestep(ts, cum)
    except Exception as e:
        return {'required': 'refined collection', 'observed': '%s: %s' % (type(e).__name__, e), 'sig': dict(sig, fail='raise')}
    f = _pred_interp(new, ap, ts, vals, as_cum, pit, sig)
    if f:
        return f
    if inp.get('twin'):
        try:
            d = _same_answer(new, _build_cont(_twin_of(inp), [_num(inp, v) for v in vals], kind).interpolate_to_timestep(ts, cum))
        except Exception as e:
            d = '%s: %s' % (type(e).__name__, e)
        if d:
            return {'required': 'the mutable and the immutable collection are refined to the same collection',
                    'observed': str(d)[:300], 'sig': dict(sig, fail='twin')}
    a = _alias_probe(coll, new, before)
    if a:
        return {'required': 'the refined collection and its source share no state (%s)' % a[0],
                'observed': a[1][:300], 'sig': dict(sig, fail='alias', alias=a[0])}
    return None


def _pred_interp(new, ap, ts, vals, as_cum, pit, sig):
    """The statement about the refinement `new` of the continuous values `vals` (period `ap`) to
    timestep `ts`: totals of cumulative data, point-in-time values at the original steps, means."""
    r = ts // ap[6]
    out = list(new.values)
    if len(out) != len(vals) * r or new.header.analysis_period.timestep != ts:
        return {'required': '%d values at timestep %d' % (len(vals) * r, ts), 'observed': len(out), 'sig': dict(sig, fail='length')}
    if as_cum:
        a, b = sum(Fraction(x) for x in out), sum(Fraction(v) for v in vals)
        if abs(a - b) > Fraction(1, 10 ** 9) * sum(abs(Fraction(v)) for v in vals):
            return {'required': 'total %s' % float(b), 'observed': float(a), 'sig': dict(sig, fail='total')}
    elif pit:
        for k, v in enumerate(vals):
            if out[k * r] != float(v):
                return {'required': 'new[%d] == old[%d] == %r' % (k * r, k, v), 'observed': out[k * r], 'sig': dict(sig, fail='point')}
    else:
        a, b = sum(Fraction(x) for x in out) / len(out), sum(Fraction(v) for v in vals) / len(vals)
        if abs(a - b) > Fraction(1, 10 ** 9) * max(abs(Fraction(v)) for v in vals):
            return {'required': 'mean %s' % float(b), 'observed': float(a), 'sig': dict(sig, fail='mean')}
    return None


def _check_cull(inp):
    """Both culls, on the class the case names (discontinuous / continuous, mutable / immutable twin):
    exactly the steps on the coarser grid, in order, under the old period with the new timestep.  The
    timestep argument is also given as the equal float (`2.0 == 2`): the answer may not depend on it.
    The in-place cull of a continuous collection must leave a continuous collection: one value per
    step of its header period (it may refuse a timestep that does not divide its own); an immutable
    collection refuses the in-place cull and stays as it was."""
    ap, dl, data, ts = inp['ap'], inp['dl'], inp['data'], inp['ts']
    cont, imm = inp.get('flavour') == 'cont', bool(inp.get('imm'))
    sig = {'ts': ts, 'source_ts': ap[6], 'flavour': inp.get('flavour', 'sparse'), 'imm': imm,
           'pair': 'divisor' if ap[6] % ts == 0 else 'non_divisor'}
    want = [(m, x) for m, x in data if m % (60 // ts) == 0]
    results = {}
    for via in ('cull_to_timestep', 'convert_to_culled_timestep', 'cull_to_timestep:float'):
        coll = _cull_source(inp)
        # (the snapshot of a continuous source is taken from an equal second object: reading `datetimes`
        # would fill the lazily computed slot of the object under test before the call)
        before = _snap(_cull_source(inp) if cont else coll)
        arg = float(ts) if via.endswith(':float') else ts
        try:
            if via.startswith('cull_to_timestep'):
                v = coll.cull_to_timestep(arg)
            else:
                coll.convert_to_culled_timestep(arg)
                v = coll
        except Exception as e:
            if via.startswith('cull_to_timestep') and isinstance(e, AssertionError) and not want:
                continue              # nothing is on the coarser grid: an empty collection cannot be built
            if via.endswith(':float'):
                continue              # a float timestep may be refused; only a DIFFERENT answer is judged
            unchanged = _snap(coll) == before
            if via == 'convert_to_culled_timestep' and unchanged and (
                    (imm and isinstance(e, AttributeError)) or
                    (cont and isinstance(e, AssertionError) and ap[6] % ts != 0)):
                continue              # refused, nothing changed: immutable twin / a continuous collection cannot hold those steps
            return {'required': 'culled collection' + ('' if unchanged else ' (or a refusal that changes nothing)'),
                    'observed': '%s: %s' % (type(e).__name__, e), 'sig': dict(sig, fail='raise', via=via, unchanged=unchanged)}
        if via == 'convert_to_culled_timestep' and imm:
            return {'required': 'an immutable collection refuses the in-place cull', 'observed': 'accepted',
                    'sig': dict(sig, fail='accepted', via=via)}
        got = [(d.moy, x) for d, x in zip(v.datetimes, v.values)]
        if got != want or len(v.values) != len(v.datetimes):
            return {'required': 'exactly the steps on the %d-minute grid, in order' % (60 // ts),
                    'observed': str(got)[:300], 'sig': dict(sig, fail='kept', via=via)}
        na = _ap_fields(v.header.analysis_period)
        if na[6] != ts or na[:6] != ap[:6] or na[7] != ap[7]:
            return {'required': 'header timestep %d, period otherwise unchanged' % ts, 'observed': str(na),
                    'sig': dict(sig, fail='header', via=via)}
        if via == 'convert_to_culled_timestep' and cont and [m for m, _ in got] != _full_day_steps(na):
            return {'required': 'a continuous collection culled in place still holds one value per step of its '
                                'header period (%d steps at timestep %d)' % (len(_full_day_steps(na)), ts),
                    'observed': '%d values under %s' % (len(got), na), 'sig': dict(sig, fail='incoherent', via=via)}
        if via.startswith('cull_to_timestep'):
            results[via] = _snap(v)
            a = _alias_probe(coll, v, before)
            if a:
                return {'required': 'the culled collection and its source share no state (%s)' % a[0],
                        'observed': a[1][:300], 'sig': dict(sig, fail='alias', alias=a[0], via=via)}
    if len(results) == 2 and results['cull_to_timestep'] != results['cull_to_timestep:float']:
        return {'required': 'cull_to_timestep(%d) and cull_to_timestep(%.1f) answer the same collection' % (ts, ts),
                'observed': str(_diff_snap(results['cull_to_timestep'], results['cull_to_timestep:float'])),
                'sig': dict(sig, fail='arg_type')}
    if inp.get('twin'):
        try:
            tw = _cull_source(_twin_of(inp)).cull_to_timestep(ts)
            d = None if _snap(tw) == results.get('cull_to_timestep') else _diff_snap(_snap(tw), results.get('cull_to_timestep') or ())
        except Exception as e:
            d = None if 'cull_to_timestep' not in results else '%s: %s' % (type(e).__name__, e)
        if d:
            return {'required': 'the mutable and the immutable collection are culled to the same collection',
                    'observed': str(d)[:300], 'sig': dict(sig, fail='twin')}
    return None


# ---------------------------------------------------------------------------------------------
# histories on ONE object (round 3): executor on the real classes, shared by the history
# correspondence (vs. the Lean object machine Model/ResampleObj.lean) and the history oracle


def _hist_build(inp):
    """The starting object of a history, built through the public constructors only."""
    from ladybug.datacollection import HourlyDiscontinuousCollection, HourlyContinuousCollection
    ap, kind = inp['ap'], inp.get('kind', 'point')
    vals = [float(v) for _, v in inp['data']]
    if inp['cls'] == 'cont':
        coll = HourlyContinuousCollection(_header(ap, kind), vals)
    else:
        coll = HourlyDiscontinuousCollection(_header(ap, kind), vals, [_mk_dt(ap[7], m) for m, _ in inp['data']])
        if inp.get('flag'):
            # a dictionary that claims to be validated (public route to the flag)
            d = coll.to_dict()
            d['validated_a_period'] = True
            coll = HourlyDiscontinuousCollection.from_dict(d)
    if inp.get('imm'):
        coll = coll.to_immutable()
    return coll


CUM_ARG = {'N': None, '0': False, '1': True, 'X': 1}


def _hist_apply(coll, op):
    """Run one op of a history on the real object.  -> (status, derived collection or None);
    status 'done' | 'res' | 'err:<class>'."""
    name = op[0]
    try:
        if name == 'read':
            coll.values, coll.header.analysis_period, coll.validated_a_period
            if op[1]:
                coll.datetimes
            return 'done', None
        if name == 'validate':
            return 'res', coll.validate_analysis_period()
        if name == 'cull':
            return 'res', coll.cull_to_timestep(op[1])
        if name == 'convcull':
            coll.convert_to_culled_timestep(op[1])
            return 'done', None
        if name == 'holes':
            return 'res', coll.interpolate_holes()
        if name == 'interp':
            return 'res', coll.interpolate_to_timestep(op[1], CUM_ARG[op[2]])
        if name == 'setvalues':
            coll.values = op[1] if isinstance(op[1], str) else [float(x) for x in op[1]]
            return 'done', None
        if name == 'setitem':
            coll[op[1]] = float(op[2])
            return 'done', None
        if name == 'dict':
            return 'res', type(coll).from_dict(coll.to_dict())
        if name in ('to_immutable', 'to_mutable', 'duplicate', 'to_discontinuous'):
            return 'res', getattr(coll, name)()
    except Exception as e:
        return 'err:' + err_name(e), None
    raise ValueError('unknown history op %r' % (op,))


ADOPTING = ('to_immutable', 'to_mutable', 'duplicate', 'to_discontinuous', 'dict')


def _adopts(op):
    return op[0] in ADOPTING or (op[0] in ('validate', 'cull', 'holes', 'interp') and bool(op[-1]))


def _hist_obs(coll, read_dt):
    """Public state of a collection; `datetimes` is read only on request (the read fills the lazily
    computed slot of a continuous collection, which is itself part of the history)."""
    from ladybug.datacollection import HourlyContinuousCollection
    o = {'cont': isinstance(coll, HourlyContinuousCollection), 'imm': not coll.is_mutable,
         'ap': _ap_fields(coll.header.analysis_period), 'validated': bool(coll.validated_a_period),
         'vals': list(coll.values), 'moys': None}
    if read_dt:
        dts = list(coll.datetimes)
        o['moys'] = [d.moy for d in dts]
        o['dleap'] = sorted(set(bool(d.leap_year) for d in dts))
    return o


def _hist_exec(inp):
    """-> list of (status, result obs or None, current obs) per step, or 'err:<class>' when the
    starting object cannot be built."""
    try:
        cur = _hist_build(inp)
    except Exception as e:
        return 'err:' + err_name(e)
    ops = inp['ops']
    trace = []
    for k, op in enumerate(ops):
        status, res = _hist_apply(cur, op)
        robs = None
        if status == 'res':
            adopt = _adopts(op)
            robs = _hist_obs(res, read_dt=not adopt)
            if adopt:
                cur = res
        read_dt = (op[0] == 'read' and bool(op[1])) or k == len(ops) - 1
        trace.append((status, robs, _hist_obs(cur, read_dt)))
    return trace


def _op_tokens(op):
    name = op[0]
    if name == 'read':
        return 'read %s' % _b(op[1])
    if name in ('validate', 'holes'):
        return '%s %s' % (name, _b(op[1]))
    if name == 'cull':
        return 'cull %d %s' % (op[1], _b(op[2]))
    if name == 'convcull':
        return 'convcull %d' % op[1]
    if name == 'interp':
        return 'interp %d %s %s' % (op[1], op[2], _b(op[3]))
    if name == 'setvalues':
        if isinstance(op[1], str):
            return 'setvalues S'
        return 'setvalues %d%s' % (len(op[1]), ''.join(' ' + _rat(v) for v in op[1]))
    if name == 'setitem':
        return 'setitem %d %s' % (op[1], _rat(op[2]))
    return name


def _hist_line(c):
    nc, pit = _kind_flags(c.get('kind', 'point'))
    return 'hist %s %s %s %s %s %s %d%s %s' % (
        _b(c['cls'] == 'cont'), _b(c.get('imm')), _ap_line(c['ap']), _b(c.get('flag')), _b(nc), _b(pit),
        len(c['data']), ''.join(' %d %s' % (m, _rat(v)) for m, v in c['data']),
        ' '.join(_op_tokens(op) for op in c['ops']))


def _parse_obs(toks, k):
    """<cont> <imm> <ap 8> <validated> <n> rat*n <k> moy*k  ->  (obs, next index)."""
    cont, imm = toks[k] == '1', toks[k + 1] == '1'
    ap = [int(t) for t in toks[k + 2:k + 9]] + [toks[k + 9] == '1']
    validated = toks[k + 10] == '1'
    n = int(toks[k + 11])
    vals = [Fraction(t) for t in toks[k + 12:k + 12 + n]]
    k2 = k + 12 + n
    m = int(toks[k2])
    moys = [int(t) for t in toks[k2 + 1:k2 + 1 + m]]
    return {'cont': cont, 'imm': imm, 'ap': ap, 'validated': validated, 'vals': vals, 'moys': moys}, k2 + 1 + m


def _parse_hist(mo):
    """Model answer of a `hist` request -> list of (status, result obs or None, current obs)."""
    out = []
    for part in mo[3:].split(' | '):
        a, b = part.split(' ; ')
        at = a.split(' ')
        robs = None
        status = at[0]
        if status == 'res':
            robs, _ = _parse_obs(at, 1)
        cobs, _ = _parse_obs(b.split(' '), 0)
        out.append((status, robs, cobs))
    return out


def _obs_diff(model, impl):
    """First field in which the model's and the implementation's public state differ (the
    datetimes only when the implementation's were read)."""
    if impl is None or model is None:
        return None if impl is model else 'result'
    for f in ('cont', 'imm', 'ap', 'validated'):
        if model[f] != impl[f]:
            return f
    if len(model['vals']) != len(impl['vals']) or \
            not all(_close(float(a), b) for a, b in zip(model['vals'], impl['vals'])):
        return 'values'
    if impl['moys'] is not None:
        if model['moys'] != impl['moys']:
            return 'datetimes'
        if impl['dleap'] not in ([], [bool(model['ap'][7])]):
            return 'datetime_leap'
    return None


def _compare_hist(ctx, cases):
    """History correspondence: the Lean object machine and the real object run the same op list; the
    answer of every step and the public state after every step are compared."""
    lines = [_hist_line(c) for c in cases]
    outs = ctx.driver().run(lines)
    for c, line, mo in zip(cases, lines, outs):
        trace = _hist_exec(c)
        ctx.compared += 1
        ctx.count('op:hist')
        ctx.count('hist:init:%s%s%s' % (c['cls'], ':imm' if c.get('imm') else '', ':flag' if c.get('flag') else ''))
        ctx.count('hist:ts:%d' % c['ap'][6])
        ctx.count('hist:template:%s' % c.get('tag', '?'))
        ctx.case(('hist', line), nontrivial=not isinstance(trace, str))
        if isinstance(trace, str) or not mo.startswith('ok '):
            if mo != trace:
                ctx.disagree('hist', {'case': c, 'line': line[:600]}, mo[:300], str(trace)[:300])
            continue
        mt = _parse_hist(mo)
        bad = None
        if len(mt) != len(trace):
            bad = ('length', len(mt), len(trace))
        for k, ((ms, mr, mc), (st, ro, co)) in enumerate(zip(mt, trace)):
            if bad:
                break
            op = c['ops'][k]
            ctx.count('hist:op:%s' % op[0])
            if st.startswith('err:'):
                ctx.count('hist:refused:%s' % op[0])
            ms_ = ms if ms.startswith('err:') else ('res' if ms == 'res' else 'done')
            if ms_ != st:
                bad = (k, op, 'answer', ms, st)
            else:
                d = _obs_diff(mr, ro) if st == 'res' else None
                if d:
                    bad = (k, op, 'result.' + d, str(mr)[:200], str(ro)[:200])
                else:
                    d = _obs_diff(mc, co)
                    if d:
                        bad = (k, op, 'state.' + d, str(mc)[:200], str(co)[:200])
        if bad:
            ctx.disagree('hist', {'case': c, 'line': line[:600], 'step': str(bad[:3])}, str(bad[3])[:300],
                         str(bad[4])[:300] if len(bad) > 4 else '')
    if cases:
        ctx.sample({'op': 'hist', 'request': lines[0][:300], 'model': outs[0][:300]})


# --- history oracle: the statement of C13 along a history, independent of the model -------------


def _spec_coherent(P):
    """A continuous collection whose datetimes are the steps of its whole-day period, one value each."""
    return (P['ap'][2], P['ap'][5]) == (0, 23) and len(P['vals']) == len(P['moys']) and \
        P['moys'] == _full_day_steps(P['ap'])


def _spec_holes_ready(P):
    """Validated pairs under a whole-day period: on its steps, in period order, flag set."""
    if not P['validated'] or (P['ap'][2], P['ap'][5]) != (0, 23) or not P['moys'] or \
            len(P['vals']) != len(P['moys']):
        return False
    pos = {m: i for i, m in enumerate(_full_day_steps(P['ap']))}
    idx = [pos.get(m) for m in P['moys']]
    return None not in idx and all(a < b for a, b in zip(idx, idx[1:]))


def _spec_diff(cur, P, read_dt):
    """What of the public state of `cur` differs from the state the user has established."""
    try:
        o = _hist_obs(cur, read_dt)
    except Exception as e:
        return 'read raises %s: %s' % (type(e).__name__, e), None
    if o['ap'] != P['ap']:
        return 'period', o['ap']
    if len(o['vals']) != len(P['vals']) or not all(_close(a, b) for a, b in zip(P['vals'], o['vals'])):
        return 'values', o['vals'][:12]
    if o['validated'] != P['validated']:
        return 'flag', o['validated']
    if read_dt and o['moys'] != P['moys']:
        return 'datetimes', o['moys'][:12]
    if read_dt and o['dleap'] not in ([], [bool(P['ap'][7])]):
        return 'datetime_leap', o['dleap']
    return None


def _known_validate(sig):
    """Is this failure of the validation predicate one of the recorded findings?"""
    from harness import core
    s = dict(sig, op='validate_hourly')
    return any(core.matches(s, k) for k in core.load_known(PROP))


def _check_history(inp):
    """One history on one object.  After every step: (1) a derived collection satisfies the clause
    of the statement that speaks about it, for the pairs the user has established so far; (2) the
    current object shows exactly the established state – in particular an op that raised has
    changed nothing, and a derived collection has not touched its source."""
    cls, ap = inp['cls'], inp['ap']
    kind = inp.get('kind', 'point')
    native_cum, pit = _kind_flags(kind)
    t = _type_of(kind)()
    hdr = (t.units[0], {'k': 'v'}, t.name)
    P = {'cont': cls == 'cont', 'ap': list(ap), 'moys': [m for m, _ in inp['data']],
         'vals': [float(v) for _, v in inp['data']], 'validated': cls == 'cont' or bool(inp.get('flag'))}
    sig0 = {'cls': cls, 'imm': bool(inp.get('imm')), 'flag': bool(inp.get('flag'))}
    try:
        cur = _hist_build(inp)
    except Exception as e:
        return {'required': 'collection is built', 'observed': '%s: %s' % (type(e).__name__, e),
                'sig': dict(sig0, fail='build')}
    d = _spec_diff(cur, P, True)
    if d:
        return {'required': 'new collection shows the data it was given', 'observed': '%s: %s' % d,
                'sig': dict(sig0, fail='build:' + d[0])}
    prev = 'init'
    ops = inp['ops']
    kept = []
    for k, op in enumerate(ops):
        name = op[0]
        status, res = _hist_apply(cur, op)
        refused = status.startswith('err:')
        sig = dict(sig0, step=name, prev=prev, refused=refused, cont=P['cont'])
        where = 'step %d %s after %s' % (k, op if name != 'setvalues' else ['setvalues', '...'], [o[0] for o in ops[:k]])

        def fail(what, required, observed):
            return {'required': '%s: %s' % (where, required), 'observed': str(observed)[:300],
                    'sig': dict(sig, fail=what)}
        pairs = list(zip(P['moys'], P['vals']))
        coherent = _spec_coherent(P) if P['cont'] else (len(P['moys']) == len(P['vals']) and len(pairs) > 0)
        newP = None
        if name == 'validate':
            if P['cont']:
                if refused and coherent:
                    return fail('raise', 'validated copy', status)
                if not refused:
                    got = [(dt.moy, x) for dt, x in zip(res.datetimes, res.values)]
                    if got != pairs or _ap_fields(res.header.analysis_period) != P['ap']:
                        return fail('pairs', 'the same pairs under the same period', got[:12])
                    newP = dict(P)
            elif pairs:
                dup = len(set(P['moys'])) != len(P['moys'])
                if refused and not dup:
                    return fail('raise', 'validated collection', status)
                if not refused:
                    if dup:
                        return fail('dup', 'duplicate datetimes rejected', 'accepted')
                    vsig = dict(sig, header=_header_kind(P['ap']), n='one' if len(pairs) == 1 else 'many', leap_mix=False,
                                window='full' if (P['ap'][2], P['ap'][5]) == (0, 23) else 'partial')
                    f = _pred_validated(res, P['ap'][7], pairs, vsig, header=hdr)
                    if f and not _known_validate(f['sig']):
                        return fail('validate:' + f['sig'].get('fail', '?'), f['required'], f['observed'])
                    newP = {'cont': False, 'ap': _ap_fields(res.header.analysis_period),
                            'moys': [dt.moy for dt in res.datetimes], 'vals': list(res.values), 'validated': True}
        elif name in ('cull', 'convcull'):
            ts = op[1]
            if ts in VALID_TS and len(P['moys']) == len(P['vals']):
                want = [(m, x) for m, x in pairs if m % (60 // ts) == 0]
                mutable_ok = name == 'cull' or not inp_imm(cur)
                # a continuous collection may refuse an in-place cull to a timestep that does not divide its own
                # (it could not hold those steps; fixes/C13_continuous_cull_in_place_divisor.patch)
                cannot_hold = name == 'convcull' and P['cont'] and P['ap'][6] % ts != 0 and status == 'err:assert'
                if refused and want and mutable_ok and not cannot_hold:
                    return fail('raise', 'culled collection', status)
                if not refused:
                    v = res if name == 'cull' else cur
                    got = [(dt.moy, x) for dt, x in zip(v.datetimes, v.values)]
                    na = _ap_fields(v.header.analysis_period)
                    if got != want or len(v.values) != len(v.datetimes):
                        return fail('kept', 'exactly the steps on the %d-minute grid, in order' % (60 // ts), got[:12])
                    if na != P['ap'][:6] + [ts, P['ap'][7]]:
                        return fail('header', 'header timestep %d, period otherwise unchanged' % ts, na)
                    newP = {'cont': False if name == 'cull' else P['cont'], 'ap': na,
                            'moys': [m for m, _ in want], 'vals': [x for _, x in want],
                            'validated': True if name == 'cull' else P['validated']}
            elif not refused and name == 'convcull' and ts not in VALID_TS:
                return fail('accepted', 'an invalid timestep is refused', _ap_fields(cur.header.analysis_period))
            elif not refused and name == 'convcull':
                # a continuous collection whose values no longer pair up with its datetimes (in-place cull to a
                # non-dividing timestep, then new values): nothing is claimed; go on from what it shows now
                o = _hist_obs(cur, True)
                newP = {'cont': o['cont'], 'ap': o['ap'], 'moys': o['moys'], 'vals': o['vals'],
                        'validated': o['validated']}
        elif name == 'holes':
            if P['cont']:
                if not refused:
                    got = [(dt.moy, x) for dt, x in zip(res.datetimes, res.values)]
                    if got != pairs or _ap_fields(res.header.analysis_period) != P['ap']:
                        return fail('pairs', 'the same pairs under the same period', got[:12])
                    newP = dict(P)
                elif coherent:
                    return fail('raise', 'copy of the continuous collection', status)
            elif _spec_holes_ready(P):
                if refused:
                    return fail('raise', 'continuous collection', status)
                f = _pred_holes(res, P['ap'], pairs, sig)
                if f:
                    return fail('holes:' + f['sig'].get('fail', '?'), f['required'], f['observed'])
                newP = {'cont': True, 'ap': list(P['ap']), 'moys': _full_day_steps(P['ap']),
                        'vals': list(res.values), 'validated': True}
            elif not refused:
                # not a validated collection: nothing is claimed about the values
                newP = {'cont': True, 'ap': _ap_fields(res.header.analysis_period),
                        'moys': [dt.moy for dt in res.datetimes], 'vals': list(res.values), 'validated': True}
        elif name == 'interp':
            ts, cum = op[1], CUM_ARG[op[2]]
            legal = P['cont'] and coherent and ts in VALID_TS and ts % P['ap'][6] == 0 and op[2] != 'X'
            if legal:
                if refused:
                    return fail('raise', 'refined collection', status)
                as_cum = native_cum if cum is None else bool(cum)
                f = _pred_interp(res, P['ap'], ts, P['vals'], as_cum, pit, sig)
                if f:
                    return fail('interp:' + f['sig'].get('fail', '?'), f['required'], f['observed'])
                nap = P['ap'][:6] + [ts, P['ap'][7]]
                if _ap_fields(res.header.analysis_period) != nap:
                    return fail('header', 'period with timestep %d' % ts, _ap_fields(res.header.analysis_period))
                newP = {'cont': True, 'ap': nap, 'moys': _full_day_steps(nap), 'vals': list(res.values),
                        'validated': True}
            elif not refused:
                newP = {'cont': True, 'ap': _ap_fields(res.header.analysis_period),
                        'moys': [dt.moy for dt in res.datetimes], 'vals': list(res.values), 'validated': True}
        elif name == 'setvalues':
            if not refused:
                if isinstance(op[1], str) or (not P['cont'] and len(op[1]) != len(P['moys'])) or not op[1]:
                    return fail('accepted', 'values that do not fit the datetimes are refused', len(op[1]))
                P = dict(P, vals=[float(x) for x in op[1]])
            elif not inp_imm(cur) and not isinstance(op[1], str) and op[1] and \
                    len(op[1]) == (len(_full_day_steps(P['ap'])) if P['cont'] and (P['ap'][2], P['ap'][5]) == (0, 23)
                                   else len(P['moys'])):
                return fail('raise', 'values accepted', status)
        elif name == 'setitem':
            n = len(P['vals'])
            if not refused:
                if not -n <= op[1] < n:
                    return fail('accepted', 'index outside the collection is refused', op[1])
                vals = list(P['vals'])
                vals[op[1]] = float(op[2])
                P = dict(P, vals=vals)
            elif -n <= op[1] < n and not inp_imm(cur):
                return fail('raise', 'value assigned', status)
        elif name in ADOPTING:
            legal = coherent and (name != 'to_discontinuous' or P['cont'])
            if refused and legal:
                return fail('raise', 'copy of the collection', status)
            if not refused:
                newP = dict(P)
                if name == 'to_discontinuous':
                    newP['cont'], newP['validated'] = False, True
        # aliasing: a derived collection that is not adopted is edited in place at once (and must stay as it is
        # then until the end of the history); an adopted one replaces the current object, which is edited
        # after it has been left behind.  Neither edit may show in the current object.
        if not refused and status == 'res' and res is not None:
            try:
                if _adopts(op):
                    if res is not cur:
                        _poke(cur)
                else:
                    _poke(res)
                    kept.append((k, name, res, _snap(res)))
            except Exception as e:
                return fail('alias:edit', 'a derived collection can be edited', '%s: %s' % (type(e).__name__, e))
        # adoption
        if not refused and status == 'res' and _adopts(op):
            cur = res
            if newP is None:     # nothing was claimed about the result: take it as the new established state
                try:
                    o = _hist_obs(res, True)
                    newP = {'cont': o['cont'], 'ap': o['ap'], 'moys': o['moys'], 'vals': o['vals'],
                            'validated': o['validated']}
                except Exception as e:
                    return fail('read', 'derived collection can be read', '%s: %s' % (type(e).__name__, e))
            P = newP
        elif not refused and name == 'convcull' and newP is not None:
            P = newP
        read_dt = (name == 'read' and bool(op[1])) or k == len(ops) - 1
        d = _spec_diff(cur, P, read_dt)
        if not d and 'poke' in cur.header.metadata:
            d = ('metadata', 'an edit of another collection shows in the metadata: %s' % cur.header.metadata)
        if d:
            return fail('state:' + d[0],
                        'the collection shows the state established so far (%s)' % (
                            'the refused op changed nothing' if refused else 'period %s, %d values' % (P['ap'], len(P['vals']))),
                        '%s: %s' % d)
        prev = name
    for k, name, res, snap in kept:
        now = _snap(res)
        if now != snap:
            return {'required': 'the collection answered by step %d (%s) is not changed by the later steps %s' % (
                        k, name, [o[0] for o in ops[k + 1:]]),
                    'observed': str(_diff_snap(snap, now))[:300], 'sig': dict(sig0, fail='alias:later', step=name)}
    return None


def inp_imm(coll):
    try:
        return not coll.is_mutable
    except Exception:
        return False


# --- history generator -------------------------------------------------------------------------

BAD_TS = [0, 7, 8, 24, 120]


def _gen_history(ctx, count):
    """Histories on one hourly collection.  Strata (all counted): class x mutability x flag route;
    every valid timestep; leap / wrapping periods; templates `flag_then_validate` (an op that sets
    the validated flag, then validation), `slot` (datetimes read before / after an in-place cull of
    a continuous collection), `refused_first`, `twice` (the same and different questions asked of one
    object), `set_then_derive`, `random`."""
    rng = ctx.rng
    out = []
    for _ in range(count):
        cls = 'cont' if rng.random() < 0.45 else 'disc'
        ap = _gen_period(rng, full_day=(cls == 'cont' or rng.random() < 0.8), short=True)
        if cls == 'cont' or rng.random() < 0.5:
            ap[6] = rng.choice(VALID_TS if rng.random() < 0.5 else [1, 2, 3, 4, 6])
        if (ap[2], ap[5]) == (0, 23):
            if len(_full_day_steps(ap)) > 300:
                ap[3], ap[4] = ap[0], ap[1]
            if len(_full_day_steps(ap)) > 500:
                ap[6] = rng.choice([4, 6, 10, 12])
        steps = _full_day_steps(ap) if (ap[2], ap[5]) == (0, 23) else None
        flag = False
        if cls == 'cont':
            shape = 'cont'
            moys = steps
        else:
            shape = rng.choice(['sparse', 'sparse', 'holey', 'holey', 'dense']) if steps else 'sparse'
            if shape == 'sparse':
                moys = _gen_local_moys(rng, ap, rng.choice([1, 2, 3, 5, 10, 30]))
                flag = rng.random() < 0.3
            elif shape == 'holey':
                p = rng.choice([0.3, 0.6, 0.9])
                keep = [i for i in range(len(steps)) if rng.random() < p] or [rng.randrange(len(steps))]
                moys = [steps[i] for i in keep]
                flag = rng.random() < 0.5
                if rng.random() < 0.3:
                    rng.shuffle(moys)
            else:
                moys = list(steps)
                flag = rng.random() < 0.5
        half = rng.random() < 0.25
        data = [[m, (i + 1) * rng.choice([1, 1, 3]) + (0.5 if half else 0)] for i, m in enumerate(moys)]
        if rng.random() < 0.15:
            data = [[m, 0] for m, _ in data]                       # all-zero values
        kind = rng.choice(['point', 'cumulative', 'averaged', 'point_cumulative'])
        imm = rng.random() < 0.25
        c = {'cls': cls, 'imm': imm, 'ap': ap, 'flag': flag, 'kind': kind, 'data': data}
        c['ops'], c['tag'] = _gen_ops(rng, c)
        out.append(c)
    return out


def _gen_local_moys(rng, ap, n):
    """Unsorted subset of the annual grid in and closely around the header period (at most a day
    outside a non-wrapping one), so that the validated period stays small enough for hole filling."""
    leap = ap[7]
    ny = _ny(leap)
    st = (_md_to_doy(leap, ap[0], ap[1]) - 1) * 1440
    en = (_md_to_doy(leap, ap[3], ap[4]) - 1) * 1440 + 1440
    wraps = en <= st
    span = (en - st) % ny or ny
    grid = 60 // ap[6] if rng.random() < 0.6 else None
    moys = set()
    for _ in range(n):
        r = rng.random()
        if r < 0.7 or wraps:
            m = (st + rng.randrange(span)) % ny
        elif r < 0.85:
            m = max(0, st - rng.randrange(1, 1441))
        else:
            m = min(ny - 1, en + rng.randrange(0, 1440))
        if rng.random() < 0.4:
            h = rng.choice([0, 1, 23, 22, ap[2], ap[5], (ap[5] + 1) % 24, (ap[2] - 1) % 24])
            m = m // 1440 * 1440 + h * 60 + m % 60
        g = grid if grid else 60 // rng.choice([1, 2, 3, 4, 6])
        moys.add(m - m % g)
    moys = list(moys)
    rng.shuffle(moys)
    return moys


def _gen_ops(rng, c):
    cls, ap, n = c['cls'], c['ap'], len(c['data'])
    ts0 = ap[6]
    cont = cls == 'cont'
    coarser = [t for t in VALID_TS if t < ts0] or [1]
    finer = [t for t in VALID_TS if t % ts0 == 0 and t * n <= 3000] or [ts0]

    def a_ts(valid=0.85):
        if rng.random() > valid:
            return rng.choice(BAD_TS)
        r = rng.random()
        if r < 0.5:
            return rng.choice(coarser)
        if r < 0.7:
            return ts0
        return rng.choice(VALID_TS)

    def a_vals(k):
        base = rng.randrange(100, 200)
        return [base + i * rng.choice([1, 2]) for i in range(k)]

    def rand_op():
        r = rng.random()
        if r < 0.14:
            return ['read', rng.random() < 0.6]
        if r < 0.30:
            return ['validate', rng.random() < 0.5]
        if r < 0.42:
            return ['cull', a_ts(), rng.random() < 0.4]
        if r < 0.54:
            return ['convcull', a_ts()]
        if r < 0.62:
            return ['holes', rng.random() < 0.4]
        if r < 0.72:
            t = rng.choice(finer) if rng.random() < 0.75 else rng.choice([0, 7, ts0 + 1, 8 * ts0, 24])
            return ['interp', t, rng.choice(['N', 'N', '0', '1', 'X'] if rng.random() < 0.3 else ['N', '0', '1']),
                    rng.random() < 0.3]
        if r < 0.82:
            q = rng.random()
            if q < 0.55:
                return ['setvalues', a_vals(n)]
            if q < 0.7:
                return ['setvalues', a_vals(max(0, n + rng.choice([-1, 1, -n])))]
            if q < 0.8:
                return ['setvalues', 'abc']
            return ['setvalues', a_vals(rng.choice([1, 2, 24, 48]))]
        if r < 0.88:
            i = rng.choice([0, -1, n - 1, -n, n, -n - 1, rng.randrange(max(1, n))])
            return ['setitem', i, rng.randrange(500, 600)]
        return [rng.choice(['to_immutable', 'to_mutable', 'duplicate', 'to_discontinuous', 'dict'])]

    t = rng.random()
    if t < 0.18:
        tag = 'flag_then_validate'
        first = rng.choice([['cull', rng.choice(coarser + [ts0]), True], ['dict'], ['to_immutable'], ['duplicate'],
                            ['to_discontinuous'], ['convcull', rng.choice(coarser + [ts0])]])
        ops = [first, ['validate', rng.random() < 0.7], ['read', True], ['holes', False]]
    elif t < 0.34:
        tag = 'slot'
        ops = ([['read', True]] if rng.random() < 0.6 else []) + \
            [['convcull', rng.choice(coarser + [ts0] + VALID_TS)], ['read', True], rand_op(), ['read', True]]
    elif t < 0.5:
        tag = 'refused_first'
        bad = rng.choice([['convcull', rng.choice(BAD_TS)], ['cull', rng.choice(BAD_TS), True],
                          ['setvalues', a_vals(n + 1)], ['setvalues', []], ['setvalues', 'abc'],
                          ['setitem', n, 7], ['setitem', -n - 1, 7], ['interp', ts0 + 1, 'N', True],
                          ['interp', rng.choice(finer), 'X', True], ['interp', 0, 'N', True],
                          ['interp', 7 * ts0, 'N', True], ['holes', True], ['to_discontinuous'],
                          ['cull', 60 if ts0 < 60 else 7, True]])
        ops = [bad, ['read', rng.random() < 0.5], rand_op(), rand_op()]
    elif t < 0.64:
        tag = 'twice'
        q = rng.random()
        if cont and q < 0.5:
            a, b = rng.choice(finer), rng.choice(finer)
            ca, cb = rng.choice(['N', '0', '1']), rng.choice(['N', '0', '1'])
            ops = [['interp', a, ca, False], ['interp', b, cb, False], ['interp', a, ca, False]]
        elif q < 0.75:
            a, b = a_ts(1), a_ts(1)
            ops = [['cull', a, False], ['cull', b, False], ['read', True], ['cull', a, False]]
        else:
            ops = [['validate', False], ['holes', False], ['validate', False], ['validate', True], ['holes', False],
                   ['validate', False]]
    elif t < 0.78:
        tag = 'set_then_derive'
        ops = [['setvalues', a_vals(n)], rng.choice([['validate', False], ['holes', False], ['cull', a_ts(1), False],
                                                      ['interp', rng.choice(finer), 'N', False]]),
               ['setitem', rng.randrange(-n, n), 999], rng.choice([['validate', True], ['cull', a_ts(1), True],
                                                                   ['interp', rng.choice(finer), 'N', True]]),
               ['read', True]]
    else:
        tag = 'random'
        ops = []
    ops = ops + [rand_op() for _ in range(rng.randrange(1, 5) if tag != 'random' else rng.randrange(3, 9))]
    return ops[:10], tag


# --- histories of the three keyed classes (oracle only) ----------------------------------------

KEY_CLASSES = {'validate_daily': 'DailyCollection', 'validate_monthly': 'MonthlyCollection',
               'validate_mph': 'MonthlyPerHourCollection'}


def _gen_key_history(ctx, count):
    rng = ctx.rng
    out = []
    for _ in range(count):
        kind = rng.choice(['daily', 'monthly', 'mph'])
        c = _gen_keys(ctx, kind, 1)[0]
        if c['tag'] != 'ok' or (kind == 'daily' and not c['ap'][7] and any(k == 366 for k, _ in c['data'])):
            continue
        n = len(c['data'])
        ops = []
        for _ in range(rng.randrange(2, 7)):
            r = rng.random()
            if r < 0.4:
                ops.append(['validate', rng.random() < 0.6])
            elif r < 0.55:
                ops.append(['setvalues', [100 + i for i in range(n + rng.choice([0, 0, 0, 1, -1]))]])
            elif r < 0.65:
                ops.append(['setitem', rng.choice([0, -1, n, -n - 1]), 777])
            elif r < 0.75:
                ops.append(['setvalues', rng.choice(['abc', []])])
            else:
                ops.append([rng.choice(['to_immutable', 'to_mutable', 'duplicate', 'dict'])])
        ops.append(['validate', False])
        out.append({'op': {'daily': 'validate_daily', 'monthly': 'validate_monthly', 'mph': 'validate_mph'}[kind],
                    'ap': c['ap'], 'data': c['data'], 'flag': rng.random() < 0.4, 'imm': rng.random() < 0.25,
                    'ops': ops})
    return out


def _check_key_history(inp):
    """History on a Daily / Monthly / MonthlyPerHour collection: validation must hold for the
    (key, value) pairs established so far, wherever the validated flag came from; a refused
    assignment changes nothing."""
    import ladybug.datacollection as dc
    op = inp['op']
    cls = getattr(dc, KEY_CLASSES[op])
    keys = [tuple(k) if isinstance(k, list) else k for k, _ in inp['data']]
    vals = [float(v) for _, v in inp['data']]
    sig0 = {'class': KEY_CLASSES[op], 'flag': bool(inp.get('flag')), 'imm': bool(inp.get('imm'))}
    try:
        cur = cls(_header(inp['ap']), vals, keys)
        if inp.get('flag'):
            d = cur.to_dict()
            d['validated_a_period'] = True
            cur = cls.from_dict(d)
        if inp.get('imm'):
            cur = cur.to_immutable()
    except Exception as e:
        return {'required': 'collection is built', 'observed': '%s: %s' % (type(e).__name__, e),
                'sig': dict(sig0, fail='build')}
    P = {'ap': _ap_fields(cur.header.analysis_period), 'keys': list(keys), 'vals': list(vals)}
    prev = 'init'
    for k, o in enumerate(inp['ops']):
        name = o[0]
        sig = dict(sig0, step=name, prev=prev)
        where = 'step %d %s after %s' % (k, name, [x[0] for x in inp['ops'][:k]])
        res = None
        try:
            if name == 'validate':
                res = cur.validate_analysis_period()
            elif name == 'setvalues':
                cur.values = o[1] if isinstance(o[1], str) else [float(x) for x in o[1]]
            elif name == 'setitem':
                cur[o[1]] = float(o[2])
            elif name == 'dict':
                res = type(cur).from_dict(cur.to_dict())
            else:
                res = getattr(cur, name)()
            refused = False
        except Exception as e:
            refused, err = True, '%s: %s' % (type(e).__name__, e)
        n = len(P['keys'])
        if name == 'validate':
            ksig = dict(sig, header=_header_kind(P['ap']), n='one' if n == 1 else 'many', same_month=P['ap'][0] == P['ap'][3],
                        window='full' if (P['ap'][2], P['ap'][5]) == (0, 23) else 'partial')
            f = _pred_validated_keys(op, res, list(zip(P['keys'], P['vals'])), ksig) if not refused else \
                (None if len(set(P['keys'])) != n else
                 {'required': 'validated collection', 'observed': err, 'sig': dict(sig, fail='raise')})
            if f:
                s = dict(f['sig'], op=op)
                from harness import core
                if not any(core.matches(s, kf) for kf in core.load_known(PROP)):
                    return {'required': '%s: %s' % (where, f['required']), 'observed': f['observed'],
                            'sig': dict(sig, fail='validate:' + str(f['sig'].get('fail')))}
            if not refused and o[1]:
                cur = res
                P = {'ap': _ap_fields(res.header.analysis_period), 'keys': list(res.datetimes), 'vals': list(res.values)}
        elif name == 'setvalues' and not refused:
            if isinstance(o[1], str) or len(o[1]) != n:
                return {'required': where + ': values that do not fit the keys are refused', 'observed': 'accepted',
                        'sig': dict(sig, fail='accepted')}
            P = dict(P, vals=[float(x) for x in o[1]])
        elif name == 'setitem' and not refused:
            v = list(P['vals'])
            v[o[1]] = float(o[2])
            P = dict(P, vals=v)
        elif not refused and res is not None:
            cur = res
        got = (_ap_fields(cur.header.analysis_period), list(cur.datetimes), list(cur.values))
        if got != (P['ap'], P['keys'], P['vals']):
            return {'required': '%s: the collection shows the state established so far%s' % (
                        where, ' (the refused op changed nothing)' if refused else ''),
                    'observed': str(got)[:300], 'sig': dict(sig, fail='state', refused=refused)}
        prev = name
    return None


# --- process-order independence: slices of the oracle stream in fresh interpreters --------------


def _order_worker_main():
    """Entry point of a fresh interpreter: evaluates the cases read from stdin in the given order
    and prints the failures (index, op, result) as JSON."""
    import json
    import sys
    from harness import core
    sys.path.insert(0, core.REPO)
    cases = json.load(sys.stdin)['cases']
    fails = []
    with contextlib.redirect_stdout(io.StringIO()):
        for i, (op, inp) in enumerate(cases):
            try:
                res = check_case(op, inp)
            except Exception as e:
                res = {'required': 'oracle evaluates', 'observed': 'exception %s: %s' % (type(e).__name__, e),
                       'sig': {'exception': type(e).__name__}}
            if res:
                fails.append([i, op, res])
    sys.stdout.write(json.dumps(fails, default=str))


def _order_spawn(cases):
    import json
    import os
    import subprocess
    import sys
    from harness import core
    env = dict(os.environ, LADYBUG_REPO=core.REPO, PYTHONPATH=core.ROOT + os.pathsep + os.environ.get('PYTHONPATH', ''))
    p = subprocess.Popen([sys.executable, '-c', 'import harness.props.c13 as m; m._order_worker_main()'],
                         stdin=subprocess.PIPE, stdout=subprocess.PIPE, stderr=subprocess.PIPE, cwd=core.ROOT, env=env)
    p.stdin.write(json.dumps({'cases': cases}, default=str).encode())
    p.stdin.close()
    return p


def _order_collect(p):
    import json
    out = p.stdout.read()
    err = p.stderr.read()
    p.wait()
    if p.returncode != 0:
        return [[-1, 'worker', {'required': 'worker process finishes', 'observed': err.decode()[-400:],
                                'sig': {'fail': 'worker'}}]]
    return json.loads(out.decode() or '[]')


def _order_unknown(fails):
    """Failures of a worker that are not recorded findings."""
    from harness import core
    known = core.load_known(PROP)
    return [f for f in fails if not any(core.matches(dict(f[2].get('sig') or {}, op=f[1]), k) for k in known)]


def _order_run(cases):
    return _order_unknown(_order_collect(_order_spawn(cases)))


def _check_order(inp):
    """Replay of an order-dependent failure: the listed cases are evaluated in this order in ONE fresh
    interpreter; the last one must pass (as it does when it is evaluated first)."""
    fails = _order_run(inp['order'])
    if not fails:
        return None
    i, op, res = fails[-1]
    return {'required': 'case %d (%s) passes after the %d cases before it as it does in a fresh process: %s' % (
                i, op, i, res.get('required')),
            'observed': res.get('observed'), 'sig': dict(res.get('sig') or {}, order=True, inner_op=op)}


def _rarity(case):
    """Sort key that puts the rare classes first: leap, wrapping, sub-hourly, refused first step."""
    op, inp = case
    ap = inp.get('ap') or [1, 1, 0, 12, 31, 23, 1, False]
    wrap = (ap[3], ap[4]) < (ap[0], ap[1])
    first_bad = bool(inp.get('ops')) and inp['ops'][0][0] in ('convcull', 'setvalues', 'setitem', 'interp')
    return (not ap[7], not wrap, ap[6] == 1, not first_bad)


def _order_pool(ctx):
    """The slice of the oracle stream that is run in fresh interpreters: the whole fixed corpus and
    a few generated cases of every op, histories included."""
    k = 25 if (ctx.quick and not ctx.searching) else 120
    pool = [(op, c) for op, c in _corpus()]
    pool += [('validate_hourly', dict(_opt(c), ap=c['ap'], dl=c['dl'], data=c['data']))
             for c in _gen_validate_hourly(ctx, 2 * k) if c['tag'] in ('ok', 'duplicate')]
    for kind, op in (('daily', 'validate_daily'), ('monthly', 'validate_monthly'), ('mph', 'validate_mph')):
        pool += [(op, dict(_opt(c), ap=c['ap'], data=c['data'])) for c in _gen_keys(ctx, kind, k)
                 if c['tag'] in ('ok', 'duplicate') and not (kind == 'daily' and not c['ap'][7] and
                                                             any(x == 366 for x, _ in c['data']))]
    pool += [('holes', dict(_opt(c), ap=c['ap'], data=c['data'], via='flag')) for c in _gen_holes(ctx, k)
             if c['tag'] not in ('not_validated', 'window')]
    pool += [('interp', dict(_opt(c), ap=c['ap'], ts=c['ts'], kind=c['kind'], cum=c['cum'], vals=c['vals']))
             for c in _gen_interp(ctx, k) if c['tag'] == 'ok']
    pool += [('cull', dict(_opt(c), ap=c['ap'], dl=c['dl'], data=c['data'], ts=c['ts'], flavour=c['flavour']))
             for c in _gen_cull(ctx, k) if c['tag'] == 'ok']
    pool += [('timeagg', c) for c in _gen_timeagg(ctx, k)]
    pool += [('history', c) for c in _gen_history(ctx, 3 * k)]
    pool += [('key_history', c) for c in _gen_key_history(ctx, k)]
    return pool


def _order_stage(ctx, pool):
    """Run the pool of (op, input) cases in 2 (quick) / 4 (thorough) fresh interpreters, each in a
    different order; every case that fails there and is not a recorded finding is reported: as a
    plain failure when it also fails alone in a fresh interpreter, else with the order that makes
    it fail (shortened by bisection)."""
    rng = ctx.rng
    orders = []
    a = sorted(range(len(pool)), key=lambda i: _rarity(pool[i]))
    orders.append(('rare_first', a))
    b = list(range(len(pool)))
    rng.shuffle(b)
    orders.append(('shuffled', b))
    if not ctx.quick or ctx.searching:
        orders.append(('rare_last', a[::-1]))
        c = list(range(len(pool)))
        rng.shuffle(c)
        orders.append(('shuffled2', c))
    procs = [(name, idx, _order_spawn([pool[i] for i in idx])) for name, idx in orders]
    reported = set()
    for name, idx, p in procs:
        fails = _order_unknown(_order_collect(p))
        ctx.count('order_cases:' + name, len(idx))
        ctx.count('order_run:' + name)
        for pos, op, res in fails[:3]:
            if pos < 0:
                ctx.fail('order', {'order': []}, res.get('required'), res.get('observed'), res.get('sig'))
                continue
            case = pool[idx[pos]]
            key = idx[pos]
            if key in reported:
                continue
            reported.add(key)
            alone = _order_run([case])
            if alone:
                r = alone[0][2]
                ctx.fail(case[0], case[1], r.get('required'), r.get('observed'), r.get('sig'))
                continue
            prefix = [pool[i] for i in idx[:pos]]
            lo, hi = 0, len(prefix)              # smallest prefix length that still makes the case fail
            while lo < hi:
                mid = (lo + hi) // 2
                if _order_run(prefix[:mid] + [case]):
                    hi = mid
                else:
                    lo = mid + 1
            short = prefix[:lo]
            if short and _order_run([short[-1], case]):
                short = [short[-1]]
            order = short + [case]
            r = _check_order({'order': order}) or {'required': res.get('required'), 'observed': res.get('observed'),
                                                   'sig': dict(res.get('sig') or {}, order=True, inner_op=op)}
            ctx.fail('order', {'order': order, 'run': name}, r.get('required'), r.get('observed'), r.get('sig'))


# ---------------------------------------------------------------------------------------------
# time aggregation / rate of change (anchored mechanism `_time_aggregated_collection`,
# `_time_rate_of_change_collection`): oracle from the physics of the units, not from the data types' tables

# rate type: (base unit, aggregated type, its base unit, aggregated amount per HOUR of one base unit of rate)
AGG_FAMILIES = {
    'Power': ('W', 'Energy', 'kWh', Fraction(1, 1000)),
    'EnergyFlux': ('W/m2', 'EnergyIntensity', 'kWh/m2', Fraction(1, 1000)),
    'Speed': ('m/s', 'Distance', 'm', Fraction(3600)),
    'MassFlowRate': ('kg/s', 'Mass', 'kg', Fraction(3600)),
    'TemperatureDelta': ('dC', 'TemperatureTime', 'degC-days', Fraction(1, 24)),
}


def _gen_timeagg(ctx, count):
    rng = ctx.rng
    out = []
    for _ in range(count):
        fam = rng.choice(sorted(AGG_FAMILIES))
        cls = rng.choice(['cont', 'cont', 'disc', 'daily'])
        leap = rng.random() < 0.3
        if cls == 'daily':
            ap = [1, 1, 0, 12, 31, 23, 1, leap]
            keys = sorted(rng.sample(range(1, 367 if leap else 366), rng.choice([1, 3, 10])))
        else:
            ts = rng.choice(VALID_TS)
            ap = _gen_period(rng, full_day=True, short=True)
            ap[6], ap[3], ap[4] = ts, ap[0], ap[1]
            steps = _full_day_steps(ap)
            keys = steps if cls == 'cont' else sorted(rng.sample(steps, rng.choice([1, 2, 7])))
        scale = rng.choice([1, 1, 1, 1e-12, 1e16, 0.5])
        vals = [rng.randrange(-50, 5000) * scale for _ in keys]
        if rng.random() < 0.1:
            vals = [0 for _ in keys]
        out.append(_pick_shapes(rng, {'family': fam, 'cls': cls, 'ap': ap, 'keys': keys, 'vals': vals}))
    return out


def _check_timeagg(inp):
    """to_time_aggregated() multiplies a rate by the length of one step of the collection (1 / timestep
    hours; a day for daily collections) in the units of the aggregated type; to_time_rate_of_change() is
    its inverse; period, datetimes and the source are left alone; the immutable twin answers the same."""
    fam, cls, ap, keys, vals = inp['family'], inp['cls'], inp['ap'], inp['keys'], inp['vals']
    unit, agg_name, agg_unit, per_hour = AGG_FAMILIES[fam]
    hours = Fraction(24) if cls == 'daily' else Fraction(1, ap[6])
    k = per_hour * hours
    sig = {'family': fam, 'cls': cls, 'imm': bool(inp.get('imm')), 'ts': ap[6]}

    def build(c, kind, values):
        hdr = _header(ap, kind, c.get('apshape', 'ctor'))
        vs = _as_shape(values, c.get('vshape', 'list'))
        if cls == 'cont':
            return _hourly_cls(True, c.get('imm'))(hdr, vs)
        if cls == 'disc':
            return _hourly_cls(False, c.get('imm'))(hdr, vs, _as_shape([_mk_dt(ap[7], m) for m in keys], c.get('dshape', 'list')))
        return _key_cls('DailyCollection', c.get('imm'))(hdr, vs, _as_shape(keys, c.get('dshape', 'list')))

    def near(got, want):
        want = [float(w) for w in want]
        tol = 1e-9 * max([abs(w) for w in want] or [0.0])
        return len(got) == len(want) and all(abs(g - w) <= tol for g, w in zip(got, want))

    def shown(c):
        return _snap(c)[:2]
    try:
        src = build(inp, fam, vals)
        before = _snap(build(inp, fam, vals))
        agg = src.to_time_aggregated()
        back = agg.to_time_rate_of_change()
        direct = build(inp, agg_name, vals).to_time_rate_of_change()
    except Exception as e:
        return {'required': 'aggregated collection and its rate of change', 'observed': '%s: %s' % (type(e).__name__, e),
                'sig': dict(sig, fail='raise')}
    if not near(list(agg.values), [Fraction(v) * k for v in vals]):
        return {'required': 'values times %s (%s per hour and %s, steps of %s h)' % (float(k), float(per_hour), unit, float(hours)),
                'observed': str(list(agg.values)[:6]), 'sig': dict(sig, fail='agg_values')}
    if agg.header.unit != agg_unit or agg.header.data_type.name.replace(' ', '') != agg_name:
        return {'required': '%s in %s' % (agg_name, agg_unit), 'observed': '%s in %s' % (agg.header.data_type.name, agg.header.unit),
                'sig': dict(sig, fail='agg_header')}
    if not near(list(back.values), vals) or back.header.unit != unit:
        return {'required': 'the rate of change of the aggregated data is the data (%s)' % unit,
                'observed': '%s %s' % (str(list(back.values)[:6]), back.header.unit), 'sig': dict(sig, fail='round_trip')}
    if not near(list(direct.values), [Fraction(v) / k for v in vals]) or direct.header.unit != unit:
        return {'required': 'values divided by %s, in %s' % (float(k), unit),
                'observed': '%s %s' % (str(list(direct.values)[:6]), direct.header.unit), 'sig': dict(sig, fail='rate_values')}
    for name, c in (('aggregated', agg), ('rate of change', back)):
        if shown(c) != (before[0], before[1]) or c.is_mutable != src.is_mutable:
            return {'required': 'the %s collection keeps period, datetimes and mutability' % name, 'observed': str(shown(c))[:200],
                    'sig': dict(sig, fail='kept')}
    if inp.get('twin'):
        try:
            d = _same_answer(agg, build(_twin_of(inp), fam, vals).to_time_aggregated())
        except Exception as e:
            d = '%s: %s' % (type(e).__name__, e)
        if d:
            return {'required': 'the mutable and the immutable collection aggregate to the same values',
                    'observed': str(d)[:300], 'sig': dict(sig, fail='twin')}
    a = _alias_probe(src, agg, before)
    if a:
        return {'required': 'the aggregated collection and its source share no state (%s)' % a[0],
                'observed': a[1][:300], 'sig': dict(sig, fail='alias', alias=a[0])}
    return None


# ---------------------------------------------------------------------------------------------
# branches of the anchored functions, decided from the INPUT (plain numbers), counted as strata
#
#   validate_analysis_period (hourly / daily / monthly / monthly-per-hour; names vh vd vm vp):
#     header annual | fwd | rev;  fwd: start_extended, end_extended, fits;  rev: rotated | not_rotated,
#     gap_made_annual, same_month_made_annual (vm vp);  st_hour_lowered, end_hour_raised (vh vp, non-annual
#     header with a partial window);  duplicate (assert);  timestep_repaired | timestep_kept (vh vp);
#     single;  keys2 (vp: (month, hour) keys without minute);  leap_repair (vh vd) is outside the quantifier
#     (header with the wrong leap flag) and reached by the correspondence only
#   interpolate_holes: lead_hole | starts_at_period_start; interior_hole; hole_through_year_end; trailing_hole;
#     no_hole; single_source; continuous override (copy);  not validated -> refused (correspondence + history)
#   interpolate_to_timestep: divide | no_divide (cum argument True / False / default x native flag);
#     shift | no_shift (point-in-time);  n_sub_1, n_sub_odd (int(n/2) truncates), n_sub_even;  refused: not a
#     multiple, non-bool cumulative (history)
#   cull_to_timestep / convert_to_culled_timestep / _timestep_cull: continuous | discontinuous source;
#     divisor | non_divisor | finer target; nothing_kept (refused by the constructor / empty in place);
#     invalid timestep refused (correspondence + history); immutable in place refused
#   _time_aggregated_collection / _time_rate_of_change_collection: hourly | daily step; the `time_class is None`
#     / ValueError branches (types without aggregate) are NOT reached (no statement about them)
#   Unreachable through the public API: `_xxrange` with step_count 0 other than through
#     interpolate_to_timestep(0) (ZeroDivisionError, history op); holesGo index error (validated data always
#     lie on the period's grid)


def _rot_first(keys, inside_end):
    """First key after the rotation of the wrapping branch: sorted keys rotated after the last one
    that satisfies `inside_end`."""
    ks = sorted(keys)
    last = None
    for i, k in enumerate(ks):
        if inside_end(k):
            last = i
    if last is None:
        return ks[0], False
    ks = ks[last + 1:] + ks[:last + 1]
    return ks[0], True


def _branches(op, inp):
    try:
        return _branches_of(op, inp)
    except Exception:
        return ['classifier_error:' + op]


def _branches_of(op, inp):
    out = []
    ap = inp.get('ap')
    if op in ('validate_hourly', 'validate_daily', 'validate_monthly', 'validate_mph'):
        n = {'validate_hourly': 'vh', 'validate_daily': 'vd', 'validate_monthly': 'vm', 'validate_mph': 'vp'}[op]
        leap = ap[7]
        wraps = (ap[3], ap[4], ap[5]) < (ap[0], ap[1], ap[2])
        annual = (ap[0], ap[1], ap[3], ap[4]) == (1, 1, 12, 31) and (ap[2], ap[5]) == (0, 23)
        kind = 'rev' if wraps else ('annual' if annual else 'fwd')
        out.append('%s:header_%s' % (n, kind))
        ks = [tuple(k) if isinstance(k, list) else k for k, _ in inp['data']]
        if len(ks) == 1:
            out.append(n + ':single')
        if len(set(ks)) != len(ks):
            out.append(n + ':duplicate')
        sdoy, edoy = _md_to_doy(leap, ap[0], ap[1]), _md_to_doy(leap, ap[3], ap[4])
        if op == 'validate_hourly':
            pos = [m // 1440 + 1 for m in ks]
            lo, hi, st, en = min(pos), max(pos), sdoy, edoy
            end_moy = (edoy - 1) * 1440 + ap[5] * 60
            first, rot = _rot_first(ks, lambda m: m < end_moy + 60)
            first = first // 1440 + 1
            hours = [m // 60 % 24 for m in ks]
            off_grid = any(m % (60 // ap[6]) for m in ks)
        elif op == 'validate_daily':
            lo, hi, st, en = min(ks), max(ks), sdoy, edoy
            first, rot = _rot_first(ks, lambda d: d <= edoy)
            hours, off_grid = None, None
        else:
            mos = [k if op == 'validate_monthly' else k[0] for k in ks]
            lo, hi, st, en = min(mos), max(mos), ap[0], ap[3]
            if op == 'validate_monthly':
                first, rot = _rot_first(ks, lambda m: m <= ap[3])
                hours, off_grid = None, None
            else:
                f, rot = _rot_first(ks, lambda k: k[0] <= ap[3] and k[1] <= ap[5])
                first = f[0]
                hours = [k[1] for k in ks]
                off_grid = any((k[2] if len(k) > 2 else 0) % (60 // ap[6]) for k in ks)
                if any(len(k) == 2 for k in ks):
                    out.append('vp:keys2')
        if kind == 'fwd':
            if lo < st:
                out.append(n + ':fwd_start_extended')
            if hi > en:
                out.append(n + ':fwd_end_extended')
            if lo >= st and hi <= en:
                out.append(n + ':fwd_fits')
        elif kind == 'rev':
            out.append(n + (':rev_rotated' if rot else ':rev_not_rotated'))
            if en < first < st:
                out.append(n + ':rev_gap_made_annual')
            if op in ('validate_monthly', 'validate_mph') and ap[0] == ap[3]:
                out.append(n + ':rev_same_month_made_annual')
        if hours is not None:
            if kind != 'annual' and ap[2] != 0 and min(hours) < ap[2]:
                out.append(n + ':st_hour_lowered')
            if kind != 'annual' and ap[5] != 23 and max(hours) > ap[5]:
                out.append(n + ':end_hour_raised')
            out.append(n + (':timestep_repaired' if off_grid else ':timestep_kept'))
    elif op == 'holes':
        steps = _full_day_steps(ap)
        pos = {m: i for i, m in enumerate(steps)}
        idx = sorted(pos[m] for m, _ in inp['data'])
        out.append('holes:lead_hole' if idx[0] > 0 else 'holes:starts_at_period_start')
        if idx[-1] < len(steps) - 1:
            out.append('holes:trailing_hole')
        gaps = [(a, b) for a, b in zip(idx, idx[1:]) if b > a + 1]
        if gaps:
            out.append('holes:interior_hole')
            if any(steps[b] < steps[a] for a, b in gaps):
                out.append('holes:hole_through_year_end')
        if idx == list(range(len(steps))):
            out.append('holes:no_hole')
        if len(idx) == 1:
            out.append('holes:single_source')
        out.append('holes:via_' + inp.get('via', 'flag'))
        out.append('holes:ts_%d' % ap[6])
        if ap[7]:
            out.append('holes:leap')
    elif op == 'interp':
        native_cum, pit = _kind_flags(inp['kind'])
        cum = inp.get('cum')
        out.append('interp:divide' if (cum or (cum is None and native_cum)) else 'interp:no_divide')
        out.append('interp:cum_arg_%s' % ('default' if cum is None else cum))
        out.append('interp:no_shift' if pit else 'interp:shift')
        r = inp['ts'] // ap[6]
        out.append('interp:n_sub_1' if r == 1 else ('interp:n_sub_odd' if r % 2 else 'interp:n_sub_even'))
        out.append('interp:source_ts_%d' % ap[6])
    elif op == 'cull':
        ts = inp['ts']
        out.append('cull:continuous' if inp.get('flavour') == 'cont' else 'cull:discontinuous')
        out.append('cull:divisor' if ap[6] % ts == 0 else ('cull:finer_target' if ts > ap[6] else 'cull:non_divisor'))
        if not any(m % (60 // ts) == 0 for m, _ in inp['data']):
            out.append('cull:nothing_kept')
    elif op == 'timeagg':
        out.append('timeagg:%s' % inp['cls'])
        out.append('timeagg:family_%s' % inp['family'])
    return out


def check_case(op, inp):
    if op == 'timeagg':
        return _check_timeagg(inp)
    if op == 'validate_hourly':
        return _check_validate_hourly(inp)
    if op in ('validate_daily', 'validate_monthly', 'validate_mph'):
        return _check_validate_keys(op, inp)
    if op == 'holes':
        return _check_holes(inp)
    if op == 'interp':
        return _check_interp(inp)
    if op == 'cull':
        return _check_cull(inp)
    if op == 'history':
        return _check_history(inp)
    if op == 'key_history':
        return _check_key_history(inp)
    if op == 'order':
        return _check_order(inp)
    raise ValueError('unknown op ' + op)


replay = check_case


def _corpus():
    """Fixed corpus: the inputs of the repaired defects and of the recorded findings."""
    return [
        # single value (repaired: fixes/C13_single_value_validation.patch)
        ('validate_hourly', {'ap': [1, 1, 0, 12, 31, 23, 1, False], 'dl': False, 'data': [[246240, 1]], 'tag': 'ok'}),
        ('validate_hourly', {'ap': [6, 21, 6, 6, 21, 18, 1, False], 'dl': False, 'data': [[246240 + 1380, 1]], 'tag': 'ok'}),
        ('validate_daily', {'ap': [1, 1, 0, 12, 31, 23, 1, False], 'data': [[5, 1]]}),
        ('validate_monthly', {'ap': [1, 1, 0, 12, 31, 23, 1, False], 'data': [[3, 1]]}),
        ('validate_mph', {'ap': [1, 1, 0, 12, 31, 23, 1, False], 'data': [[[3, 4, 0], 1]]}),
        # mixed minute offsets :20 and :30 (repaired: validate_timestep_all_datetimes)
        ('validate_hourly', {'ap': [6, 21, 0, 6, 21, 23, 1, False], 'dl': False,
                             'data': [[246240 + 20, 1], [246240 + 90, 2]], 'tag': 'ok'}),
        # wrapping header, sub-hourly data in the last hour (repaired: validate_reversed_subhourly_tail)
        ('validate_hourly', {'ap': [12, 30, 0, 1, 2, 23, 2, False], 'dl': False,
                             'data': [[2 * 1440 - 30, 1], [363 * 1440, 2], [60, 3]], 'tag': 'ok'}),
        # header with the wrong leap flag (round 6): leap steps (29 Feb among them / not) under a common-year header
        # that ends before the last step / starts after the first; common-year steps under a leap header
        ('validate_hourly', {'ap': [6, 21, 0, 6, 21, 23, 1, False], 'dl': True,
                             'data': [[_LM(7, 4, 12), 4], [_LM(2, 29, 12), 1], [_LM(6, 21, 12), 2], [_LM(6, 25, 9), 3]]}),
        ('validate_hourly', {'ap': [6, 21, 0, 6, 23, 23, 1, False], 'dl': True, 'imm': True, 'twin': True,
                             'data': [[_LM(9, 4, 12), 3], [_LM(6, 22, 0), 2], [_LM(1, 2, 3), 1]]}),
        ('validate_hourly', {'ap': [6, 21, 0, 6, 23, 23, 2, True], 'dl': False, 'dshape': 'gen',
                             'data': [[_CM(6, 22, 12) + 30, 2], [_CM(4, 30, 23), 1], [_CM(12, 31, 23), 3]]}),
        ('validate_hourly', {'ap': [1, 1, 0, 12, 31, 23, 1, False], 'dl': True,
                             'data': [[_LM(12, 31, 23), 2], [_LM(2, 29, 0), 1]]}),
        ('validate_hourly', {'ap': [12, 30, 0, 1, 2, 23, 1, False], 'dl': True, 'vshape': 'tuple',
                             'data': [[_LM(1, 2, 23), 2], [_LM(12, 31, 0), 1], [_LM(1, 1, 5), 3]]}),
        ('validate_hourly', {'ap': [6, 21, 0, 6, 19, 23, 1, True], 'dl': False,
                             'data': [[_CM(6, 19, 23), 3], [_CM(6, 21, 0), 1], [_CM(2, 28, 7), 2]]}),
        ('validate_hourly', {'ap': [11, 5, 0, 2, 10, 23, 1, False], 'dl': True,
                             'data': [[_LM(6, 1, 0), 3], [_LM(2, 29, 0), 1], [_LM(12, 1, 7), 2]]}),
        # day 366 under a header that is not flagged leap: widened on both sides / kept; the recorded finding
        # C13-daily-leap-mix-day-of-year (day 177 = 25 Jun of the leap year, header start 6/26 = day 177 of a common year)
        ('validate_daily', {'ap': [6, 26, 0, 9, 1, 23, 1, False], 'data': [[366, 3], [100, 1], [200, 2]]}),
        ('validate_daily', {'ap': [1, 10, 0, 2, 20, 23, 1, False], 'data': [[366, 3], [12, 1], [51, 2]], 'imm': True, 'twin': True}),
        ('validate_daily', {'ap': [6, 26, 1, 6, 26, 22, 1, False], 'data': [[177, 1], [366, 2]]}),
        # recorded finding C13-holes-leap-mix: leap steps (no 29 Feb) validated under a common-year header keep their flag;
        # hole filling then compares them with the steps of the period through DateTime equality (hidden year)
        ('holes', {'ap': [6, 21, 0, 6, 21, 23, 1, False], 'dl': True, 'via': 'validate',
                   'data': [[_CM(6, 21, 0), 1], [_CM(6, 21, 1), 2], [_CM(6, 21, 4), 5], [_CM(6, 21, 23), 7]]}),
        # recorded finding C13-hourly-leap-mix-day-of-year: 29 Feb (day 60 of a leap year) under a common-year header
        # that starts on 1 Mar (day 60 of a common year) does not move the start
        ('validate_hourly', {'ap': [3, 1, 0, 3, 31, 23, 1, False], 'dl': True,
                             'data': [[_LM(3, 15, 12), 2], [_LM(2, 29, 22), 1]]}),
        # recorded findings
        ('validate_hourly', {'ap': [6, 21, 0, 6, 21, 12, 4, False], 'dl': False,
                             'data': [[246840, 1], [247425, 2]], 'tag': 'ok'}),
        ('validate_hourly', {'ap': [12, 30, 0, 1, 2, 12, 1, False], 'dl': False,
                             'data': [[2340, 1], [217440, 2]], 'tag': 'ok'}),
        # sub-hourly keys: header timestep kept / repaired (repaired: monthly_keeps_timestep_leap, mph_fits_timestep)
        ('validate_mph', {'ap': [1, 1, 0, 12, 31, 23, 2, False], 'data': [[[3, 4, 30], 1], [[3, 4, 0], 2]]}),
        ('validate_mph', {'ap': [1, 1, 0, 12, 31, 23, 1, True], 'data': [[[3, 4, 20], 1], [[3, 4, 30], 2]]}),
        ('validate_mph', {'ap': [1, 1, 0, 6, 30, 12, 2, False], 'data': [[[3, 12, 30], 1], [[3, 4, 0], 2]]}),
        # wrapping header inside one month (repaired: monthly_wrapping_same_month)
        ('validate_monthly', {'ap': [1, 15, 0, 1, 14, 23, 1, False], 'data': [[1, 1], [2, 2], [7, 3], [10, 4], [11, 5]]}),
        ('validate_mph', {'ap': [7, 31, 0, 7, 30, 23, 1, False], 'data': [[[4, 23, 0], 1]]}),
        ('validate_mph', {'ap': [12, 30, 9, 1, 2, 9, 1, True], 'data': [[[5, 9, 0], 1], [[1, 23, 0], 2]]}),
        # a repeated (month, hour, minute) key separated by another minute (repaired: mph_sort_full_key)
        ('validate_mph', {'ap': [1, 1, 0, 12, 31, 23, 4, False],
                          'data': [[[5, 9, 0], 1], [[5, 9, 45], 2], [[5, 9, 0], 3]]}),
        # holes: data from the period start with an interior hole (repaired: interpolate_holes_first_hole)
        ('holes', {'ap': [1, 1, 0, 1, 1, 23, 1, False], 'validated': True, 'tag': 'interior',
                   'data': [[0, 0], [60, 10], [240, 40], [300, 50], [1380, 230]]}),
        # holes through the year end (repaired: interpolate_holes_year_wrap)
        ('holes', {'ap': [12, 31, 0, 1, 1, 23, 1, False], 'validated': True, 'tag': 'interior',
                   'data': [[364 * 1440 + 600, 10], [120, 40]]}),
        ('holes', {'ap': [12, 31, 0, 1, 1, 23, 1, False], 'validated': True, 'tag': 'leading',
                   'data': [[120, 40], [180, 50]]}),
        # culling a continuous / dense source to a timestep that does not divide the current one
        ('cull', {'ap': [7, 14, 0, 7, 14, 23, 6, False], 'dl': False, 'ts': 4, 'flavour': 'cont',
                  'data': [[(194 * 1440) + 10 * k, k + 1] for k in range(144)]}),
        ('cull', {'ap': [7, 14, 0, 7, 14, 23, 12, False], 'dl': False, 'ts': 5, 'flavour': 'cont',
                  'data': [[(194 * 1440) + 5 * k, k + 1] for k in range(288)]}),
        ('cull', {'ap': [7, 14, 0, 7, 14, 23, 3, False], 'dl': False, 'ts': 2, 'flavour': 'dense',
                  'data': [[(194 * 1440) + 20 * k, k + 1] for k in range(72)]}),
        # refinement of a sub-hourly source (repaired: interpolate_to_timestep_ratio)
        ('interp', {'ap': [1, 1, 0, 1, 1, 23, 2, False], 'ts': 4, 'kind': 'cumulative', 'cum': None,
                    'vals': [60 * k for k in range(48)], 'tag': 'ok'}),
        # every cumulative data type with the default cumulative=None, incl. those that are also point-in-time
        ('interp', {'ap': [6, 21, 0, 6, 21, 23, 1, False], 'ts': 4, 'kind': 'LiquidPrecipitationDepth', 'cum': None,
                    'vals': [60 * (k % 5) for k in range(24)], 'tag': 'ok'}),
        ('interp', {'ap': [6, 21, 0, 6, 21, 23, 2, False], 'ts': 6, 'kind': 'Volume', 'cum': None,
                    'vals': [36 * (k % 7) for k in range(48)], 'tag': 'ok'}),
        ('interp', {'ap': [6, 21, 0, 6, 21, 23, 1, False], 'ts': 2, 'kind': 'Mass', 'cum': None,
                    'vals': [10 * (k % 3) for k in range(24)], 'tag': 'ok'}),
        ('interp', {'ap': [6, 21, 0, 6, 21, 23, 1, False], 'ts': 2, 'kind': 'Temperature', 'cum': True,
                    'vals': [10 * (k % 3) for k in range(24)], 'tag': 'ok'}),
        ('interp', {'ap': [6, 21, 0, 6, 21, 23, 1, False], 'ts': 2, 'kind': 'Energy', 'cum': False,
                    'vals': [10 * (k % 3) for k in range(24)], 'tag': 'ok'}),
        ('interp', {'ap': [1, 1, 0, 1, 1, 23, 1, False], 'ts': 3, 'kind': 'averaged', 'cum': None,
                    'vals': [3600 * (k % 7) for k in range(24)], 'tag': 'ok'}),
    ] + _corpus_round4() + _corpus_histories()


def _corpus_round4():
    """Round 4: one fixed input per rarely taken branch, per sibling class and per container shape."""
    d = 171 * 1440                                    # 21 June 00:00
    day = [6, 21, 0, 6, 21, 23, 1, False]
    return [
        # validation on the immutable twin, datetimes from a generator / a map object, header from text
        ('validate_hourly', {'ap': [6, 20, 8, 6, 22, 17, 1, False], 'dl': False, 'imm': True, 'twin': True,
                             'dshape': 'gen', 'vshape': 'tuple', 'apshape': 'string',
                             'data': [[d + 19 * 60, 1], [d - 1440 + 9 * 60, 2], [d + 1440 + 10 * 60, 3], [d + 6 * 60, 4]]}),
        ('validate_hourly', {'ap': [12, 30, 0, 1, 2, 23, 1, True], 'dl': True, 'dshape': 'map', 'apshape': 'repr', 'twin': True,
                             'data': [[1440, 1], [364 * 1440 + 60, 2], [100 * 1440, 3]]}),        # wrapping, gap -> annual
        ('validate_hourly', {'ap': [12, 30, 0, 1, 2, 23, 1, False], 'dl': False, 'dshape': 'iter', 'apshape': 'dict',
                             'data': [[363 * 1440 + 60, 2], [363 * 1440 + 120, 3]]}),             # wrapping, nothing rotated
        ('validate_daily', {'ap': [3, 1, 0, 3, 10, 23, 1, True], 'data': [[58, 1], [75, 2], [61, 3]], 'imm': True,
                            'twin': True, 'dshape': 'gen'}),                                   # leap year, both ends extended
        ('validate_daily', {'ap': [12, 20, 0, 1, 10, 23, 1, False], 'data': [[10, 1], [355, 2], [1, 3], [365, 4]],
                            'dshape': 'map', 'apshape': 'string'}),                               # wrapping, a key on the end day
        ('validate_daily', {'ap': [12, 20, 0, 1, 10, 23, 1, False], 'data': [[200, 1], [355, 2]], 'twin': True}),
        ('validate_monthly', {'ap': [3, 1, 0, 6, 30, 23, 1, False], 'data': [[9, 1]], 'imm': True, 'twin': True}),
        ('validate_monthly', {'ap': [11, 1, 0, 2, 28, 23, 1, False], 'data': [[2, 1], [12, 2], [11, 3]], 'dshape': 'iter'}),
        ('validate_monthly', {'ap': [11, 1, 0, 2, 28, 23, 1, False], 'data': [[6, 1], [12, 2]], 'vshape': 'deque'}),
        ('validate_mph', {'ap': [3, 1, 6, 6, 30, 18, 1, False], 'data': [[[4, 20], 1], [[2, 3], 2], [[7, 9], 3]], 'twin': True}),
        ('validate_mph', {'ap': [1, 1, 0, 12, 31, 23, 1, False], 'data': [[[4, 20], 1], [[2, 3], 2]], 'imm': True,
                          'dshape': 'gen'}),
        # hole filling: immutable twin with a lead hole; leap year, hole through the year end; whole numbers as int;
        # tiny and huge magnitudes; every timestep at the far end of the year
        ('holes', {'ap': day, 'data': [[d + 180, 3], [d + 360, 6]], 'via': 'flag', 'imm': True, 'twin': True,
                   'dshape': 'gen', 'vshape': 'tuple', 'ints': True}),
        ('holes', {'ap': [12, 31, 0, 1, 1, 23, 1, True], 'data': [[365 * 1440 + 1320, 22], [120, 26]], 'via': 'flag', 'twin': True}),
        ('holes', {'ap': [12, 31, 0, 1, 1, 23, 20, True], 'data': [[365 * 1440 + 1437, 1], [6, 4], [1437, 481]], 'via': 'flag'}),
        ('holes', {'ap': day, 'data': [[d + 60, 3e-12], [d + 240, 9e-12], [d + 600, -6e-12]], 'via': 'flag'}),
        ('holes', {'ap': day, 'data': [[d + 60, 3e16], [d + 240, 9e16]], 'via': 'validate', 'imm': True}),
    ] + [('holes', {'ap': [12, 31, 0, 12, 31, 23, ts, False], 'via': 'flag', 'dshape': 'iter',
                    'data': [[364 * 1440 + (60 // ts) * k, 7 * k] for k in (1, 4 * ts, 24 * ts - 2)]}) for ts in VALID_TS] + [
        # refinement: immutable twin, odd number of sub-steps (shift int(n / 2)), whole numbers as int, magnitudes
        ('interp', {'ap': day, 'ts': 3, 'kind': 'averaged', 'cum': None, 'vals': [k % 5 for k in range(24)], 'imm': True,
                    'twin': True, 'vshape': 'tuple', 'ints': True, 'apshape': 'string'}),
        ('interp', {'ap': [12, 31, 0, 12, 31, 23, 4, True], 'ts': 20, 'kind': 'cumulative', 'cum': None,
                    'vals': [(k * 7) % 11 for k in range(96)], 'ints': True, 'twin': True}),
        ('interp', {'ap': day, 'ts': 5, 'kind': 'point', 'cum': None, 'vals': [1e-12 * (k % 7) for k in range(24)]}),
        ('interp', {'ap': day, 'ts': 2, 'kind': 'cumulative', 'cum': False, 'vals': [1e16 * (k % 7) for k in range(24)], 'imm': True}),
        ('interp', {'ap': day, 'ts': 1, 'kind': 'averaged', 'cum': True, 'vals': [k for k in range(24)]}),      # n_sub = 1
        # culling: immutable twins, one-shot datetimes, nothing on the coarser grid, finer target
        ('cull', {'ap': [7, 14, 0, 7, 14, 23, 6, False], 'dl': False, 'ts': 3, 'flavour': 'cont', 'imm': True, 'twin': True,
                  'vshape': 'tuple', 'data': [[(194 * 1440) + 10 * k, k + 1] for k in range(144)]}),
        ('cull', {'ap': [7, 14, 0, 7, 14, 23, 4, False], 'dl': False, 'ts': 2, 'flavour': 'sparse', 'imm': True, 'twin': True,
                  'dshape': 'gen', 'data': [[(194 * 1440) + 15 * k, k + 1] for k in (7, 2, 90, 3, 40)]}),
        ('cull', {'ap': [7, 14, 0, 7, 14, 23, 4, False], 'dl': False, 'ts': 1, 'flavour': 'sparse', 'dshape': 'map',
                  'data': [[(194 * 1440) + 15 + 60 * k, k + 1] for k in range(5)]}),
        ('cull', {'ap': [7, 14, 0, 7, 14, 23, 2, False], 'dl': False, 'ts': 4, 'flavour': 'cont',
                  'data': [[(194 * 1440) + 30 * k, k + 1] for k in range(48)]}),
        # time aggregation and its inverse on every class
        ('timeagg', {'family': 'Power', 'cls': 'cont', 'ap': [6, 21, 0, 6, 21, 23, 4, False], 'twin': True,
                     'keys': [d + 15 * k for k in range(96)], 'vals': [100 * (k % 9) for k in range(96)]}),
        ('timeagg', {'family': 'Speed', 'cls': 'disc', 'ap': [6, 21, 0, 6, 21, 23, 6, False], 'imm': True, 'twin': True,
                     'dshape': 'gen', 'keys': [d + 10, d + 50, d + 600], 'vals': [2, 0.5, 7]}),
        ('timeagg', {'family': 'Power', 'cls': 'daily', 'ap': [1, 1, 0, 12, 31, 23, 1, False], 'imm': True, 'twin': True,
                     'keys': [1, 59, 365], 'vals': [1000, 250, 40]}),
        ('timeagg', {'family': 'TemperatureDelta', 'cls': 'daily', 'ap': [1, 1, 0, 12, 31, 23, 1, True],
                     'keys': [60, 366], 'vals': [3, 12]}),
        ('timeagg', {'family': 'MassFlowRate', 'cls': 'cont', 'ap': [6, 21, 0, 6, 21, 23, 1, False], 'imm': True,
                     'keys': [d + 60 * k for k in range(24)], 'vals': [1e-12 * k for k in range(24)]}),
        ('timeagg', {'family': 'EnergyFlux', 'cls': 'disc', 'ap': [6, 21, 0, 6, 21, 23, 60, False],
                     'keys': [d + 1, d + 59], 'vals': [600, 1e16]}),
    ]


def _corpus_histories():
    """Fixed histories, one per class of order / failure-path / slot dependence."""
    d621 = 171 * 1440
    unsorted = [[d621 + 1440 + 600, 22], [d621 + 750, 21.5], [d621 + 540, 19], [d621 - 1440 + 480, 18], [d621 + 570, 19.5]]
    day = [6, 21, 0, 6, 21, 23, 1, False]
    base = {'cls': 'disc', 'imm': False, 'ap': day, 'flag': False, 'kind': 'point', 'data': unsorted, 'tag': 'corpus'}
    cont6 = {'cls': 'cont', 'imm': False, 'ap': [6, 21, 0, 6, 21, 23, 6, False], 'flag': False, 'kind': 'point',
             'data': [[d621 + 10 * k, k + 1] for k in range(144)], 'tag': 'corpus'}
    leap2 = {'cls': 'cont', 'imm': False, 'ap': [2, 28, 0, 3, 1, 23, 2, True], 'flag': False, 'kind': 'cumulative',
             'data': [[58 * 1440 + 30 * k, (k * 7) % 13] for k in range(144)], 'tag': 'corpus'}
    wrap = {'cls': 'disc', 'imm': False, 'ap': [12, 31, 0, 1, 1, 23, 1, False], 'flag': False, 'kind': 'point',
            'data': [[120, 40], [364 * 1440 + 600, 10], [180, 50]], 'tag': 'corpus'}
    hs = [
        # an op that sets the validated flag without sorting, then validation (and hole filling)
        dict(base, ops=[['cull', 1, True], ['validate', True], ['read', True], ['holes', False]]),
        dict(base, flag=True, ops=[['validate', True], ['read', True], ['holes', False]]),
        dict(base, ops=[['to_immutable'], ['cull', 2, True], ['dict'], ['validate', False], ['validate', True]]),
        dict(base, ops=[['validate', False], ['validate', True], ['validate', True], ['holes', True], ['read', True]]),
        # refused in-place ops, then ordinary ones
        dict(base, ops=[['convcull', 7], ['read', True], ['setvalues', [1, 2]], ['setitem', 5, 1], ['validate', True],
                        ['convcull', 1], ['read', True]]),
        dict(base, data=[[d621 + 510, 1], [d621 + 570, 2]], ops=[['cull', 1, True], ['convcull', 1], ['read', True],
                                                                  ['validate', False], ['setvalues', []]]),
        # the datetimes slot of a continuous collection around an in-place cull
        dict(cont6, ops=[['read', True], ['convcull', 4], ['read', True], ['cull', 2, False], ['validate', False],
                         ['to_discontinuous'], ['validate', True]]),
        dict(cont6, ops=[['convcull', 2], ['read', True], ['interp', 4, 'N', False], ['interp', 6, '1', True],
                         ['read', True], ['convcull', 3], ['read', True]]),
        dict(cont6, imm=True, ops=[['convcull', 2], ['setitem', 0, 5], ['read', True], ['cull', 4, False],
                                   ['interp', 12, 'N', False], ['to_mutable'], ['convcull', 1], ['read', True]]),
        # the same object asked for several refinements, leap year, cumulative data
        dict(leap2, ops=[['interp', 4, 'N', False], ['interp', 6, '0', False], ['interp', 4, 'N', False],
                         ['interp', 7, 'N', False], ['interp', 4, 'X', False], ['setitem', -1, 99],
                         ['interp', 4, 'N', True], ['cull', 2, True], ['read', True]]),
        # wrapping period: validate, fill, cull
        dict(wrap, ops=[['validate', True], ['holes', True], ['read', True], ['cull', 1, False], ['interp', 2, 'N', True],
                        ['convcull', 1], ['read', True]]),
    ]
    return [('history', h) for h in hs]


def _tw(rng):
    """Every fourth oracle case is also run on the sibling class and the two answers are compared."""
    return {'twin': True} if rng.random() < 0.25 else {}


BROKEN_TO_OP = {'vh': 'validate_hourly', 'vd': 'validate_daily', 'vm': 'validate_monthly', 'vp': 'validate_mph',
                'cull': 'cull', 'holes': 'holes', 'interp': 'interp', 'agg': 'timeagg', 'rate': 'timeagg',
                'hist': 'history'}


def _oracle_cases(ctx):
    """The oracle stream: the fixed corpus, then one generated block per op.  When a tie has broken
    (`ctx.searching`) the blocks of the ops whose correspondence disagreed come first, so that the
    failing input is found before the long blocks of the other ops are evaluated."""
    rng = ctx.rng
    big = ctx.searching or not ctx.quick
    for op, c in _corpus():
        yield op, c

    def b_hourly():
        for c in _gen_validate_hourly(ctx, 8000 if big else 1000):
            if c['tag'] in ('empty',):
                continue
            yield 'validate_hourly', dict(_opt(c), ap=c['ap'], dl=c['dl'], data=c['data'], **_tw(rng))

    def b_keys(kind, op):
        def block():
            for c in _gen_keys(ctx, kind, 3000 if big else 400):
                if c['tag'] in ('empty', 'bad_key'):
                    continue
                if kind == 'daily' and not c['ap'][7] and any(k == 366 for k, _ in c['data']):
                    # header with the wrong leap flag (round 6): judged like any other, ties are the recorded finding
                    ctx.count('oracle_leap_mix:daily:%s:%s' % (_header_kind(c['ap']), 'tie' if _daily_mix_tie(
                        c['ap'], [k for k, _ in c['data']]) else 'plain'))
                yield op, dict(_opt(c), ap=c['ap'], data=c['data'], **_tw(rng))
        return block

    def b_holes():
        for c in _gen_holes(ctx, 2000 if big else 300):
            if c['tag'] in ('not_validated', 'window'):
                continue
            via = 'validate' if rng.random() < 0.4 else 'flag'
            data = list(c['data'])
            if via == 'validate':
                rng.shuffle(data)
            yield 'holes', dict(_opt(c), ap=c['ap'], data=c['data'] if via == 'flag' else data, via=via, **_tw(rng))

    def b_interp():
        # every data type x cumulative=None/True/False on one small day (deterministic sweep)
        for i, name in enumerate(_all_type_names()):
            src = [1, 2, 3][i % 3]
            tgt = {1: [2, 3, 4], 2: [4, 6], 3: [6, 12]}[src][i % 2]
            nv = 24 * src
            for cum in (None, True, False):
                yield 'interp', {'ap': [6, 21, 0, 6, 21, 23, src, False], 'ts': tgt, 'kind': name, 'cum': cum,
                                 'vals': [3600 * ((k * 7 + i) % 11) for k in range(nv)]}
        for c in _gen_interp(ctx, 1500 if big else 350):
            if c['tag'] != 'ok':
                continue
            yield 'interp', dict(_opt(c), ap=c['ap'], ts=c['ts'], kind=c['kind'], cum=c['cum'], vals=c['vals'], **_tw(rng))

    def b_cull():
        for c in _gen_cull(ctx, 3000 if big else 400):
            if c['tag'] != 'ok':
                continue
            yield 'cull', dict(_opt(c), ap=c['ap'], dl=c['dl'], data=c['data'], ts=c['ts'], flavour=c['flavour'], **_tw(rng))

    def b_timeagg():
        for c in _gen_timeagg(ctx, 1200 if big else 150):
            yield 'timeagg', dict(c, **_tw(rng))

    def b_history():
        for c in _gen_history(ctx, 3000 if big else 450):
            ctx.count('oracle_hist:template:%s' % c.pop('tag', '?'))
            ctx.count('oracle_hist:init:%s%s%s' % (c['cls'], ':imm' if c['imm'] else '', ':flag' if c['flag'] else ''))
            yield 'history', c

    def b_key_history():
        for c in _gen_key_history(ctx, 1500 if big else 120):
            ctx.count('oracle_key_hist:%s' % c['op'])
            yield 'key_history', c

    blocks = [('validate_hourly', b_hourly), ('validate_daily', b_keys('daily', 'validate_daily')),
              ('validate_monthly', b_keys('monthly', 'validate_monthly')), ('validate_mph', b_keys('mph', 'validate_mph')),
              ('holes', b_holes), ('interp', b_interp), ('cull', b_cull), ('timeagg', b_timeagg),
              ('history', b_history), ('key_history', b_key_history)]
    first = set(BROKEN_TO_OP.get(b.get('what')) for b in getattr(ctx, 'broken', []) if isinstance(b, dict))
    if first:
        blocks.sort(key=lambda nb: nb[0] not in first)          # stable: the broken ops first
    for _, block in blocks:
        for case in block():
            yield case


def oracle(ctx):
    """Like core.run_oracle_cases, but a recorded finding is reported through its first three failing
    inputs only: the generated stream hits the findings hundreds of times, and the core stops
    searching after 200 failures."""
    import json
    from harness import core
    known = core.load_known(PROP)
    seen = {}
    fresh = 0
    with contextlib.redirect_stdout(io.StringIO()):
        for op, inp in _oracle_cases(ctx):
            if len(ctx.failures) >= 200 or fresh >= 12:
                break               # enough failing inputs for a replay: stop the search
            try:
                res = check_case(op, inp)
            except Exception as e:
                res = {'required': 'oracle evaluates', 'observed': 'exception %s: %s' % (type(e).__name__, e),
                       'sig': {'exception': type(e).__name__}}
            ctx.count('oracle:' + op)
            if op == 'validate_hourly' and bool(inp.get('dl')) != bool(inp['ap'][7]):
                ctx.count('oracle_leap_mix:%s:%s:%s' % (_header_kind(inp['ap']), 'leap_steps' if inp['dl'] else 'leap_header',
                                                        'tie' if _mix_tie(inp['ap'], inp['dl'], inp['data']) else 'plain'))
            for b in _branches(op, inp):
                ctx.count('branch:' + b)
            if op not in ('history', 'key_history', 'order'):
                _count_shapes(ctx, 'oracle_' + op, inp)
                if inp.get('twin'):
                    ctx.count('twin_compared:' + op)
            ctx.case((op, json.dumps(inp, sort_keys=True, default=str)))
            if res:
                sig = dict(res.get('sig') or {}, op=op)
                hit = next((k['id'] for k in known if core.matches(sig, k)), None)
                if hit is not None:
                    seen[hit] = seen.get(hit, 0) + 1
                    ctx.count('known_finding:' + hit)
                    if seen[hit] > 3:
                        continue
                else:
                    fresh += 1
                ctx.fail(op, inp, res.get('required'), res.get('observed'), res.get('sig'))
            elif ctx.evaluations % 997 == 1:
                ctx.sample({'oracle': op, 'input': inp}, limit=12)
        _tick(ctx, 'oracle stream done')
        if len(ctx.failures) < 200 and fresh == 0:
            _order_stage(ctx, _order_pool(ctx))
        _tick(ctx, 'order stage done')


LEVEL_TEXT = ('Machine-checked Lean 4 theorems over an executable model of the validation, hole-filling and '
              'resampling code of datacollection.py: see Props/C13.lean (every clause of the statement is '
              'listed there as proved, proved in part, or compared only). The model is compared with the '
              'real classes on boundary-biased generated collections on every run.')
LEVEL_NOTE = ('Trusted: Lean kernel; axioms propext/Classical.choice/Quot.sound only; the hand-written model '
              '(tied by the correspondence run on generated inputs only; one Boolean about the in-place cull of the '
              'continuous class is translated from the source); the C04/C08 models it builds on; '
              'float interpolation compared within 1e-9 of the data scale, theorems over exact rationals. The model '
              'describes the code with the ten committed fixes/C13_*.patch repairs and follows the source on the eleventh '
              '(C13_continuous_cull_in_place_divisor, proposed).')
TECHNIQUE = ('Lean 4 proof (permutation/sortedness of merge sort and rotation, C04 membership predicate of the '
             'output period, equally spaced cyclic step grid + induction over the hole list, telescoping sums over Rat) about a model tied to datacollection.py by differential correspondence')
