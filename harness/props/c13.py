"""C13 — Validation, hole-filling and resampling preserve the data they are given.

Model: lean/Ladybug/Model/Resample.lean (on Model/Cal.lean, Model/AP.lean); theorems:
lean/Ladybug/Props/C13.lean (lemmas: Proofs/C13Lemmas.lean); driver: drv_c13.
Tie: correspondence on the ops below (values are distinct ids where the code only moves them,
rationals where it interpolates).

The model, the theorems and the oracle describe the code WITH fixes/C13_*.patch applied (ten small
repairs, see the patch headers); on a tree without them this check reports a VIOLATION.
"""
import contextlib
import io
from datetime import datetime, timedelta
from fractions import Fraction

from harness.core import err_name, run_oracle_cases

PROP = 'C13'
PROOF_MODULES = ['Ladybug.Props.C13']
GREP_MODULES = ['Ladybug.Model.Resample', 'Ladybug.Proofs.C13Lemmas', 'Ladybug.Proofs.C13Interp',
                'Ladybug.Proofs.C13Contain', 'Ladybug.Proofs.C13Holes', 'Ladybug.Drv.C13',
                'Ladybug.Model.AP', 'Ladybug.Model.Cal', 'Ladybug.Py', 'Ladybug.DrvCore']
RULE = ('correspondence: header periods from a boundary product (one day / few days / months / annual / '
        'wrapping the year end; hour windows full, partial, overnight; 8 timesteps; leap) x data = subsets '
        'of the annual grid placed inside, across the edges of and far from the header period (sizes '
        '0,1,2,3,10,50; thorough up to 500), shuffled, on the header grid / a finer grid / mixed minute '
        'offsets, ~8 % malformed (duplicates, empty, invalid target timesteps); hole patterns leading / '
        'trailing / interior / single / none on full-day periods incl. wrapping ones; refinement for every '
        'valid (source, target) timestep pair, every data type of ladybug.datatype (all cumulative types incl. '
        'the point-in-time ones) and cumulative=None/True/False; culling of sparse, dense and continuous '
        'sources incl. (current, target) timestep pairs where the target does not divide the current one; a case is non-trivial '
        'when the implementation returns a value; distinct = distinct (op, input)')
TRUSTED_BASE = [
    'hand-written model Model/Resample.lean of datacollection.py validate_analysis_period (4 classes), '
    'interpolate_holes, _xxrange, interpolate_to_timestep, _timestep_cull/cull_to_timestep and of the '
    'factor arithmetic of _time_aggregated_collection/_time_rate_of_change_collection: tied to the code '
    'by the correspondence run only',
    'Python sorted() on (DateTime, value) pairs is modelled as a stable sort on the minute of the year '
    '(all DateTimes of one collection carry one leap flag)',
    'interpolation is modelled over exact rationals; the float results of the code are compared with '
    'relative/absolute tolerance 1e-9 (values at source steps: exactly)',
    'the AnalysisPeriod constructor and enumeration are those of the C04 model (Model/AP.lean, theorems '
    'C04_*), DateTime fields those of the C08 model (Model/Cal.lean)',
    'unit conversion inside to_time_aggregated/to_time_rate_of_change (to_unit) belongs to C06; only the '
    'factor is modelled here',
]
ASSUMPTIONS = [
    'all DateTime objects of one hourly collection carry the same leap flag, equal to the header flag '
    '(theorems); the mixed case is only compared',
    'containment is judged by the C04 membership predicate of the output period',
    'hole filling is claimed for validated collections whose period has the hour window 0..23 '
    '(HourlyContinuousCollection accepts no other)',
]

ML = [31, 28, 31, 30, 31, 30, 31, 31, 30, 31, 30, 31]
VALID_TS = [1, 2, 3, 4, 5, 6, 10, 12, 15, 20, 30, 60]


# ---------------------------------------------------------------------------------------------
# plain-number helpers (stdlib calendar, not the code under test)


def _ny(leap):
    return 527040 if leap else 525600


def _mlen(leap, m):
    return 29 if (leap and m == 2) else ML[m - 1]


def _md_to_doy(leap, m, d):
    return sum(_mlen(leap, k) for k in range(1, m)) + d


def _moy_fields(leap, moy):
    r = datetime(2016 if leap else 2017, 1, 1) + timedelta(minutes=moy)
    return r.month, r.day, r.hour, r.minute


def _doy_to_md(leap, doy):
    r = datetime(2016 if leap else 2017, 1, 1) + timedelta(days=doy - 1)
    return r.month, r.day


def _b(x):
    return '1' if x else '0'


def _ap_line(ap):
    return '%d %d %d %d %d %d %d %s' % (ap[0], ap[1], ap[2], ap[3], ap[4], ap[5], ap[6], _b(ap[7]))


def _mk_ap(ap):
    from ladybug.analysisperiod import AnalysisPeriod
    return AnalysisPeriod(ap[0], ap[1], ap[2], ap[3], ap[4], ap[5], ap[6], bool(ap[7]))


def _ap_fields(a):
    return [a.st_month, a.st_day, a.st_hour, a.end_month, a.end_day, a.end_hour, a.timestep,
            bool(a.is_leap_year)]


def _show_ap(a):
    return _ap_line(_ap_fields(a))


def _mk_dt(leap, moy):
    from ladybug.dt import DateTime
    mo, da, h, mi = _moy_fields(leap, moy)
    return DateTime(mo, da, h, mi, leap)


LEGACY_KINDS = {'point': 'Temperature', 'cumulative': 'Energy', 'averaged': 'Power',
                'point_cumulative': 'Distance'}


def _type_of(kind):
    """Data type class for a kind: one of the four legacy names or any name of ladybug.datatype.TYPESDICT."""
    from ladybug.datatype import TYPESDICT
    return TYPESDICT[LEGACY_KINDS.get(kind, kind)]


def _kind_flags(kind):
    """(native cumulative, point in time) of the data type, read from the type itself."""
    t = _type_of(kind)()
    return bool(t.cumulative), bool(t.point_in_time)


def _all_type_names():
    """Names of every data type that can be instantiated, sorted; cumulative ones first."""
    from ladybug.datatype import TYPESDICT
    names = []
    for n in sorted(TYPESDICT):
        try:
            t = TYPESDICT[n]()
            t.units[0]
            names.append((not t.cumulative, n))
        except Exception:
            pass
    return [n for _, n in sorted(names)]


def _cumulative_type_names():
    return [n for n in _all_type_names() if _kind_flags(n)[0]]


def _header(ap, kind='point'):
    from ladybug.header import Header
    t = _type_of(kind)()
    return Header(t, t.units[0], _mk_ap(ap), {'k': 'v'})


# ---------------------------------------------------------------------------------------------
# generators


def _gen_period(rng, full_day=False, short=False):
    """Header period as 8 plain numbers (valid for the AnalysisPeriod constructor)."""
    leap = rng.random() < 0.3
    r = rng.random()
    if r < 0.12 and not short:
        sm, sd, em, ed = 1, 1, 12, 31
    else:
        if rng.random() < 0.5:
            sm, sd = rng.choice([(1, 1), (2, 28), (3, 1), (6, 21), (12, 30), (12, 31), (2, 27), (7, 31)])
        else:
            sm = rng.randrange(1, 13)
            sd = rng.randrange(1, _mlen(leap, sm) + 1)
        if leap and rng.random() < 0.1:
            sm, sd = 2, 29
        span = rng.choice([0, 0, 1, 2, 3, 7] if short else [0, 0, 1, 2, 5, 30, 200, 364])
        if rng.random() < 0.25:
            span = -rng.choice([1, 2, 30, 300] if not short else [358, 360, 362, 363])   # wraps the year end
        doy = (_md_to_doy(leap, sm, sd) - 1 + span) % (366 if leap else 365) + 1
        em, ed = _doy_to_md(leap, doy)
    if full_day:
        sh, eh = 0, 23
    else:
        sh, eh = rng.choice([(0, 23), (0, 23), (0, 23), (6, 18), (22, 4), (0, 12), (12, 23), (9, 9), (5, 4),
                             (1, 22)])
    ts = rng.choice([1, 1, 1, 2, 2, 3, 4, 6, 12, 60] if not short else [1, 1, 2, 3, 4, 6])
    if (sh, eh) != (0, 23):
        # Header.duplicate() enumerates a period with an hour window (6 us per step): keep those small
        nd = 366 if leap else 365
        days = (_md_to_doy(leap, em, ed) - _md_to_doy(leap, sm, sd)) % nd + 1
        if (em, ed, eh) != (sm, sd, sh) and days == 1 and eh < sh:
            days = nd
        while days * 24 * ts > 2500 and ts > 1:
            ts = max(t for t in VALID_TS if t < ts)
        if days * 24 * ts > 2500 and rng.random() < 0.9:
            doy = (_md_to_doy(leap, sm, sd) - 1 + rng.choice([0, 1, 3, 40, 90])) % nd + 1
            em, ed = _doy_to_md(leap, doy)
    return [sm, sd, sh, em, ed, eh, ts, leap]


def _gen_hourly_data(rng, ap, nmax):
    """Subset of the annual grid of steps as (moy, id) pairs, shuffled."""
    leap = ap[7]
    ny = _ny(leap)
    st = (_md_to_doy(leap, ap[0], ap[1]) - 1) * 1440
    en = (_md_to_doy(leap, ap[3], ap[4]) - 1) * 1440 + 1440
    n = rng.choice([1, 1, 2, 3, 5, 10, nmax])
    g = rng.random()
    if g < 0.55:
        grid = 60 // ap[6]
    elif g < 0.8:
        grid = 60 // rng.choice([1, 2, 4, 6, 60])
    else:
        grid = None                                   # mixed minute offsets
    moys = set()
    for _ in range(n):
        r = rng.random()
        if r < 0.45:
            span = (en - st) % ny or ny
            m = (st + rng.randrange(span)) % ny       # inside the date range
        elif r < 0.6:
            m = (st + rng.randrange(-2880, 0)) % ny   # just before the start day
        elif r < 0.75:
            m = (en + rng.randrange(0, 2880)) % ny    # just after the end day
        elif r < 0.85:
            m = rng.choice([0, ny - 60, ny - 1440, 59 * 1440, 60 * 1440, st % ny, (en - 60) % ny])
        else:
            m = rng.randrange(ny)
        if rng.random() < 0.5:
            h = rng.choice([0, 1, 23, 22, ap[2], ap[5], (ap[5] + 1) % 24, (ap[2] - 1) % 24])
            m = m // 1440 * 1440 + h * 60 + m % 60
        gg = grid if grid else 60 // rng.choice([1, 2, 3, 4, 6])
        m -= m % gg
        moys.add(m)
    moys = list(moys)
    rng.shuffle(moys)
    return [[m, i + 1] for i, m in enumerate(moys)]


def _gen_validate_hourly(ctx, count):
    rng = ctx.rng
    out = []
    for _ in range(count):
        ap = _gen_period(rng)
        data = _gen_hourly_data(rng, ap, ctx.n(50, 500))
        dl = ap[7]
        r = rng.random()
        tag = 'ok'
        if r < 0.03:
            data = []
            tag = 'empty'
        elif r < 0.08 and data:
            data.append([data[0][0], len(data) + 1])
            rng.shuffle(data)
            tag = 'duplicate'
        elif r < 0.14 and not ap[7]:
            # data carry the leap flag the header lacks
            dl = True
            if rng.random() < 0.6:
                data.append([59 * 1440 + rng.randrange(24) * 60, len(data) + 1])    # 29 Feb
            tag = 'leap_mix'
        out.append({'ap': ap, 'dl': dl, 'data': data, 'tag': tag})
    return out


def _gen_keys(ctx, kind, count):
    """Daily / monthly / monthly-per-hour validation cases."""
    rng = ctx.rng
    out = []
    for _ in range(count):
        ap = _gen_period(rng)
        leap = ap[7]
        n = rng.choice([1, 1, 2, 3, 5, 12, 40])
        keys = set()
        sdoy, edoy = _md_to_doy(leap, ap[0], ap[1]), _md_to_doy(leap, ap[3], ap[4])
        for _ in range(n):
            if kind == 'daily':
                r = rng.random()
                nd = 366 if leap else 365
                if r < 0.5:
                    k = (sdoy - 1 + rng.randrange(((edoy - sdoy) % nd) + 1)) % nd + 1
                elif r < 0.75:
                    k = (rng.choice([sdoy, edoy]) - 1 + rng.randrange(-3, 4)) % nd + 1
                else:
                    k = rng.randrange(1, nd + 1)
                if rng.random() < 0.03:
                    k = rng.choice([366, 365, 1, 60])
            elif kind == 'monthly':
                k = rng.randrange(1, 13) if rng.random() < 0.6 else \
                    (rng.choice([ap[0], ap[3]]) - 1 + rng.randrange(-1, 2)) % 12 + 1
            else:
                mo = rng.randrange(1, 13) if rng.random() < 0.6 else \
                    (rng.choice([ap[0], ap[3]]) - 1 + rng.randrange(-1, 2)) % 12 + 1
                h = rng.choice([0, 23, ap[2], ap[5], rng.randrange(24)])
                mi = 0 if rng.random() < 0.8 else rng.choice([15, 30, 45])
                k = (mo, h, mi)
            keys.add(k)
        keys = list(keys)
        rng.shuffle(keys)
        data = [[k, i + 1] for i, k in enumerate(keys)]
        tag = 'ok'
        r = rng.random()
        if r < 0.03:
            data, tag = [], 'empty'
        elif r < 0.08:
            data.append([data[0][0], len(data) + 1])
            rng.shuffle(data)
            tag = 'duplicate'
        elif r < 0.10 and kind == 'daily':
            data.append([rng.choice([0, 367, 400]), len(data) + 1])
            tag = 'bad_key'
        elif r < 0.12 and kind != 'daily':
            data.append([13 if kind == 'monthly' else (13, 5, 0), len(data) + 1])
            tag = 'bad_key'
        out.append({'ap': ap, 'data': [[list(k) if isinstance(k, tuple) else k, v] for k, v in data],
                    'tag': tag})
    return out


def _full_day_steps(ap):
    """Minutes of the year of every step of a period with the window 0..23, in period order."""
    leap = ap[7]
    ny = _ny(leap)
    st = (_md_to_doy(leap, ap[0], ap[1]) - 1) * 1440
    en = (_md_to_doy(leap, ap[3], ap[4]) - 1) * 1440 + 1440
    n = ((en - st - 1) % ny + 1) // (60 // ap[6])
    step = 60 // ap[6]
    return [(st + k * step) % ny for k in range(n)]


def _gen_holes(ctx, count):
    rng = ctx.rng
    out = []
    for _ in range(count):
        ap = _gen_period(rng, full_day=True, short=rng.random() < 0.9)
        if ap[:6] == [1, 1, 0, 12, 31, 23]:
            ap[6] = rng.choice([1, 2])
        if len(_full_day_steps(ap)) > 20000:
            ap[6] = 1
        steps = _full_day_steps(ap)
        n = len(steps)
        pat = rng.choice(['none', 'leading', 'trailing', 'interior', 'single', 'random', 'sparse', 'one_hole',
                          'both_ends'])
        if pat == 'none':
            keep = list(range(n))
        elif pat == 'leading':
            keep = list(range(rng.randrange(1, max(2, n // 2)), n))
        elif pat == 'trailing':
            keep = list(range(0, n - rng.randrange(1, max(2, n // 2))))
        elif pat == 'interior':
            a = rng.randrange(1, max(2, n - 2))
            b = rng.randrange(a, max(a + 1, n - 1))
            keep = [i for i in range(n) if i < a or i > b]
        elif pat == 'single':
            keep = [rng.randrange(n)]
        elif pat == 'one_hole':
            a = rng.randrange(n)
            keep = [i for i in range(n) if i != a]
        elif pat == 'both_ends':
            a = rng.randrange(0, max(1, n // 3))
            b = rng.randrange(max(a + 1, 2 * n // 3), n)
            keep = [i for i in range(a, b + 1) if rng.random() < 0.7 or i in (a, b)]
        elif pat == 'sparse':
            keep = sorted(rng.sample(range(n), min(n, rng.choice([2, 3, 5]))))
        else:
            p = rng.choice([0.2, 0.5, 0.8])
            keep = [i for i in range(n) if rng.random() < p] or [rng.randrange(n)]
        vals = [rng.randrange(-50, 200) * rng.choice([1, 1, 10]) for _ in keep]
        if rng.random() < 0.3:
            vals = [v + rng.choice([0.5, 0.25, 0.125]) for v in vals]
        data = [[steps[i], v] for i, v in zip(keep, vals)]
        validated = True
        tag = pat
        if rng.random() < 0.03:
            validated, tag = False, 'not_validated'
        out.append({'ap': ap, 'validated': validated, 'data': data, 'tag': tag})
    # a period with an hour window is rejected by the continuous collection
    for _ in range(max(2, count // 40)):
        ap = _gen_period(rng, short=True)
        if (ap[2], ap[5]) == (0, 23):
            ap[2] = 3
        try:
            st = (_md_to_doy(ap[7], ap[0], ap[1]) - 1) * 1440 + ap[2] * 60
        except Exception:
            continue
        out.append({'ap': ap, 'validated': True, 'data': [[st, 5]], 'tag': 'window'})
    return out


def _gen_interp(ctx, count):
    rng = ctx.rng
    out = []
    all_types, cum_types = _all_type_names(), _cumulative_type_names()
    for _ in range(count):
        ap = _gen_period(rng, full_day=True, short=True)
        ap[6] = rng.choice([1, 1, 1, 2, 3, 4, 6, 12])
        n = len(_full_day_steps(ap))
        if n > 2500:
            ap[3], ap[4] = ap[0], ap[1]
            n = len(_full_day_steps(ap))
        mult = [t for t in VALID_TS if t % ap[6] == 0]
        ts = rng.choice(mult)
        tag = 'ok'
        r = rng.random()
        if r < 0.04:
            ts, tag = rng.choice([t for t in (7, 8, 9, 16, 24) if t % ap[6] == 0] or [7 * ap[6]]), 'invalid_target'
        elif r < 0.08:
            ts, tag = ap[6] + 1, 'not_multiple'
        r2 = rng.random()
        if r2 < 0.4:
            kind = rng.choice(['point', 'cumulative', 'averaged', 'point_cumulative'])
        elif r2 < 0.8:
            kind = rng.choice(cum_types)          # every data type with cumulative=True, incl. point-in-time ones
        else:
            kind = rng.choice(all_types)
        cum = rng.choice([None, None, True, False])
        scale = rng.choice([1, 60, 3600])
        vals = [rng.randrange(-20, 100) * scale for _ in range(n)]
        if rng.random() < 0.2:
            vals = [v + rng.choice([0.5, 0.25]) for v in vals]
        out.append({'ap': ap, 'ts': ts, 'kind': kind, 'cum': cum, 'vals': vals, 'tag': tag})
    return out


NON_DIVISOR_PAIRS = [(cur, tgt) for cur in VALID_TS for tgt in VALID_TS if tgt < cur and cur % tgt != 0]


def _gen_cull(ctx, count):
    """Cull cases.  flavour 'sparse': a discontinuous subset (as for validation); 'dense': a
    discontinuous collection holding every step of a short whole-day period; 'cont': the same data as
    a HourlyContinuousCollection.  Dense/continuous sources are biased to (current, target) timestep
    pairs where the target does not divide the current timestep (6->4, 6->5, 12->5, 3->2 ...)."""
    rng = ctx.rng
    out = []
    for _ in range(count):
        r = rng.random()
        tag = 'ok'
        if r < 0.5:
            ap = _gen_period(rng)
            data = _gen_hourly_data(rng, ap, ctx.n(50, 300))
            ts = rng.choice(VALID_TS)
            flavour = 'sparse'
        else:
            ap = _gen_period(rng, full_day=True, short=True)
            q = rng.random()
            if q < 0.55:
                ap[6], ts = rng.choice(NON_DIVISOR_PAIRS)
            elif q < 0.8:
                ap[6] = rng.choice([2, 3, 4, 6, 12])
                ts = rng.choice([t for t in VALID_TS if ap[6] % t == 0])
            else:
                ap[6], ts = rng.choice([1, 2, 3, 4]), rng.choice(VALID_TS)     # incl. finer targets
            if len(_full_day_steps(ap)) > 700:
                ap[3], ap[4] = ap[0], ap[1]
            steps = _full_day_steps(ap)
            data = [[m, i + 1] for i, m in enumerate(steps)]
            flavour = 'cont' if rng.random() < 0.6 else 'dense'
        if rng.random() < 0.08:
            ts, tag = rng.choice([0, 7, 8, 24, 120]), 'invalid_target'
        out.append({'ap': ap, 'dl': ap[7], 'data': data, 'ts': ts, 'tag': tag, 'flavour': flavour,
                    'pair': 'divisor' if (ts and ap[6] % ts == 0) else 'non_divisor'})
    return out


# ---------------------------------------------------------------------------------------------
# implementation adapters (return the model's output format; exceptions -> err:<class>)


def _impl_vh(c):
    from ladybug.datacollection import HourlyDiscontinuousCollection
    coll = HourlyDiscontinuousCollection(_header(c['ap']), [v for _, v in c['data']],
                                         [_mk_dt(c['dl'], m) for m, _ in c['data']])
    v = coll.validate_analysis_period()
    return 'ok %s %d%s' % (_show_ap(v.header.analysis_period), len(v.values),
                           ''.join(' %d %d' % (d.moy, x) for d, x in zip(v.datetimes, v.values)))


def _impl_keys(cls_name):
    def run(c):
        import ladybug.datacollection as dc
        cls = getattr(dc, cls_name)
        keys = [tuple(k) if isinstance(k, list) else k for k, _ in c['data']]
        coll = cls(_header(c['ap']), [v for _, v in c['data']], keys)
        v = coll.validate_analysis_period()
        if cls_name == 'MonthlyPerHourCollection':
            items = ''.join(' %d-%d-%d %d' % (k[0], k[1], k[2], x) for k, x in zip(v.datetimes, v.values))
        else:
            items = ''.join(' %d %d' % (k, x) for k, x in zip(v.datetimes, v.values))
        return 'ok %s %d%s' % (_show_ap(v.header.analysis_period), len(v.values), items)
    return run


def _cull_source(c):
    from ladybug.datacollection import HourlyDiscontinuousCollection, HourlyContinuousCollection
    if c.get('flavour') == 'cont':
        return HourlyContinuousCollection(_header(c['ap']), [v for _, v in c['data']])
    return HourlyDiscontinuousCollection(_header(c['ap']), [v for _, v in c['data']],
                                         [_mk_dt(c['dl'], m) for m, _ in c['data']])


def _impl_cull(c):
    coll = _cull_source(c)
    v = coll.cull_to_timestep(c['ts'])
    return 'ok %s %d%s' % (_show_ap(v.header.analysis_period), len(v.values),
                           ''.join(' %d %d' % (d.moy, x) for d, x in zip(v.datetimes, v.values)))


def _impl_holes(c):
    from ladybug.datacollection import HourlyDiscontinuousCollection
    leap = c['ap'][7]
    coll = HourlyDiscontinuousCollection(_header(c['ap']), [float(v) for _, v in c['data']],
                                         [_mk_dt(leap, m) for m, _ in c['data']])
    coll._validated_a_period = bool(c['validated'])
    r = coll.interpolate_holes()
    return ('ok', None, list(r.values))


def _impl_interp(c):
    from ladybug.datacollection import HourlyContinuousCollection
    coll = HourlyContinuousCollection(_header(c['ap'], c['kind']), [float(v) for v in c['vals']])
    r = coll.interpolate_to_timestep(c['ts'], c['cum'])
    return ('ok', _show_ap(r.header.analysis_period), list(r.values))


def _rat(x):
    f = Fraction(x)
    return '%d' % f.numerator if f.denominator == 1 else '%d/%d' % (f.numerator, f.denominator)


def _line_items(data):
    return ''.join(' %d %d' % (m, v) for m, v in data)


def _compare_exact(ctx, op, cases, model_line, impl_fn):
    lines = [model_line(c) for c in cases]
    outs = ctx.driver().run(lines)
    for c, line, mo in zip(cases, lines, outs):
        try:
            io = impl_fn(c)
        except Exception as e:
            io = 'err:' + err_name(e)
        ctx.compared += 1
        ctx.count('op:' + op)
        ctx.count('%s:%s' % (op, c.get('tag', 'ok')))
        if 'flavour' in c:
            ctx.count('%s:%s:%s' % (op, c['flavour'], c.get('pair', '')))
        ctx.case((op, line), nontrivial=not io.startswith('err:'))
        if io.startswith('err:'):
            ctx.count('err_results')
        if mo != io:
            ctx.disagree(op, {'case': c, 'line': line}, mo[:600], io[:600])
    if cases:
        ctx.sample({'op': op, 'request': lines[0][:300], 'model': outs[0][:300]})


def _close(a, b):
    return abs(a - b) <= 1e-9 * max(1.0, abs(a), abs(b))


def _compare_num(ctx, op, cases, model_line, impl_fn):
    """Model answers exact rationals, the code floats: compare header text exactly and values
    within 1e-9 (relative, absolute below 1)."""
    lines = [model_line(c) for c in cases]
    outs = ctx.driver().run(lines)
    for c, line, mo in zip(cases, lines, outs):
        try:
            io = impl_fn(c)
        except Exception as e:
            io = 'err:' + err_name(e)
        ctx.compared += 1
        ctx.count('op:' + op)
        ctx.count('%s:%s' % (op, c.get('tag', 'ok')))
        ok_impl = not isinstance(io, str)
        ctx.case((op, line), nontrivial=ok_impl)
        if not ok_impl:
            ctx.count('err_results')
            if mo != io:
                ctx.disagree(op, {'case': c, 'line': line[:400]}, mo[:300], io)
            continue
        toks = mo.split(' ')
        good = toks[0] == 'ok'
        if good:
            k = 1
            if io[1] is not None:
                good = ' '.join(toks[1:9]) == io[1]
                k = 9
            if good:
                n = int(toks[k])
                mv = [Fraction(t) for t in toks[k + 1:]]
                good = n == len(mv) == len(io[2]) and all(_close(float(a), b) for a, b in zip(mv, io[2]))
        if not good:
            ctx.disagree(op, {'case': c, 'line': line[:400]}, mo[:400], repr(io)[:400])
    if cases:
        ctx.sample({'op': op, 'request': lines[0][:300], 'model': outs[0][:300]})


def correspondence(ctx):
    # AnalysisPeriod prints 'Updated end_day ...' when it clips a day: keep the run's stdout clean
    with contextlib.redirect_stdout(io.StringIO()):
        _correspondence(ctx)


def _correspondence(ctx):
    rng = ctx.rng
    # fixed corpus first
    corpus = [c for op, c in _corpus() if op == 'validate_hourly']
    cases = corpus + _gen_validate_hourly(ctx, ctx.n(1000, 12000))
    _compare_exact(ctx, 'vh', cases,
                   lambda c: 'vh %s %s %d%s' % (_ap_line(c['ap']), _b(c['dl']), len(c['data']),
                                                 _line_items(c['data'])), _impl_vh)
    for kind, op, cls in (('daily', 'vd', 'DailyCollection'), ('monthly', 'vm', 'MonthlyCollection')):
        cases = _gen_keys(ctx, kind, ctx.n(700, 5000))
        _compare_exact(ctx, op, cases,
                       lambda c, op=op: '%s %s %d%s' % (op, _ap_line(c['ap']), len(c['data']),
                                                        _line_items(c['data'])), _impl_keys(cls))
    cases = _gen_keys(ctx, 'mph', ctx.n(700, 5000))
    _compare_exact(ctx, 'vp', cases,
                   lambda c: 'vp %s %d%s' % (_ap_line(c['ap']), len(c['data']),
                                             ''.join(' %d %d %d %d' % (k[0], k[1], k[2], v) for k, v in c['data'])),
                   _impl_keys('MonthlyPerHourCollection'))
    cases = [c for op, c in _corpus() if op == 'cull'] + _gen_cull(ctx, ctx.n(600, 5000))
    _compare_exact(ctx, 'cull', cases,
                   lambda c: 'cull %s %d %d%s' % (_ap_line(c['ap']), c['ts'], len(c['data']),
                                                  _line_items(c['data'])), _impl_cull)
    cases = [c for op, c in _corpus() if op == 'holes'] + _gen_holes(ctx, ctx.n(450, 3000))
    _compare_num(ctx, 'holes', cases,
                 lambda c: 'holes %s %s %d%s' % (_ap_line(c['ap']), _b(c['validated']), len(c['data']),
                                                 ''.join(' %d %s' % (m, _rat(v)) for m, v in c['data'])),
                 _impl_holes)
    cases = [c for op, c in _corpus() if op == 'interp'] + _gen_interp(ctx, ctx.n(350, 2500))
    _compare_num(ctx, 'interp', cases,
                 lambda c: 'interp %s %d %s %s %s %d%s' % (
                     _ap_line(c['ap']), c['ts'], 'N' if c['cum'] is None else _b(c['cum']),
                     _b(_kind_flags(c['kind'])[0]), _b(_kind_flags(c['kind'])[1]), len(c['vals']),
                     ''.join(' ' + _rat(v) for v in c['vals'])), _impl_interp)
    _corr_factor(ctx, rng)


def _corr_factor(ctx, rng):
    """to_time_aggregated / to_time_rate_of_change: value * (factor / timestep) and its inverse."""
    from ladybug.datacollection import HourlyContinuousCollection, DailyCollection
    from ladybug.header import Header
    from ladybug.datatype.power import Power
    from ladybug.datatype.energy import Energy
    from ladybug.datatype.speed import Speed
    from ladybug.datatype.distance import Distance
    lines, expect = [], []
    for _ in range(ctx.n(60, 600)):
        ts = rng.choice([1, 2, 4, 6])
        ap = [6, 21, 0, 6, 21, 23, ts, False]
        vals = [float(rng.randrange(0, 5000)) for _ in range(24 * ts)]
        rate_t, agg_t, u1, u2 = rng.choice([(Power, Energy, 'W', 'kWh'), (Speed, Distance, 'm/s', 'm')])
        factor = rate_t().time_aggregated_factor
        if rng.random() < 0.5:
            coll = HourlyContinuousCollection(Header(rate_t(), u1, _mk_ap(ap)), vals)
            got = coll.to_time_aggregated()
            op, want_unit, want_type = 'agg', u2, agg_t
        else:
            coll = HourlyContinuousCollection(Header(agg_t(), u2, _mk_ap(ap)), vals)
            got = coll.to_time_rate_of_change()
            op, want_unit, want_type = 'rate', u1, rate_t
        k = rng.randrange(len(vals))
        lines.append('%s %s %d %s' % (op, _rat(factor), ts, _rat(vals[k])))
        expect.append((op, got.values[k], got.header.unit == want_unit and isinstance(got.header.data_type, want_type)))
    # daily collections aggregate with timestep 1/24
    for _ in range(ctx.n(10, 100)):
        vals = [float(rng.randrange(0, 5000)) for _ in range(3)]
        coll = DailyCollection(Header(Power(), 'W', _mk_ap([1, 1, 0, 1, 3, 23, 1, False])), vals, [1, 2, 3])
        got = coll.to_time_aggregated()
        lines.append('agg %s 1/24 %s' % (_rat(Power().time_aggregated_factor), _rat(vals[1])))
        expect.append(('agg', got.values[1], got.header.unit == 'kWh'))
    outs = ctx.driver().run(lines)
    for line, mo, (op, val, hdr_ok) in zip(lines, outs, expect):
        ctx.compared += 1
        ctx.count('op:' + op)
        ctx.case((op, line))
        good = mo.startswith('ok ') and hdr_ok and _close(float(Fraction(mo[3:])), val)
        if not good:
            ctx.disagree(op, {'line': line}, mo, repr((val, hdr_ok)))


# ---------------------------------------------------------------------------------------------
# property oracle: the statement of C13 evaluated on the real code, independent of the model


def _contains(ap, leap_dt, moy):
    """Is the step (minute of the year, leap flag of its DateTime) a step of the period `ap`
    (AnalysisPeriod object)?  Written from the description of a period: grid, hour window, date
    range; cyclic for wrapping periods.  Returns None or the name of the criterion that fails."""
    if bool(ap.is_leap_year) != bool(leap_dt):
        return 'leap'
    step = 60 // ap.timestep
    if moy % step:
        return 'grid'
    mod = moy % 1440
    sh, eh = ap.st_hour, ap.end_hour
    if sh <= eh:
        win = (sh * 60 <= mod <= eh * 60) or (sh == 0 and eh == 23)
        if not win:
            return 'minute_after_end_hour' if (sh * 60 <= mod and mod // 60 == eh) else 'window'
    elif not (mod >= sh * 60 or mod <= eh * 60):
        return 'minute_after_end_hour' if mod // 60 == eh else 'window'
    st = (_md_to_doy(ap.is_leap_year, ap.st_month, ap.st_day) - 1) * 1440 + sh * 60
    en = (_md_to_doy(ap.is_leap_year, ap.end_month, ap.end_day) - 1) * 1440 + eh * 60
    if st <= en:
        ok = st <= moy < en + 60
    else:
        ok = moy >= st or moy < en + 60
    return None if ok else 'dates'


def _header_kind(ap):
    a = _mk_ap(ap)
    return 'rev' if a.is_reversed else ('annual' if a.is_annual else 'fwd')


def _check_validate_hourly(inp):
    from ladybug.datacollection import HourlyDiscontinuousCollection
    ap, dl, data = inp['ap'], inp['dl'], inp['data']
    sig = {'header': _header_kind(ap), 'window': 'full' if (ap[2], ap[5]) == (0, 23) else 'partial',
           'leap_mix': bool(dl) != bool(ap[7]), 'n': 'one' if len(data) == 1 else 'many'}
    moys = [m for m, _ in data]
    dup = len(set(moys)) != len(moys)
    coll = HourlyDiscontinuousCollection(_header(ap), [v for _, v in data], [_mk_dt(dl, m) for m, _ in data])
    try:
        v = coll.validate_analysis_period()
    except AssertionError as e:
        if dup:
            return None
        return {'required': 'validated collection', 'observed': 'AssertionError: %s' % e,
                'sig': dict(sig, fail='raise')}
    except Exception as e:
        return {'required': 'validated collection', 'observed': '%s: %s' % (type(e).__name__, e),
                'sig': dict(sig, fail='raise')}
    if dup:
        return {'required': 'duplicate datetimes rejected', 'observed': 'accepted', 'sig': dict(sig, fail='dup')}
    nap = v.header.analysis_period
    got = [(d.moy, bool(d.leap_year), x) for d, x in zip(v.datetimes, v.values)]
    if sorted(got) != sorted((m, bool(dl), x) for m, x in data) or len(v.values) != len(v.datetimes):
        return {'required': 'same (datetime, value) pairs', 'observed': str(got)[:300], 'sig': dict(sig, fail='pairs')}
    if not v.validated_a_period:
        return {'required': 'validated flag', 'observed': 'False', 'sig': dict(sig, fail='flag')}
    nleap = bool(nap.is_leap_year)
    ny = _ny(nleap)
    st = (_md_to_doy(nleap, nap.st_month, nap.st_day) - 1) * 1440 + nap.st_hour * 60
    keys = [(m - st) % ny for m, _, _ in got] if nap.is_reversed else [m for m, _, _ in got]
    if any(a >= b for a, b in zip(keys, keys[1:])):
        return {'required': 'chronological order from the period start', 'sig': dict(sig, fail='order'),
                'observed': '%s: %s' % (nap, [str(d) for d in v.datetimes][:12])}
    bad = [(str(d), _contains(nap, d.leap_year, d.moy)) for d in v.datetimes]
    bad = [b for b in bad if b[1]]
    if bad:
        causes = sorted(set(b[1] for b in bad))
        return {'required': 'every datetime is a step of the output period',
                'observed': '%s does not contain %s' % (nap, bad[:6]),
                'sig': dict(sig, fail='contain', cause='+'.join(causes))}
    hd = v.header
    if hd.unit != 'C' or hd.metadata != {'k': 'v'} or hd.data_type.name != 'Temperature':
        return {'required': 'header data type/unit/metadata kept', 'observed': str(hd), 'sig': dict(sig, fail='header')}
    return None


def _check_validate_keys(op, inp):
    import ladybug.datacollection as dc
    cls = {'validate_daily': dc.DailyCollection, 'validate_monthly': dc.MonthlyCollection,
           'validate_mph': dc.MonthlyPerHourCollection}[op]
    ap, data = inp['ap'], inp['data']
    keys = [tuple(k) if isinstance(k, list) else k for k, _ in data]
    sig = {'header': _header_kind(ap), 'n': 'one' if len(data) == 1 else 'many',
           'same_month': ap[0] == ap[3], 'window': 'full' if (ap[2], ap[5]) == (0, 23) else 'partial'}
    dup = len(set(keys)) != len(keys)
    coll = cls(_header(ap), [v for _, v in data], keys)
    try:
        v = coll.validate_analysis_period()
    except AssertionError as e:
        if dup:
            return None
        return {'required': 'validated collection', 'observed': 'AssertionError: %s' % e, 'sig': dict(sig, fail='raise')}
    except Exception as e:
        return {'required': 'validated collection', 'observed': '%s: %s' % (type(e).__name__, e),
                'sig': dict(sig, fail='raise')}
    if dup:
        return {'required': 'duplicates rejected', 'observed': 'accepted', 'sig': dict(sig, fail='dup')}
    nap = v.header.analysis_period
    got = list(zip(v.datetimes, v.values))
    if sorted(got) != sorted(zip(keys, [x for _, x in data])):
        return {'required': 'same (key, value) pairs', 'observed': str(got)[:300], 'sig': dict(sig, fail='pairs')}
    leap = bool(nap.is_leap_year)
    nd = 366 if leap else 365
    sdoy = _md_to_doy(leap, nap.st_month, nap.st_day)
    edoy = _md_to_doy(leap, nap.end_month, nap.end_day)
    if op == 'validate_daily':
        pos = [(k - sdoy) % nd for k in v.datetimes] if nap.is_reversed else list(v.datetimes)
        if nap.is_reversed and sdoy == edoy and pos and v.datetimes[-1] == sdoy:
            pos[-1] = nd              # a period that starts and ends on one day lists that day at both ends
        inside = [(1 <= k <= nd) and ((sdoy <= k <= edoy) if sdoy <= edoy and not nap.is_reversed
                                       else (k >= sdoy or k <= edoy)) for k in v.datetimes]
    elif op == 'validate_monthly':
        sm, em = nap.st_month, nap.end_month
        pos = [(k - sm) % 12 for k in v.datetimes] if nap.is_reversed else list(v.datetimes)
        inside = [(sm <= k <= em) if not nap.is_reversed else (k >= sm or k <= em) for k in v.datetimes]
    else:
        cause = 'other'
        sm, em, sh, eh = nap.st_month, nap.end_month, nap.st_hour, nap.end_hour
        pos = [(((k[0] - sm) % 12) if nap.is_reversed else k[0], k[1]) for k in v.datetimes]
        inside = []
        causes = set()
        for k in v.datetimes:
            mo_ok = (sm <= k[0] <= em) if not nap.is_reversed else (k[0] >= sm or k[0] <= em)
            h_ok = (sh <= k[1] <= eh) if sh <= eh else (k[1] >= sh or k[1] <= eh)
            grid_ok = k[2] % (60 // nap.timestep) == 0
            mi_ok = k[2] == 0 or k[1] != eh or (sh, eh) == (0, 23)
            inside.append(mo_ok and h_ok and grid_ok and mi_ok)
            if not (mo_ok and h_ok):
                causes.add('other')
            elif not grid_ok:
                causes.add('minute_grid')
            elif not mi_ok:
                causes.add('minute_after_end_hour')
        cause = '+'.join(sorted(causes))
    if op == 'validate_mph':
        pos = [p + (k[2],) for p, k in zip(pos, v.datetimes)]
        unordered = any(a >= b for a, b in zip(pos, pos[1:]))
    else:
        unordered = any(a >= b for a, b in zip(pos, pos[1:]))
    if unordered:
        return {'required': 'chronological order from the period start', 'sig': dict(sig, fail='order'),
                'observed': '%s: %s' % (nap, list(v.datetimes)[:14])}
    if not all(inside):
        if op == 'validate_mph':
            sig = dict(sig, cause=cause)
        return {'required': 'every key lies in the output period', 'sig': dict(sig, fail='contain'),
                'observed': '%s does not contain %s' % (nap, [k for k, ok in zip(v.datetimes, inside) if not ok][:8])}
    return None


def _check_holes(inp):
    from ladybug.datacollection import HourlyDiscontinuousCollection
    ap, data = inp['ap'], inp['data']
    leap = ap[7]
    steps = _full_day_steps(ap)
    pos = {m: i for i, m in enumerate(steps)}
    sig = {'header': _header_kind(ap), 'ts': 'hourly' if ap[6] == 1 else 'sub',
           'leading': data[0][0] != steps[0], 'via': inp.get('via', 'flag')}
    coll = HourlyDiscontinuousCollection(_header(ap), [float(v) for _, v in data],
                                         [_mk_dt(leap, m) for m, _ in data])
    if inp.get('via') == 'validate':
        coll = coll.validate_analysis_period()
        if _ap_fields(coll.header.analysis_period) != ap:
            return {'required': 'validation keeps a fitting header', 'observed': str(coll.header.analysis_period),
                    'sig': dict(sig, fail='validate')}
    else:
        coll._validated_a_period = True
    try:
        r = coll.interpolate_holes()
    except Exception as e:
        return {'required': 'continuous collection', 'observed': '%s: %s' % (type(e).__name__, e),
                'sig': dict(sig, fail='raise')}
    out = list(r.values)
    if len(out) != len(steps) or _ap_fields(r.header.analysis_period) != ap:
        return {'required': 'one value per step (%d)' % len(steps), 'observed': len(out), 'sig': dict(sig, fail='length')}
    src = sorted((pos[m], float(v)) for m, v in data)
    for i, v in src:
        if out[i] != v:
            return {'required': 'source value %r at step %d' % (v, i), 'observed': out[i], 'sig': dict(sig, fail='source')}
    idx = [i for i, _ in src]
    for k in range(len(steps)):
        if k < idx[0]:
            want = (src[0][1], src[0][1])
        elif k > idx[-1]:
            want = (src[-1][1], src[-1][1])
        else:
            import bisect
            j = bisect.bisect_right(idx, k)
            a, b = src[j - 1][1], (src[j][1] if j < len(src) else src[j - 1][1])
            if idx[j - 1] == k:
                continue
            want = (min(a, b), max(a, b))
        tol = 1e-9 * max(1.0, abs(want[0]), abs(want[1]))
        if not (want[0] - tol <= out[k] <= want[1] + tol):
            return {'required': 'value at step %d between %r and %r' % (k, want[0], want[1]), 'observed': out[k],
                    'sig': dict(sig, fail='between', where='lead' if k < idx[0] else 'trail' if k > idx[-1] else 'hole')}
    return None


def _check_interp(inp):
    """Time semantics from the statement: data are treated as cumulative when the caller says so
    (cumulative=True/False) or, by default, when the data type is cumulative – then the total is
    conserved; otherwise point-in-time types keep their values at the original steps and the other
    (averaged) types keep their mean."""
    from ladybug.datacollection import HourlyContinuousCollection
    ap, ts, kind, vals = inp['ap'], inp['ts'], inp['kind'], inp['vals']
    cum = inp.get('cum')
    native_cum, pit = _kind_flags(kind)
    as_cum = native_cum if cum is None else bool(cum)
    r = ts // ap[6]
    sig = {'kind': kind, 'type_cumulative': native_cum, 'type_point_in_time': pit,
           'cum_arg': 'default' if cum is None else str(bool(cum)),
           'source': 'hourly' if ap[6] == 1 else 'sub', 'header': _header_kind(ap)}
    coll = HourlyContinuousCollection(_header(ap, kind), [float(v) for v in vals])
    try:
        new = coll.interpolate_to_timestep(ts, cum)
    except Exception as e:
        return {'required': 'refined collection', 'observed': '%s: %s' % (type(e).__name__, e), 'sig': dict(sig, fail='raise')}
    out = list(new.values)
    if len(out) != len(vals) * r or new.header.analysis_period.timestep != ts:
        return {'required': '%d values at timestep %d' % (len(vals) * r, ts), 'observed': len(out), 'sig': dict(sig, fail='length')}
    if as_cum:
        a, b = sum(Fraction(x) for x in out), sum(Fraction(v) for v in vals)
        if abs(a - b) > Fraction(1, 10 ** 9) * max(1, abs(b), sum(abs(Fraction(v)) for v in vals)):
            return {'required': 'total %s' % float(b), 'observed': float(a), 'sig': dict(sig, fail='total')}
    elif pit:
        for k, v in enumerate(vals):
            if out[k * r] != float(v):
                return {'required': 'new[%d] == old[%d] == %r' % (k * r, k, v), 'observed': out[k * r], 'sig': dict(sig, fail='point')}
    else:
        a, b = sum(Fraction(x) for x in out) / len(out), sum(Fraction(v) for v in vals) / len(vals)
        if abs(a - b) > Fraction(1, 10 ** 9) * max(1, abs(b), max(abs(Fraction(v)) for v in vals)):
            return {'required': 'mean %s' % float(b), 'observed': float(a), 'sig': dict(sig, fail='mean')}
    return None


def _check_cull(inp):
    ap, dl, data, ts = inp['ap'], inp['dl'], inp['data'], inp['ts']
    sig = {'ts': ts, 'source_ts': ap[6], 'flavour': inp.get('flavour', 'sparse'),
           'pair': 'divisor' if ap[6] % ts == 0 else 'non_divisor'}
    want = [(m, x) for m, x in data if m % (60 // ts) == 0]
    for via in ('cull_to_timestep', 'convert_to_culled_timestep'):
        coll = _cull_source(inp)
        try:
            if via == 'cull_to_timestep':
                v = coll.cull_to_timestep(ts)
            else:
                coll.convert_to_culled_timestep(ts)
                v = coll
        except Exception as e:
            if via == 'cull_to_timestep' and isinstance(e, AssertionError) and not want:
                continue              # nothing is on the coarser grid: an empty collection cannot be built
            return {'required': 'culled collection', 'observed': '%s: %s' % (type(e).__name__, e),
                    'sig': dict(sig, fail='raise', via=via)}
        got = [(d.moy, x) for d, x in zip(v.datetimes, v.values)]
        if got != want:
            return {'required': 'exactly the steps on the %d-minute grid, in order' % (60 // ts),
                    'observed': str(got)[:300], 'sig': dict(sig, fail='kept', via=via)}
        na = _ap_fields(v.header.analysis_period)
        if na[6] != ts or na[:6] != ap[:6] or na[7] != ap[7]:
            return {'required': 'header timestep %d, period otherwise unchanged' % ts, 'observed': str(na),
                    'sig': dict(sig, fail='header', via=via)}
    return None


def check_case(op, inp):
    if op == 'validate_hourly':
        return _check_validate_hourly(inp)
    if op in ('validate_daily', 'validate_monthly', 'validate_mph'):
        return _check_validate_keys(op, inp)
    if op == 'holes':
        return _check_holes(inp)
    if op == 'interp':
        return _check_interp(inp)
    if op == 'cull':
        return _check_cull(inp)
    raise ValueError('unknown op ' + op)


replay = check_case


def _corpus():
    """Fixed corpus: the inputs of the repaired defects and of the recorded findings."""
    return [
        # single value (repaired: fixes/C13_single_value_validation.patch)
        ('validate_hourly', {'ap': [1, 1, 0, 12, 31, 23, 1, False], 'dl': False, 'data': [[246240, 1]], 'tag': 'ok'}),
        ('validate_hourly', {'ap': [6, 21, 6, 6, 21, 18, 1, False], 'dl': False, 'data': [[246240 + 1380, 1]], 'tag': 'ok'}),
        ('validate_daily', {'ap': [1, 1, 0, 12, 31, 23, 1, False], 'data': [[5, 1]]}),
        ('validate_monthly', {'ap': [1, 1, 0, 12, 31, 23, 1, False], 'data': [[3, 1]]}),
        ('validate_mph', {'ap': [1, 1, 0, 12, 31, 23, 1, False], 'data': [[[3, 4, 0], 1]]}),
        # mixed minute offsets :20 and :30 (repaired: validate_timestep_all_datetimes)
        ('validate_hourly', {'ap': [6, 21, 0, 6, 21, 23, 1, False], 'dl': False,
                             'data': [[246240 + 20, 1], [246240 + 90, 2]], 'tag': 'ok'}),
        # wrapping header, sub-hourly data in the last hour (repaired: validate_reversed_subhourly_tail)
        ('validate_hourly', {'ap': [12, 30, 0, 1, 2, 23, 2, False], 'dl': False,
                             'data': [[2 * 1440 - 30, 1], [363 * 1440, 2], [60, 3]], 'tag': 'ok'}),
        # recorded findings
        ('validate_hourly', {'ap': [6, 21, 0, 6, 21, 12, 4, False], 'dl': False,
                             'data': [[246840, 1], [247425, 2]], 'tag': 'ok'}),
        ('validate_hourly', {'ap': [12, 30, 0, 1, 2, 12, 1, False], 'dl': False,
                             'data': [[2340, 1], [217440, 2]], 'tag': 'ok'}),
        # sub-hourly keys: header timestep kept / repaired (repaired: monthly_keeps_timestep_leap, mph_fits_timestep)
        ('validate_mph', {'ap': [1, 1, 0, 12, 31, 23, 2, False], 'data': [[[3, 4, 30], 1], [[3, 4, 0], 2]]}),
        ('validate_mph', {'ap': [1, 1, 0, 12, 31, 23, 1, True], 'data': [[[3, 4, 20], 1], [[3, 4, 30], 2]]}),
        ('validate_mph', {'ap': [1, 1, 0, 6, 30, 12, 2, False], 'data': [[[3, 12, 30], 1], [[3, 4, 0], 2]]}),
        # wrapping header inside one month (repaired: monthly_wrapping_same_month)
        ('validate_monthly', {'ap': [1, 15, 0, 1, 14, 23, 1, False], 'data': [[1, 1], [2, 2], [7, 3], [10, 4], [11, 5]]}),
        ('validate_mph', {'ap': [7, 31, 0, 7, 30, 23, 1, False], 'data': [[[4, 23, 0], 1]]}),
        ('validate_mph', {'ap': [12, 30, 9, 1, 2, 9, 1, True], 'data': [[[5, 9, 0], 1], [[1, 23, 0], 2]]}),
        # a repeated (month, hour, minute) key separated by another minute (repaired: mph_sort_full_key)
        ('validate_mph', {'ap': [1, 1, 0, 12, 31, 23, 4, False],
                          'data': [[[5, 9, 0], 1], [[5, 9, 45], 2], [[5, 9, 0], 3]]}),
        # holes: data from the period start with an interior hole (repaired: interpolate_holes_first_hole)
        ('holes', {'ap': [1, 1, 0, 1, 1, 23, 1, False], 'validated': True, 'tag': 'interior',
                   'data': [[0, 0], [60, 10], [240, 40], [300, 50], [1380, 230]]}),
        # holes through the year end (repaired: interpolate_holes_year_wrap)
        ('holes', {'ap': [12, 31, 0, 1, 1, 23, 1, False], 'validated': True, 'tag': 'interior',
                   'data': [[364 * 1440 + 600, 10], [120, 40]]}),
        ('holes', {'ap': [12, 31, 0, 1, 1, 23, 1, False], 'validated': True, 'tag': 'leading',
                   'data': [[120, 40], [180, 50]]}),
        # culling a continuous / dense source to a timestep that does not divide the current one
        ('cull', {'ap': [7, 14, 0, 7, 14, 23, 6, False], 'dl': False, 'ts': 4, 'flavour': 'cont',
                  'data': [[(194 * 1440) + 10 * k, k + 1] for k in range(144)]}),
        ('cull', {'ap': [7, 14, 0, 7, 14, 23, 12, False], 'dl': False, 'ts': 5, 'flavour': 'cont',
                  'data': [[(194 * 1440) + 5 * k, k + 1] for k in range(288)]}),
        ('cull', {'ap': [7, 14, 0, 7, 14, 23, 3, False], 'dl': False, 'ts': 2, 'flavour': 'dense',
                  'data': [[(194 * 1440) + 20 * k, k + 1] for k in range(72)]}),
        # refinement of a sub-hourly source (repaired: interpolate_to_timestep_ratio)
        ('interp', {'ap': [1, 1, 0, 1, 1, 23, 2, False], 'ts': 4, 'kind': 'cumulative', 'cum': None,
                    'vals': [60 * k for k in range(48)], 'tag': 'ok'}),
        # every cumulative data type with the default cumulative=None, incl. those that are also point-in-time
        ('interp', {'ap': [6, 21, 0, 6, 21, 23, 1, False], 'ts': 4, 'kind': 'LiquidPrecipitationDepth', 'cum': None,
                    'vals': [60 * (k % 5) for k in range(24)], 'tag': 'ok'}),
        ('interp', {'ap': [6, 21, 0, 6, 21, 23, 2, False], 'ts': 6, 'kind': 'Volume', 'cum': None,
                    'vals': [36 * (k % 7) for k in range(48)], 'tag': 'ok'}),
        ('interp', {'ap': [6, 21, 0, 6, 21, 23, 1, False], 'ts': 2, 'kind': 'Mass', 'cum': None,
                    'vals': [10 * (k % 3) for k in range(24)], 'tag': 'ok'}),
        ('interp', {'ap': [6, 21, 0, 6, 21, 23, 1, False], 'ts': 2, 'kind': 'Temperature', 'cum': True,
                    'vals': [10 * (k % 3) for k in range(24)], 'tag': 'ok'}),
        ('interp', {'ap': [6, 21, 0, 6, 21, 23, 1, False], 'ts': 2, 'kind': 'Energy', 'cum': False,
                    'vals': [10 * (k % 3) for k in range(24)], 'tag': 'ok'}),
        ('interp', {'ap': [1, 1, 0, 1, 1, 23, 1, False], 'ts': 3, 'kind': 'averaged', 'cum': None,
                    'vals': [3600 * (k % 7) for k in range(24)], 'tag': 'ok'}),
    ]


def _oracle_cases(ctx):
    rng = ctx.rng
    big = ctx.searching or not ctx.quick
    for op, c in _corpus():
        yield op, c
    for c in _gen_validate_hourly(ctx, 8000 if big else 1300):
        if c['tag'] in ('empty',):
            continue
        if c['tag'] == 'leap_mix':
            continue                       # outside the quantifier (header with the wrong leap flag)
        yield 'validate_hourly', {'ap': c['ap'], 'dl': c['dl'], 'data': c['data']}
    for kind, op in (('daily', 'validate_daily'), ('monthly', 'validate_monthly'), ('mph', 'validate_mph')):
        for c in _gen_keys(ctx, kind, 3000 if big else 500):
            if c['tag'] in ('empty', 'bad_key'):
                continue
            if kind == 'daily' and not c['ap'][7] and any(k == 366 for k, _ in c['data']):
                continue                   # header with the wrong leap flag: outside the quantifier
            yield op, {'ap': c['ap'], 'data': c['data']}
    for c in _gen_holes(ctx, 2000 if big else 400):
        if c['tag'] in ('not_validated', 'window'):
            continue
        via = 'validate' if rng.random() < 0.4 else 'flag'
        data = list(c['data'])
        if via == 'validate' and _header_kind(c['ap']) != 'annual':
            # validation keeps a header that already fits when the first and the last day hold data
            rng.shuffle(data)
        elif via == 'validate':
            rng.shuffle(data)
        yield 'holes', {'ap': c['ap'], 'data': c['data'] if via == 'flag' else data, 'via': via}
    # every data type x cumulative=None/True/False on one small day (deterministic sweep)
    for i, name in enumerate(_all_type_names()):
        src = [1, 2, 3][i % 3]
        tgt = {1: [2, 3, 4], 2: [4, 6], 3: [6, 12]}[src][i % 2]
        nv = 24 * src
        for cum in (None, True, False):
            yield 'interp', {'ap': [6, 21, 0, 6, 21, 23, src, False], 'ts': tgt, 'kind': name, 'cum': cum,
                             'vals': [3600 * ((k * 7 + i) % 11) for k in range(nv)]}
    for c in _gen_interp(ctx, 1500 if big else 350):
        if c['tag'] != 'ok':
            continue
        yield 'interp', {'ap': c['ap'], 'ts': c['ts'], 'kind': c['kind'], 'cum': c['cum'], 'vals': c['vals']}
    for c in _gen_cull(ctx, 3000 if big else 400):
        if c['tag'] != 'ok':
            continue
        yield 'cull', {'ap': c['ap'], 'dl': c['dl'], 'data': c['data'], 'ts': c['ts'], 'flavour': c['flavour']}


def oracle(ctx):
    """Like core.run_oracle_cases, but a recorded finding is reported through its first three failing
    inputs only: the generated stream hits the findings hundreds of times, and the core stops
    searching after 200 failures."""
    import json
    from harness import core
    known = core.load_known(PROP)
    seen = {}
    with contextlib.redirect_stdout(io.StringIO()):
        for op, inp in _oracle_cases(ctx):
            if len(ctx.failures) >= 200:
                break
            try:
                res = check_case(op, inp)
            except Exception as e:
                res = {'required': 'oracle evaluates', 'observed': 'exception %s: %s' % (type(e).__name__, e),
                       'sig': {'exception': type(e).__name__}}
            ctx.count('oracle:' + op)
            ctx.case((op, json.dumps(inp, sort_keys=True, default=str)))
            if res:
                sig = dict(res.get('sig') or {}, op=op)
                hit = next((k['id'] for k in known if core.matches(sig, k)), None)
                if hit is not None:
                    seen[hit] = seen.get(hit, 0) + 1
                    ctx.count('known_finding:' + hit)
                    if seen[hit] > 3:
                        continue
                ctx.fail(op, inp, res.get('required'), res.get('observed'), res.get('sig'))
            elif ctx.evaluations % 997 == 1:
                ctx.sample({'oracle': op, 'input': inp}, limit=12)


LEVEL_TEXT = ('Machine-checked Lean 4 theorems over an executable model of the validation, hole-filling and '
              'resampling code of datacollection.py: see Props/C13.lean (every clause of the statement is '
              'listed there as proved, proved in part, or compared only). The model is compared with the '
              'real classes on boundary-biased generated collections on every run.')
LEVEL_NOTE = ('Trusted: Lean kernel; axioms propext/Classical.choice/Quot.sound only; the hand-written model '
              '(tied by the correspondence run on generated inputs only); the C04/C08 models it builds on; '
              'float interpolation compared within 1e-9, theorems over exact rationals. The model describes '
              'the code with the ten fixes/C13_*.patch repairs.')
TECHNIQUE = ('Lean 4 proof (permutation/sortedness of merge sort and rotation, C04 membership predicate of the '
             'output period, equally spaced cyclic step grid + induction over the hole list, telescoping sums over Rat) about a model tied to datacollection.py by differential correspondence')
