"""C16 — Design days are self-consistent and survive the IDF/DDY round trip.

Model: lean/Ladybug/Model/DesignDay.lean (+ Model/Psychro.lean for the humidity profile, Model/Cal.lean for
dates); theorems: lean/Ladybug/Props/C16.lean; driver: drv_c16.
Tie: translator (Gen/DesignDayTables from designday.py: multipliers, key lists, IDF layout of to_idf and
from_idf, the day offset of start_moy) + correspondence on the ops below.
"""
import math
import os
import re
import shutil
import struct
import tempfile
from datetime import datetime, timedelta

from harness import core
from harness.core import compare_batch, err_name, run_oracle_cases

PROP = 'C16'
PROOF_MODULES = ['Ladybug.Props.C16']
GREP_MODULES = ['Ladybug.Model.DesignDay', 'Ladybug.Gen.DesignDayTables', 'Ladybug.Proofs.C16Lemmas', 'Ladybug.Proofs.C16Idf',
                'Ladybug.Drv.C16', 'Ladybug.Model.Psychro', 'Ladybug.Model.Cal', 'Ladybug.Py',
                'Ladybug.DrvCore', 'Ladybug.Transc', 'Ladybug.RealInst']
RULE = ('correspondence: design days built from plain numbers (every date of the year for the date ops, '
        '1 Jan / 28 Feb / 31 Dec / the 21st of each month biased elsewhere; dry bulb -40..55, range 0..25; 4 '
        'humidity types x consistent and inconsistent values; 3 sky classes x parameters; rain/snow/daylight '
        'saving flags; int and float spellings), the objects of the 5 shipped .ddy files, ~15 % malformed IDF '
        'texts (truncated, wrong numbers, wrong enums); oracle: the statement evaluated on the real classes '
        '(profile extremes, dew<=db, rh range, dates of every hourly series, radiation recomputed through '
        'Sunpath for the stated date, IDF and DDY round trips, header/EPW-derived days against the header '
        'dictionary and an independent percentile of the raw EPW rows); a case is non-trivial when the '
        'implementation returns a value; distinct = distinct (op, input)')
TRUSTED_BASE = [
    'translator tools/extract/designday_tables.py: copies HOURLY_MULTIPLIERS, the key lists, the ep_vals '
    'layout of to_idf, the ep_fields indices/guards of from_idf and the day offset of start_moy',
    'fields of the IDF layer are abstract tokens: the laws float(str(x)) == x, int(str(n)) == n, '
    "'Yes'.lower() == 'yes', str(x) != '' (structure TokLaws) are assumed of Python's str/float/int "
    '(exercised by the to_idf/from_idf correspondence on random floats)',
    'character level of the IDF text (padding, comment stripping by regex, split/strip, the DDY object regex) '
    'is an executable model tied by correspondence only; theorems are at field-list level',
    'radiation values: not modelled (C05/C10 own the sun position and sky models); the oracle recomputes '
    'them on the real code through Sunpath for the stated date',
    'IEEE evaluation of i * (1 / timestep) * 60 in _get_datetimes: executed by the driver in double '
    'arithmetic; the theorem is about exact arithmetic plus a general lemma for any offset inside the day '
    '(driver op sky_float_in_day checks the IEEE offsets stay inside the day for every day of the year)',
    'EPW/STAT-derived days: from_ashrae_dict_* modelled; approximate_design_day / monthly_cooling_design_days '
    'are checked by the oracle only (independent percentile / means of the raw EPW rows)',
]
ASSUMPTIONS = [
    'design-day dates are dates of the non-leap year (the IDF form carries month and day only)',
    'names and schedule names contain no comma, semicolon, exclamation mark or newline and no leading/'
    'trailing blanks (the IDF form cannot carry them)',
    'physically consistent inputs: humidity value not above saturation at the maximum dry bulb, range >= 0',
]

ASSETS = None


def _assets():
    global ASSETS
    if ASSETS is None:
        ASSETS = os.path.join(core.REPO, 'tests', 'assets')
    return ASSETS


def extract(ctx):
    from tools.extract import designday_tables
    ctx.tables = designday_tables.extract()


# ---------------------------------------------------------------------------------------------
# wire helpers


def _fbits(x):
    return '%016x' % struct.unpack('<Q', struct.pack('<d', float(x)))[0]


def _unbits(s):
    return struct.unpack('<d', struct.pack('<Q', int(s, 16)))[0]


def _b(x):
    return '1' if x else '0'


def _x(s):
    return 'x' + s.encode('utf-8').hex()


def _unx(t):
    return bytes.fromhex(t[1:]).decode('utf-8')


def _n(v):
    return 'n' + str(v).encode('utf-8').hex()


def _canon(line):
    """Normalise number tokens (`n<hex of text>`) to the repr of their float value."""
    if not line.startswith('ok'):
        return line
    out = []
    for t in line.split(' '):
        if t.startswith('n') and len(t) > 1 and all(c in '0123456789abcdef' for c in t[1:]):
            try:
                out.append('n' + repr(float(bytes.fromhex(t[1:]).decode('utf-8'))))
            except ValueError:
                out.append(t)
        else:
            out.append(t)
    return ' '.join(out)


DAY_TYPES = ('SummerDesignDay', 'WinterDesignDay', 'Sunday', 'Monday', 'Tuesday', 'Wednesday', 'Thursday',
             'Friday', 'Holiday', 'CustomDay1', 'CustomDay2')
HUM_TYPES = ('Wetbulb', 'Dewpoint', 'HumidityRatio', 'Enthalpy')
MONTH_LEN = (31, 28, 31, 30, 31, 30, 31, 31, 30, 31, 30, 31)
TIMESTEPS = (1, 2, 3, 4, 5, 6, 10, 12, 15, 20, 30, 60)


# ---------------------------------------------------------------------------------------------
# generators (plain numbers only; nothing of ladybug is used to build inputs)


def _sat_p(t):
    """Magnus saturation pressure (Pa) – only used to make consistent inputs."""
    if t < 0:
        return 611.21 * math.exp(22.587 * t / (t + 273.86))        # over ice
    return 610.94 * math.exp(17.625 * t / (t + 243.04))


def _humidity_value(rng, h_type, db, p, consistent=True):
    rh = rng.choice([100.0, 12.0, 50.0]) if rng.random() < 0.2 else rng.uniform(10, 100)
    if h_type == 'Wetbulb' and db < 2 and rh < 30:
        rh = rng.uniform(30, 100)          # keep clear of the dry corner where psychrometer formulas differ
    pw = _sat_p(db) * rh / 100.0
    g = math.log(pw / 610.94)
    dew = 243.04 * g / (17.625 - g)
    if dew < 0:
        g = math.log(pw / 611.21)
        dew = 273.86 * g / (22.587 - g)
    dew = min(dew, db)
    hr = 0.621945 * pw / (p - pw)
    if h_type == 'Dewpoint':
        v = dew if consistent else db + rng.uniform(0.5, 10)
    elif h_type == 'Wetbulb':
        # a wet bulb between dew point and dry bulb is always a physically possible state
        lo, hi = dew, db
        for _ in range(40):
            mid = (lo + hi) / 2.0
            if _sat_p(mid) - 0.000662 * p * (db - mid) < pw:
                lo = mid
            else:
                hi = mid
        v = (lo + hi) / 2.0 if rh < 100 else db
        if not consistent:
            v = db + rng.uniform(0.5, 8)
    elif h_type == 'HumidityRatio':
        v = hr if consistent else hr * 3 + 0.05
    else:
        v = 1000.0 * (1.006 * db + hr * (2501.0 + 1.86 * db))
        if v < 0:
            v = 0.0 if db >= 0 else v
        if not consistent:
            v = v * 3 + 80000.0
    return v


def _num(rng, x):
    """int spelling for whole numbers half of the time, otherwise float (maybe rounded)."""
    r = rng.random()
    if r < 0.25:
        return int(round(x))
    if r < 0.6:
        return round(x, rng.choice([1, 2, 4]))
    return float(x)


def _name(rng):
    words = ['Chicago', 'Ohare', 'Intl', 'Ap', 'Ann', 'Htg', '99.6%', 'Condns', 'DB', 'DB=>MWB', 'Clg', '.4%',
             'Tokyo', 'Sao', 'Paulo', 'Zuerich', 'a b', 'WS=>MDB', '1%']
    n = ' '.join(rng.choice(words) for _ in range(rng.randrange(1, 6)))
    if rng.random() < 0.05:
        n = 'Zürich ' + n
    if rng.random() < 0.05:
        n = n + ' ' + 'x' * rng.randrange(50, 70)        # longer than the 60-column padding
    return n


def _date(rng):
    r = rng.random()
    if r < 0.3:
        return rng.choice([(1, 1), (12, 31), (2, 28), (3, 1), (1, 2), (12, 30), (6, 30), (7, 31)])
    if r < 0.6:
        return rng.randrange(1, 13), 21
    m = rng.randrange(1, 13)
    return m, rng.randrange(1, MONTH_LEN[m - 1] + 1)


def _rand_desc(rng, consistent=True, sky=None, h_type=None):
    db = rng.uniform(-40, 55) if rng.random() < 0.8 else rng.choice([-40.0, 0.0, 55.0, 35.0])
    rngv = rng.choice([0, 0.0, 25.0, 10.5]) if rng.random() < 0.3 else rng.uniform(0, 25)
    p = rng.choice([101325, 60000.0, 105000.0]) if rng.random() < 0.3 else rng.uniform(60000, 105000)
    db, p = _num(rng, db), _num(rng, p)
    h_type = h_type or rng.choice(HUM_TYPES)
    if h_type == 'Enthalpy' and consistent and db < 5:
        # ladybug clips enthalpy at 0 (reference 0 C): sub-zero enthalpy states cannot be expressed
        h_type = rng.choice(HUM_TYPES[:3])
    hv = _humidity_value(rng, h_type, float(db), float(p), consistent)
    m, d = _date(rng)
    sky = sky or rng.choice(['clear', 'clear', 'tau', 'tau', 'base'])
    if sky == 'clear':
        c = rng.choice([0, 1, 1.2, 0.0, 1.0, 0.5]) if rng.random() < 0.4 else round(rng.uniform(0, 1.2), 3)
        skyd = ['clear', c]
    elif sky == 'tau':
        skyd = ['tau', round(rng.uniform(0.2, 0.8), 3), round(rng.uniform(1.5, 2.8), 3), rng.random() < 0.5]
    else:
        skyd = ['base', rng.choice(['', 'BeamSch', 'beam sched 1']), rng.choice(['', 'DiffSch', 'diff sched'])]
    mod = rng.random() < 0.2
    return {
        'name': _name(rng), 'day_type': rng.choice(DAY_TYPES[:2]) if rng.random() < 0.7 else rng.choice(DAY_TYPES),
        'db_max': db, 'db_range': _num(rng, rngv) if rngv else rngv,
        'mod_type': rng.choice(['MultiplierSchedule', 'DifferenceSchedule']) if mod else 'DefaultMultipliers',
        'mod_sched': 'RangeSch' if mod else '',
        'h_type': h_type, 'h_value': hv, 'pressure': p,
        'rain': rng.random() < 0.3, 'snow': rng.random() < 0.3,
        'sched': 'HumSch' if rng.random() < 0.15 else '',
        'wbr': None if rng.random() < 0.85 else round(rng.uniform(0, 8), 1),
        'ws': _num(rng, rng.uniform(0, 15)), 'wd': rng.choice([0, 360, 180, 90.0]) if rng.random() < 0.3
        else _num(rng, rng.uniform(0, 360)),
        'month': m, 'day': d, 'dst': rng.random() < 0.35, 'sky': skyd,
    }


def _rand_loc(rng):
    lat = rng.choice([0, -33.9, 41.98, 64.1, -77.85, 35.68]) if rng.random() < 0.5 else round(rng.uniform(-89, 89), 2)
    lon = rng.choice([0, 151.2, -87.92, -21.9, 166.7, 139.77]) if rng.random() < 0.5 else round(rng.uniform(-179, 179), 2)
    tz = max(-12, min(14, round(lon / 15)))
    if rng.random() < 0.3:
        tz = float(tz) + rng.choice([0.0, 0.5])
        tz = max(-12.0, min(14.0, tz))
    return {'city': rng.choice(['Chicago Ohare Intl Ap', 'Sydney', 'X', 'Reykjavik', 'McMurdo', 'Tokyo Hyakuri']),
            'lat': lat, 'lon': lon, 'tz': tz, 'elev': rng.choice([0, 201.0, -5.5, 1609])}


def _build_loc(ld):
    from ladybug.location import Location
    return Location(ld['city'], None, None, ld['lat'], ld['lon'], ld['tz'], ld['elev'])


def _build(desc, loc=None):
    from ladybug.designday import (DesignDay, DryBulbCondition, HumidityCondition, WindCondition,
                                   ASHRAEClearSky, ASHRAETau, _SkyCondition)
    from ladybug.dt import Date
    from ladybug.location import Location
    date = Date(desc['month'], desc['day'], bool(desc.get('leap', False)))
    s = desc['sky']
    if s[0] == 'clear':
        sky = ASHRAEClearSky(date, s[1], desc['dst'])
    elif s[0] == 'tau':
        sky = ASHRAETau(date, s[1], s[2], s[3], desc['dst'])
    else:
        sky = _SkyCondition(date, desc['dst'], s[1], s[2])
    hum = HumidityCondition(desc['h_type'], desc['h_value'], desc['pressure'], desc['rain'], desc['snow'],
                            desc['sched'], '' if desc['wbr'] is None else desc['wbr'])
    return DesignDay(desc['name'], desc['day_type'], loc or Location(),
                     DryBulbCondition(desc['db_max'], desc['db_range'], desc['mod_type'], desc['mod_sched']),
                     hum, WindCondition(desc['ws'], desc['wd']), sky)


def _dd_tokens(desc):
    s = desc['sky']
    if s[0] == 'clear':
        sky = ['clear', _x(str(s[1])), 'x', '0']
    elif s[0] == 'tau':
        sky = ['tau', _x(str(s[1])), _x(str(s[2])), _b(s[3])]
    else:
        sky = ['base', _x(s[1]), _x(s[2]), '0']
    return [_x(desc['name']), _x(desc['day_type']), _x(str(desc['db_max'])), _x(str(desc['db_range'])),
            _x(desc['mod_type']), _x(desc['mod_sched']), desc['h_type'], _x(str(desc['h_value'])),
            _x(str(desc['pressure'])), _b(desc['rain']), _b(desc['snow']), _x(desc['sched']),
            '-' if desc['wbr'] is None else _x(str(desc['wbr'])), _x(str(desc['ws'])), _x(str(desc['wd'])),
            str(desc['month']), str(desc['day']), _b(desc.get('leap', False)), _b(desc['dst'])] + sky


def _loc_tokens(ld):
    """The numbers as the Location constructor stores them (`0 if not v else float(v)`; `float(v)`)."""
    def ll(v):
        return 0 if not v else float(v)
    return [_x(ld['city']), _x(str(ll(ld['lat']))), _x(str(ll(ld['lon']))), _x(str(float(ld['tz']))),
            _x(str(float(ld['elev'])))]


def _show_dd(dd):
    """A real DesignDay in the model's output format."""
    from ladybug.designday import ASHRAEClearSky, ASHRAETau
    sc = dd.sky_condition
    if type(sc) is ASHRAEClearSky:
        sky = ['clear', _n(sc.clearness)]
    elif type(sc) is ASHRAETau:
        sky = ['tau', _n(sc.tau_b), _n(sc.tau_d), _b(sc.use_2017)]
    else:
        sky = ['base', _x(sc.beam_schedule), _x(sc.diffuse_schedule)]
    h = dd.humidity_condition
    wbr = '-' if h.wet_bulb_range == '' else _n(h.wet_bulb_range)
    return ' '.join([_x(dd.name), _x(dd.day_type), _n(dd.dry_bulb_condition.dry_bulb_max),
                     _n(dd.dry_bulb_condition.dry_bulb_range), _x(dd.dry_bulb_condition.modifier_type),
                     _x(dd.dry_bulb_condition.modifier_schedule), h.humidity_type, _n(h.humidity_value),
                     _n(h.barometric_pressure), _b(h.rain), _b(h.snow_on_ground), _x(h.schedule), wbr,
                     _n(dd.wind_condition.wind_speed), _n(dd.wind_condition.wind_direction),
                     str(sc.date.month), str(sc.date.day), _b(sc.date.leap_year), _b(sc.daylight_savings)] + sky)


def _show_loc(loc):
    return ' '.join([_x(loc.city), _n(loc.latitude), _n(loc.longitude), _n(loc.time_zone), _n(loc.elevation)])


_DDAY_P = re.compile(r"(SizingPeriod:DesignDay,(.|\n)*?((;\s*!)|(;\s*\n)|(;\n)))")


def _shipped_ddy_texts():
    out = []
    ddir = os.path.join(_assets(), 'ddy')
    for fn in sorted(os.listdir(ddir)):
        if fn.lower().endswith('.ddy'):
            with open(os.path.join(ddir, fn), encoding='utf-8', errors='ignore') as f:
                out.append((fn, f.read()))
    return out


def _good_idf_text(rng, desc):
    """An IDF object text written by the harness itself (EnergyPlus style), not by to_idf."""
    s = desc['sky']
    vals = [desc['name'], desc['month'], desc['day'], desc['day_type'], desc['db_max'], desc['db_range'],
            desc['mod_type'], desc['mod_sched'], desc['h_type'], '', desc['sched'], '', '',
            '' if desc['wbr'] is None else desc['wbr'], desc['pressure'], desc['ws'], desc['wd'],
            'Yes' if desc['rain'] else 'No', 'Yes' if desc['snow'] else 'No', 'Yes' if desc['dst'] else 'No']
    if desc['h_type'] in ('Wetbulb', 'Dewpoint'):
        vals[9] = desc['h_value']
    elif desc['h_type'] == 'HumidityRatio':
        vals[11] = desc['h_value']
    else:
        vals[12] = desc['h_value']
    if s[0] == 'clear':
        vals += ['ASHRAEClearSky', '', '', '', '', s[1]]
    elif s[0] == 'tau':
        vals += ['ASHRAETau2017' if s[3] else 'ASHRAETau', '', '', s[1], s[2]]
    else:
        vals += [rng.choice(['Schedule', 'ZhangHuang']), s[1], s[2]]
    return vals


def _render(rng, vals, style=None):
    style = style or rng.choice(['lines', 'lines', 'compact', 'nocomment'])
    if rng.random() < 0.3:
        vals = [('YES' if v == 'Yes' else 'no' if v == 'No' else v) for v in vals]
    if style == 'compact':
        return 'SizingPeriod:DesignDay, ' + ', '.join(str(v) for v in vals) + ';'
    out = ['SizingPeriod:DesignDay,\n']
    for i, v in enumerate(vals):
        sep = ';' if i == len(vals) - 1 else ','
        cm = '' if style == 'nocomment' else '    !- field %d' % (i + 1)
        out.append('    %s%s%s\n' % (v, sep, cm))
    return ''.join(out)


def _malformed(rng, vals):
    vals = list(vals)
    kind = rng.choice(['truncate', 'truncate', 'badnum', 'badtype', 'baddaytype', 'baddate', 'neg', 'winddir',
                       'clear', 'head', 'swapflag'])
    if kind == 'truncate':
        vals = vals[:rng.randrange(0, len(vals))]
    elif kind == 'badnum':
        vals[rng.choice([4, 5, 14, 15, 16])] = rng.choice(['abc', '', '1.2.3', 'Yes'])
    elif kind == 'badtype':
        vals[8] = rng.choice(['WetBulb', 'RelativeHumidity', ''])
    elif kind == 'baddaytype':
        vals[3] = rng.choice(['summerdesignday', 'Saturday', ''])
    elif kind == 'baddate':
        vals[1], vals[2] = rng.choice([(2, 30), (13, 1), (0, 5), (4, 31), ('7.0', 21), (2, 29)])
    elif kind == 'neg':
        vals[5] = -1.5
    elif kind == 'winddir':
        vals[16] = rng.choice([361, -0.5, 360.0])
    elif kind == 'clear' and len(vals) > 25:
        vals[25] = rng.choice([1.3, -0.1, 1.2])
    elif kind == 'swapflag':
        vals[17], vals[19] = vals[19], vals[17]
    text = _render(rng, vals)
    if kind == 'head':
        text = text.replace('SizingPeriod:DesignDay', rng.choice(['SizingPeriod:WeatherFileDays', 'Site:Location']), 1)
    return kind, text


# ---------------------------------------------------------------------------------------------
# correspondence


def _floats_line(vals):
    if any(isinstance(v, float) and (math.isnan(v) or math.isinf(v)) for v in vals):
        return 'nonfinite'
    return 'ok ' + ' '.join(_fbits(v) for v in vals)


def _close_floats(tol):
    def canon(line):
        if not line.startswith('ok '):
            return line
        return 'ok ' + ' '.join('%.*e' % (tol, _unbits(t)) for t in line[3:].split(' '))
    return canon


def correspondence(ctx):
    import contextlib
    import io
    rng = ctx.rng
    tmp = tempfile.mkdtemp(prefix='c16_')
    try:
        with contextlib.redirect_stdout(io.StringIO()):
            _correspondence(ctx, rng, tmp)
    finally:
        shutil.rmtree(tmp, ignore_errors=True)


def _correspondence(ctx, rng, tmp):
    from ladybug.designday import (DesignDay, DryBulbCondition, HumidityCondition, ASHRAEClearSky, ASHRAETau,
                                   _SkyCondition)
    from ladybug.dt import Date
    from ladybug.location import Location
    from ladybug.ddy import DDY

    # --- dry-bulb profile (bit exact)
    cases = [(55.0, 25.0), (-40.0, 0.0), (0.0, 0.0), (35, 10), (30.5, 11.3)]
    for _ in range(ctx.n(400, 5000)):
        cases.append((rng.uniform(-40, 55), rng.choice([0.0, rng.uniform(0, 25), float(rng.randrange(0, 26))])))
    compare_batch(ctx, 'db', cases, lambda c: 'db %s %s' % (_fbits(c[0]), _fbits(c[1])),
                  lambda c: _floats_line(DryBulbCondition(c[0], c[1]).hourly_values), key=lambda c: repr(c))

    # --- humidity profile (dew point + relative humidity, 1e-9 relative)
    cases = []
    for _ in range(ctx.n(300, 4000)):
        d = _rand_desc(rng, consistent=rng.random() < 0.85)
        cases.append((d['h_type'], float(d['h_value']), float(d['pressure']), float(d['db_max']), float(d['db_range'])))
        ctx.count('hum:' + d['h_type'])

    from ladybug.psychrometrics import rel_humid_from_db_dpt
    lines = ['hum %s %s' % (c[0], ' '.join(_fbits(x) for x in c[1:])) for c in cases]
    outs = ctx.driver().run(lines)
    canon = _close_floats(9)
    for c, line, mo in zip(cases, lines, outs):
        try:
            h = HumidityCondition(c[0], c[1], c[2])
            db = DryBulbCondition(c[3], c[4])
            dp = h.hourly_dew_point_values(db)
            rh = [rel_humid_from_db_dpt(x, y) for x, y in zip(db.hourly_values, dp)]
            io = _floats_line(dp + rh)
        except ZeroDivisionError:
            # exact pole of the saturation formula (dew point -273.15 C): IEEE inf is squashed back to a
            # finite value in the model (see C09); not comparable
            ctx.count('hum_zero_division_skipped')
            continue
        except (ValueError, OverflowError):
            io = 'nonfinite'
        ctx.compared += 1
        ctx.count('op:hum')
        ctx.case(('hum', line), nontrivial=io.startswith('ok'))
        if canon(mo) != canon(io):
            ctx.disagree('hum', {'case': list(c), 'line': line}, mo, io)
    if cases:
        ctx.sample({'op': 'hum', 'request': lines[0], 'model': outs[0][:80]})

    # --- sky cover
    cases = [0.0, 1.0, 1.2, 0.5, 1.0000001, 0.9999999] + [rng.uniform(0, 1.2) for _ in range(ctx.n(50, 500))]
    compare_batch(ctx, 'cover', cases, lambda c: 'cover ' + _fbits(c),
                  lambda c: _floats_line([float(v) for v in ASHRAEClearSky(Date(1, 1), c).hourly_sky_cover]),
                  key=repr)

    # --- hourly_datetimes / _get_datetimes for every date of the year
    dates = [(False, m + 1, d) for m in range(12) for d in range(1, MONTH_LEN[m] + 1)]
    dates += [(True, m, d) for (m, d) in ((1, 1), (2, 28), (2, 29), (3, 1), (12, 30), (12, 31), (7, 21))]
    loc0 = Location()

    def mk(c, dst=False):
        return ASHRAEClearSky(Date(c[1], c[2], c[0]), 1, dst)

    def impl_hdts(c):
        dd = DesignDay('n', 'SummerDesignDay', loc0, DryBulbCondition(30, 10), HumidityCondition('Wetbulb', 20),
                       __import__('ladybug.designday', fromlist=['WindCondition']).WindCondition(2, 0), mk(c))
        return 'ok ' + ' '.join(str(x.moy) for x in dd.hourly_datetimes)

    compare_batch(ctx, 'hdts', dates, lambda c: 'hdts %s %d %d' % (_b(c[0]), c[1], c[2]), impl_hdts)
    scases = []
    for c in dates:
        pick = c[1:] in ((1, 1), (1, 2), (12, 31), (12, 30), (2, 28), (3, 1), (7, 21)) or not ctx.quick
        tss = TIMESTEPS if pick else (1, rng.choice(TIMESTEPS))
        for ts in tss:
            for dst in (False, True):
                scases.append((c[0], c[1], c[2], dst, ts))
    for ts in (7, 9, 24):
        scases.append((False, 1, 1, False, ts))
        scases.append((False, 6, 21, True, ts))
    compare_batch(ctx, 'sdts', scases, lambda c: 'sdts %s %d %d %s %d' % (_b(c[0]), c[1], c[2], _b(c[3]), c[4]),
                  lambda c: 'ok ' + ' '.join(str(x.moy) for x in mk(c, c[3])._get_datetimes(c[4])))
    # where does IEEE truncation differ from exact arithmetic?  (recorded, not an error)
    drv = ctx.driver()
    ex = drv.run(['sdts_exact %s %d %d %s %d' % (_b(c[0]), c[1], c[2], _b(c[3]), c[4]) for c in scases])
    fl = drv.run(['sdts %s %d %d %s %d' % (_b(c[0]), c[1], c[2], _b(c[3]), c[4]) for c in scases])
    ctx.count('sdts_ieee_differs_from_exact', sum(1 for a, b in zip(ex, fl) if a != b))
    ind = drv.run(['sky_float_in_day %d' % ts for ts in TIMESTEPS])
    for ts, o in zip(TIMESTEPS, ind):
        ctx.compared += 1
        if o != 'ok 1':
            ctx.disagree('sky_float_in_day', {'timestep': ts}, o, 'ok 1 (IEEE offsets stay inside the day)')

    # --- to_idf (text, exact) and the model's own field-level round trip
    descs = [_rand_desc(rng) for _ in range(ctx.n(400, 6000))]
    for d in descs:
        ctx.count('sky:' + d['sky'][0])
        ctx.count('dd_hum:' + d['h_type'])
    compare_batch(ctx, 'to_idf', descs, lambda d: 'to_idf ' + ' '.join(_dd_tokens(d)),
                  lambda d: 'ok ' + _x(_build(d).to_idf()), key=lambda d: repr(sorted(d.items())))

    # --- the model's own field-level round trip (a test of the model, labelled as such): equal for every
    #     non-Schedule sky without wet-bulb range; the two recorded defects show as 'err:value' / unequal
    outs = ctx.driver().run(['roundtrip ' + ' '.join(_dd_tokens(d)) for d in descs])
    for d, o in zip(descs, outs):
        ctx.compared += 1
        ctx.subclaim('model_field_roundtrip', True)
        if d['sky'][0] == 'base':
            want = o == 'err:value'
        elif d['wbr'] is not None:
            want = o.startswith('ok 0 ')
        else:
            want = o.startswith('ok 1 ')
        if not want:
            ctx.disagree('roundtrip', {'desc': d}, o, 'model round trip: equal / recorded defect')

    # --- from_idf: texts written by to_idf, by the harness, shipped objects, malformed
    texts = []
    for d in descs[:ctx.n(250, 3000)]:
        if d['sky'][0] != 'base':                 # to_idf of a plain _SkyCondition is not parseable (finding)
            texts.append(('written', _build(d).to_idf()))
        else:
            texts.append(('written_base', _build(d).to_idf()))
    for d in descs[:ctx.n(250, 3000)]:
        vals = _good_idf_text(rng, d)
        texts.append(('harness', _render(rng, vals)))
        if rng.random() < 0.45:
            kind, t = _malformed(rng, vals)
            texts.append(('malformed:' + kind, t))
    for fn, text in _shipped_ddy_texts():
        for m in _DDAY_P.findall(text):
            texts.append(('shipped', m[0]))
    for k, _ in texts:
        ctx.count('from_idf:' + k.split(':')[0])
        if ':' in k:
            ctx.count('from_idf_' + k)

    def impl_from(c):
        return 'ok ' + _show_dd(DesignDay.from_idf(c[1], loc0))

    compare_batch(ctx, 'from_idf', texts, lambda c: 'from_idf ' + _x(c[1]), impl_from, canon=_canon,
                  key=lambda c: c[1])

    # --- Location IDF
    locs = [_rand_loc(rng) for _ in range(ctx.n(60, 600))]
    compare_batch(ctx, 'loc_to_idf', locs, lambda l: 'loc_to_idf ' + ' '.join(_loc_tokens(l)),
                  lambda l: 'ok ' + _x(_build_loc(l).to_idf()), key=lambda l: repr(sorted(l.items())))
    ltexts = [_build_loc(l).to_idf() for l in locs]
    ltexts += ['Site:Location,\n  ,\n  ,\n  ,\n  0,\n  ;', 'Site:Location, A, 91, 0, 0, 0;',
               'Site:Location, A, 10, 181, 0, 0;', 'Site:Location, A, 10, 20, 15, 0;', 'Site:Location, A, 10, 20;',
               'Site:Location, A, x, 20, 1, 0;', 'SizingPeriod:DesignDay, A, 1, 2, 3, 4;',
               'Site:Location,\n CHICAGO_IL_USA Design_Conditions,     !- Location Name\n      41.98,     '
               '!- Latitude {N+ S-}\n     -87.92,     !- Longitude {W- E+}\n      -6.00,     !- Time Zone '
               'Relative to GMT {GMT+/-}\n     201.00;     !- Elevation {m}']
    compare_batch(ctx, 'loc_from_idf', ltexts, lambda t: 'loc_from_idf ' + _x(t),
                  lambda t: 'ok ' + _show_loc(Location.from_idf(t)), canon=_canon)

    # --- DDY writer and reader
    ycases = []
    for _ in range(ctx.n(40, 400)):
        ld = _rand_loc(rng)
        n = rng.choice([0, 1, 1, 2, 3, 5])
        ycases.append((ld, [_rand_desc(rng, sky=rng.choice(['clear', 'tau'])) for _ in range(n)]))
        ctx.count('ddy_days:%d' % n)

    def impl_ddy_write(c):
        loc = _build_loc(c[0])
        return 'ok ' + _x(DDY(loc, [_build(d, loc) for d in c[1]]).to_file_string())

    compare_batch(ctx, 'ddy_to_string', ycases,
                  lambda c: 'ddy_to_string %d %s %s' % (len(c[1]), ' '.join(_loc_tokens(c[0])),
                                                       ' '.join(' '.join(_dd_tokens(d)) for d in c[1])),
                  impl_ddy_write, key=lambda c: repr(c))
    ftexts = [t for _, t in _shipped_ddy_texts()]
    for c in ycases:
        loc = _build_loc(c[0])
        ftexts.append(DDY(loc, [_build(d, loc) for d in c[1]]).to_file_string())
    ftexts += ['', 'Site:Location, A, 1, 2, 3, 4;\n', ftexts[0].replace('Site:Location', 'Site:Loc')]
    counter = [0]

    def impl_ddy_read(t):
        counter[0] += 1
        p = os.path.join(tmp, 'f%d.ddy' % counter[0])
        with open(p, 'w', encoding='utf-8') as f:
            f.write(t)
        y = DDY.from_ddy_file(p)
        return 'ok %d %s %s' % (len(y.design_days), _show_loc(y.location),
                                ' '.join(_show_dd(d) for d in y.design_days))

    compare_batch(ctx, 'ddy_from_string', ftexts, lambda t: 'ddy_from_string ' + _x(t), impl_ddy_read,
                  canon=_canon, key=lambda t: hash(t))

    # --- from_ashrae_dict_heating / cooling
    tables = getattr(ctx, 'tables', None)
    hkeys = tables['keys']['HEATING_KEYS'] if tables else DesignDay.HEATING_KEYS
    ckeys = tables['keys']['COOLING_KEYS'] if tables else DesignDay.COOLING_KEYS
    hcases, ccases = [], []
    for _ in range(ctx.n(60, 600)):
        city = rng.choice(['Chicago Ohare Intl Ap', 'Tokyo', '-'])
        press = rng.choice([101325, 98000.0, 99063])
        hd = {k: str(round(rng.uniform(-30, 40), 1)) for k in hkeys}
        hd['Month'] = str(rng.randrange(1, 13))
        hd['WD_DB996'] = str(rng.choice([0, 270, 360, 45]))
        cd = {k: str(round(rng.uniform(0, 40), 1)) for k in ckeys}
        cd['Month'] = str(rng.randrange(1, 13))
        cd['WD_DB004'] = str(rng.choice([0, 270, 360, 45]))
        r = rng.random()
        if r < 0.08:
            hd.pop(rng.choice(['DB996', 'DB990', 'WS_DB996', 'Month']))
            cd.pop(rng.choice(['DB004', 'WB_DB010', 'DBR', 'Month']))
        elif r < 0.16:
            hd['Month'] = rng.choice(['13', '0', 'Jan'])
            cd['WD_DB004'] = '400'
        elif r < 0.2:
            hd['DB996'] = 'N/A'
            cd['DBR'] = '-2'
        tau = None if rng.random() < 0.5 else (round(rng.uniform(0.2, 0.8), 3), round(rng.uniform(1.5, 2.8), 3))
        hcases.append((rng.random() < 0.5, city, press, hd))
        ccases.append((rng.random() < 0.5, city, press, tau, cd))

    def kvs(d):
        return ' '.join('%s=%s' % (_x(k), _x(v)) for k, v in d.items())

    def loc_of(city):
        return Location(city)

    def impl_h(c):
        try:
            return 'ok ' + _show_dd(DesignDay.from_ashrae_dict_heating(dict(c[3]), loc_of(c[1]), c[0], c[2]))
        except KeyError:
            return 'err:index'

    def impl_c(c):
        try:
            return 'ok ' + _show_dd(DesignDay.from_ashrae_dict_cooling(dict(c[4]), loc_of(c[1]), c[0], c[2], c[3]))
        except KeyError:
            return 'err:index'

    compare_batch(ctx, 'ashrae_h', hcases,
                  lambda c: 'ashrae_h %s %s %s %s' % (_b(c[0]), _x(c[1]), _x(str(c[2])), kvs(c[3])),
                  impl_h, canon=_canon, key=lambda c: repr(c))
    compare_batch(ctx, 'ashrae_c', ccases,
                  lambda c: 'ashrae_c %s %s %s %s %s' % (
                      _b(c[0]), _x(c[1]), _x(str(c[2])),
                      ('- -' if c[3] is None else '%s %s' % (_x(str(c[3][0])), _x(str(c[3][1])))), kvs(c[4])),
                  impl_c, canon=_canon, key=lambda c: repr(c))


# ---------------------------------------------------------------------------------------------
# property oracle: the statement of C16 evaluated on the real classes, independent of the model


def _sky_sig(desc):
    s = desc['sky']
    return {'clear': 'ASHRAEClearSky', 'tau': 'ASHRAETau', 'base': 'SkyCondition'}[s[0]]


def _expected_day(month, day):
    base = datetime(2017, month, day)
    return [base + timedelta(hours=h) for h in range(24)]


def _on_day(dts, month, day, minutes=(0,)):
    exp = [(month, day, h, mi) for h in range(24) for mi in minutes]
    got = [(d.month, d.day, d.hour, d.minute) for d in dts]
    return got == exp, got[:2] + got[-1:]


def check_case(op, inp):
    """ladybug prints progress notes ('Updated end_day ...', 'Updating location ...'): keep stdout clean."""
    import contextlib
    import io
    with contextlib.redirect_stdout(io.StringIO()):
        return _check_case(op, inp)


def _check_case(op, inp):
    from ladybug.designday import DesignDay, ASHRAEClearSky, ASHRAETau
    from ladybug.location import Location
    if op == 'profile':
        desc = inp['desc']
        dd = _build(desc)
        sig = {'h_type': desc['h_type']}
        db = list(dd.hourly_dry_bulb.values)
        mx, rg = desc['db_max'], desc['db_range']
        if len(db) != 24 or max(db) != mx:
            return {'required': 'max of 24 hourly dry bulbs == %r' % mx, 'observed': (len(db), max(db)),
                    'sig': dict(sig, clause='db_max')}
        if min(db) != mx - rg or abs((max(db) - min(db)) - rg) > 1e-9 * max(1.0, abs(mx)):
            return {'required': 'min == max - range = %r' % (mx - rg), 'observed': min(db),
                    'sig': dict(sig, clause='db_range')}
        dp = list(dd.hourly_dew_point.values)
        for h, (a, b) in enumerate(zip(db, dp)):
            if b > a:
                return {'required': 'dew point <= dry bulb at hour %d' % h, 'observed': (a, b),
                        'sig': dict(sig, clause='dew_le_db')}
        rh = list(dd.hourly_relative_humidity.values)
        for h, v in enumerate(rh):
            if not (0 <= v <= 100 + 1e-9):
                return {'required': '0 <= rh <= 100 at hour %d' % h, 'observed': v,
                        'sig': dict(sig, clause='rh_range')}
        for nm, coll, want in (('pressure', dd.hourly_barometric_pressure, desc['pressure']),
                               ('wind_speed', dd.hourly_wind_speed, desc['ws']),
                               ('wind_direction', dd.hourly_wind_direction, desc['wd'])):
            if list(coll.values) != [want] * 24:
                return {'required': '24 x %r' % want, 'observed': list(coll.values)[:3],
                        'sig': dict(sig, clause=nm)}
        return None
    if op == 'dates':
        desc = inp['desc']
        m, d = desc['month'], desc['day']
        sig = {'sky': _sky_sig(desc), 'dst': bool(desc['dst'])}
        loc = _build_loc(inp['loc'])
        try:
            dd = _build(desc, loc)
            ok, obs = _on_day(dd.hourly_datetimes, m, d)
        except Exception as e:
            return {'required': '24 date-times on %d/%d' % (m, d), 'observed': 'raises %s: %s' % (type(e).__name__, e),
                    'sig': dict(sig, clause='hourly_datetimes', raises=type(e).__name__)}
        if not ok:
            return {'required': 'hourly_datetimes on %d/%d' % (m, d), 'observed': obs,
                    'sig': dict(sig, clause='hourly_datetimes')}
        colls = [('dry_bulb', dd.hourly_dry_bulb), ('dew_point', dd.hourly_dew_point),
                 ('relative_humidity', dd.hourly_relative_humidity), ('pressure', dd.hourly_barometric_pressure),
                 ('wind_speed', dd.hourly_wind_speed), ('wind_direction', dd.hourly_wind_direction),
                 ('sky_cover', dd.hourly_sky_cover), ('infrared', dd.hourly_horizontal_infrared)]
        rad = None
        if desc['sky'][0] != 'base':
            try:
                rad = dd.hourly_solar_radiation
            except Exception as e:
                return {'required': 'radiation of %d/%d' % (m, d), 'observed': 'raises %s: %s' % (type(e).__name__, e),
                        'sig': dict(sig, clause='radiation', raises=type(e).__name__)}
            colls += [('direct', rad[0]), ('diffuse', rad[1]), ('global', rad[2])]
        for nm, c in colls:
            ok, obs = _on_day(c.datetimes, m, d)
            if not ok or len(c.values) != 24:
                return {'required': '%s series on %d/%d' % (nm, m, d), 'observed': obs,
                        'sig': dict(sig, clause='series:' + nm)}
        # date-times behind the radiation: the middle of every clock hour of the stated date (in standard
        # time, i.e. one hour earlier under daylight saving), sub-hourly: every step of the day
        sc = dd.sky_condition
        for ts in inp.get('timesteps', [1]):
            shift = (30 if ts == 1 else 0) - (60 if desc['dst'] else 0)
            base = datetime(2017, m, d)
            try:
                got = [(x.month, x.day, x.hour, x.minute) for x in sc._get_datetimes(ts)]
            except Exception as e:
                return {'required': 'sun date-times of %d/%d' % (m, d), 'observed': 'raises %s: %s' % (type(e).__name__, e),
                        'sig': dict(sig, clause='sky_datetimes', raises=type(e).__name__)}
            if len(got) != 24 * ts:
                return {'required': 24 * ts, 'observed': len(got), 'sig': dict(sig, clause='sky_datetimes')}
            for i, g in enumerate(got):
                e0 = base + timedelta(minutes=shift + (60 * i) // ts if 60 % ts == 0 else shift + int(60.0 * i / ts))
                # one minute of float truncation is tolerated (int() of 19.999999999999996)
                cands = [e0, e0 - timedelta(minutes=1)] if ts not in (1, 2, 4) else [e0]
                if desc['dst'] and (m, d) == (1, 1) and i * 60 < 60 * ts:
                    continue                # clock hour 0 of 1 Jan is 23:xx of the previous year: outside the model year
                if g not in [(c.month, c.day, c.hour, c.minute) for c in cands]:
                    return {'required': 'sun date-time %d of %d/%d (ts %d) = %s' % (i, m, d, ts, e0),
                            'observed': g, 'sig': dict(sig, clause='sky_datetimes')}
        if rad is not None:
            exp = _expected_radiation(desc, loc)
            for nm, c, e in zip(('direct', 'diffuse', 'global'), rad, exp):
                for h, (a, b) in enumerate(zip(c.values, e)):
                    if abs(a - b) > 1e-6 * max(1.0, abs(b)):
                        return {'required': '%s radiation at hour %d of %d/%d = %r' % (nm, h, m, d, b),
                                'observed': a, 'sig': dict(sig, clause='radiation')}
        return None
    if op == 'idf_roundtrip':
        desc = inp['desc']
        sig = {'sky': _sky_sig(desc), 'h_type': desc['h_type'], 'wet_bulb_range': desc['wbr'] is not None}
        loc = _build_loc(inp['loc']) if inp.get('loc') else Location()
        dd = _build(desc, loc)
        try:
            back = DesignDay.from_idf(dd.to_idf(), loc)
        except Exception as e:
            return {'required': 'from_idf(to_idf(d)) == d', 'observed': 'raises %s: %s' % (type(e).__name__, e),
                    'sig': dict(sig, raises=type(e).__name__)}
        if not (back == dd and _show_dd(back).split(' ')[:0] == [] and _canon('ok ' + _show_dd(back)) ==
                _canon('ok ' + _show_dd(dd)) and type(back.sky_condition) is type(dd.sky_condition)):
            a, b = _canon('ok ' + _show_dd(dd)).split(' '), _canon('ok ' + _show_dd(back)).split(' ')
            diff = [i for i, (x, y) in enumerate(zip(a, b)) if x != y]
            return {'required': 'from_idf(to_idf(d)) == d', 'observed': 'differs at canonical tokens %s' % diff,
                    'sig': dict(sig, differs=','.join(str(i) for i in diff))}
        return None
    if op == 'ddy_roundtrip':
        from ladybug.ddy import DDY
        loc = _build_loc(inp['loc'])
        y = DDY(loc, [_build(d, loc) for d in inp['days']])
        return _ddy_rt(y, {'source': 'generated', 'days': len(inp['days'])})
    if op == 'ddy_file':
        from ladybug.ddy import DDY
        y = DDY.from_ddy_file(os.path.join(_assets(), 'ddy', inp['file']))
        return _ddy_rt(y, {'source': inp['file']})
    if op == 'header_days':
        return _check_header_days(inp)
    if op == 'approx_days':
        return _check_approx_days(inp)
    raise ValueError('unknown op ' + op)


replay = check_case


def _ddy_rt(y, sig):
    from ladybug.ddy import DDY
    tmp = tempfile.mkdtemp(prefix='c16_')
    try:
        p = os.path.join(tmp, 'w.ddy')
        y.write(p)
        try:
            back = DDY.from_ddy_file(p)
        except Exception as e:
            return {'required': 'DDY.from_ddy_file(written) == ddy', 'observed': 'raises %s: %s' % (type(e).__name__, e),
                    'sig': dict(sig, raises=type(e).__name__)}
        if len(back.design_days) != len(y.design_days):
            return {'required': '%d design days' % len(y.design_days), 'observed': len(back.design_days),
                    'sig': dict(sig, clause='count')}
        if back.location != y.location:
            return {'required': str(y.location), 'observed': str(back.location), 'sig': dict(sig, clause='location')}
        for i, (a, b) in enumerate(zip(y.design_days, back.design_days)):
            if a != b:
                return {'required': 'day %d equal: %s' % (i, _canon('ok ' + _show_dd(a))),
                        'observed': _canon('ok ' + _show_dd(b)), 'sig': dict(sig, clause='day')}
        if back != y:
            return {'required': 'DDY equal', 'observed': 'unequal', 'sig': dict(sig, clause='ddy')}
        return None
    finally:
        shutil.rmtree(tmp, ignore_errors=True)


def _expected_radiation(desc, loc):
    """The stated sky model evaluated at the sun positions of the stated date (standard time)."""
    from ladybug.sunpath import Sunpath
    from ladybug.dt import DateTime
    from ladybug.skymodel import ashrae_clear_sky, ashrae_revised_clear_sky
    sp = Sunpath.from_location(loc)
    alts = []
    base = datetime(2017, desc['month'], desc['day'], 0, 30)
    for h in range(24):
        t = base + timedelta(hours=h) - (timedelta(hours=1) if desc['dst'] else timedelta(0))
        if t.year != 2017:
            t = t.replace(year=2017)            # 31 Dec 23:30 stands for the hour before 1 Jan 00:30
        alts.append(sp.calculate_sun_from_date_time(DateTime(t.month, t.day, t.hour, t.minute)).altitude)
    s = desc['sky']
    if s[0] == 'clear':
        dn, df = ashrae_clear_sky(alts, desc['month'], s[1])
    else:
        dn, df = ashrae_revised_clear_sky(alts, s[1], s[2], s[3])
    gl = [b + a * math.sin(math.radians(alt)) for alt, a, b in zip(alts, dn, df)]
    return dn, df, gl


_EPW_CACHE = {}


def _epw(fn):
    from ladybug.epw import EPW
    if fn not in _EPW_CACHE:
        _EPW_CACHE[fn] = EPW(os.path.join(_assets(), 'epw', fn))
    return _EPW_CACHE[fn]


def _raw_epw(fn):
    """Raw hourly rows of an EPW read with the csv-free stdlib: month, dry bulb, dew point, pressure,
    wind direction, wind speed."""
    rows = []
    with open(os.path.join(_assets(), 'epw', fn), encoding='utf-8', errors='ignore') as f:
        lines = f.read().splitlines()
    for ln in lines[8:]:
        p = ln.split(',')
        if len(p) > 21:
            rows.append((int(p[1]), float(p[6]), float(p[7]), float(p[9]), float(p[20]), float(p[21])))
    return rows


def _percentile(vals, pct):
    v = sorted(vals)
    k = (len(v) - 1) * (pct / 100.0)
    f, c = math.floor(k), math.ceil(k)
    if f == c:
        return v[int(k)]
    return v[f] * (c - k) + v[c] * (k - f)


# positions inside the 'Heating' / 'Cooling' groups of the ASHRAE climatic design table (2009, 2017 and
# 2021 handbooks share them; 2021 only appends WSF to the heating group) - written here independently of
# DesignDay.HEATING_KEYS / COOLING_KEYS
_H_POS = {'Month': 0, 'DB996': 1, 'DB990': 2, 'WS_DB996': 13, 'WD_DB996': 14}
_C_POS = {'Month': 0, 'DBR': 1, 'DB004': 2, 'WB_DB004': 3, 'DB010': 4, 'WB_DB010': 5, 'WS_DB004': 14,
          'WD_DB004': 15}


def _group(tokens, word, pos):
    """The stated values of one group ('Heating' / 'Cooling') of a raw design-conditions record."""
    toks = [t.strip() for t in tokens]
    if word not in toks:
        return None
    i = toks.index(word)
    try:
        return {k: float(toks[i + 1 + j]) for k, j in pos.items()}
    except (ValueError, IndexError):
        return None


def _raw_header(src, fn):
    """(heating values, cooling values, pressure, monthly taub, monthly taud) read from the raw file with
    the stdlib only."""
    path = os.path.join(_assets(), src, fn)
    with open(path, encoding='utf-8', errors='ignore') as f:
        lines = f.read().splitlines()
    if src == 'epw':
        toks = lines[1].split(',')
        hv, cv = _group(toks, 'Heating', _H_POS), _group(toks, 'Cooling', _C_POS)
        press = [float(ln.split(',')[9]) for ln in lines[8:] if ln.count(',') > 21]
        avg = sum(press) / len(press)
        return hv, cv, (None if avg == 999999 else avg), None, None
    hv = cv = tb = td = None
    pr = None
    for ln in lines:
        toks = ln.split('\t')
        st = [t.strip() for t in toks]
        if 'Heating' in st and hv is None:
            hv = _group(toks, 'Heating', _H_POS)
        if 'Cooling' in st and cv is None:
            cv = _group(toks, 'Cooling', _C_POS)
        if 'Standard Pressure at Elevation' in ln and pr is None:
            m = re.search(r'(\d+)\s*Pa', ln)
            pr = float(m.group(1)) if m else None
        if 'taub (beam)' in st and tb is None:
            vals = st[st.index('taub (beam)') + 1:]
            tb = [None if v in ('N_A', 'N') else float(v) for v in vals if v != ''][:12]
        if 'taud (diffuse)' in st and td is None:
            vals = st[st.index('taud (diffuse)') + 1:]
            td = [None if v in ('N_A', 'N') else float(v) for v in vals if v != ''][:12]
    return hv, cv, pr, tb, td


def _check_header_days(inp):
    """The four header-derived days of an EPW / STAT file against the values stated in the raw header:
    dry bulb, range, coincident wet bulb, wind speed and direction, month (21st), pressure (EPW: mean of the
    hourly station pressure; STAT: standard pressure at elevation; 101325 when absent), sky (clear sky with
    clearness 0 for heating; for cooling the month's taub/taud of the STAT file where present, otherwise
    clear sky with clearness 1), flags off, location of the file."""
    from ladybug.stat import STAT
    from ladybug.designday import ASHRAEClearSky, ASHRAETau
    src, fn = inp['source'], inp['file']
    sig = {'source': src, 'file': fn}
    hv, cv, press, tb, td = _raw_header(src, fn)
    if src == 'epw':
        with open(os.path.join(_assets(), src, fn), encoding='utf-8', errors='ignore') as f:
            f.readline()
            m = re.search(r'(20\d\d)', f.readline().split(',Heating')[0])
        sig['handbook'] = m.group(1) if m else 'none'
    obj = _epw(fn) if src == 'epw' else STAT(os.path.join(_assets(), 'stat', fn))
    want_p = 101325 if press is None else press
    plan = [('h996', 'annual_heating_design_day_996', hv, 'DB996', 'DB996', 'WS_DB996', 'WD_DB996', None, 'WinterDesignDay'),
            ('h990', 'annual_heating_design_day_990', hv, 'DB990', 'DB990', 'WS_DB996', 'WD_DB996', None, 'WinterDesignDay'),
            ('c004', 'annual_cooling_design_day_004', cv, 'DB004', 'WB_DB004', 'WS_DB004', 'WD_DB004', 'DBR', 'SummerDesignDay'),
            ('c010', 'annual_cooling_design_day_010', cv, 'DB010', 'WB_DB010', 'WS_DB004', 'WD_DB004', 'DBR', 'SummerDesignDay')]
    got_days = {}
    for tag, attr, vals, dbk, wbk, wsk, wdk, rk, dtype in plan:
        s = dict(sig, day=tag)
        try:
            dd = getattr(obj, attr)
        except Exception as e:
            return {'required': attr, 'observed': 'raises %s: %s' % (type(e).__name__, e),
                    'sig': dict(s, clause='raises', raises=type(e).__name__)}
        got_days[tag] = dd
        if vals is None:
            if dd is not None:
                return {'required': 'no %s without stated design conditions' % attr, 'observed': str(dd),
                        'sig': dict(s, clause='absent')}
            continue
        if dd is None:
            return {'required': '%s from the stated design conditions' % attr, 'observed': None,
                    'sig': dict(s, clause='missing')}
        h = dd.humidity_condition
        checks = [
            ('dry_bulb', vals[dbk], dd.dry_bulb_condition.dry_bulb_max),
            ('range', vals[rk] if rk else 0.0, dd.dry_bulb_condition.dry_bulb_range),
            ('humidity_type', 'Wetbulb', h.humidity_type),
            ('wet_bulb', vals[wbk], h.humidity_value),
            ('wind_speed', vals[wsk], dd.wind_condition.wind_speed),
            ('wind_direction', vals[wdk], dd.wind_condition.wind_direction),
            ('month', int(vals['Month']), dd.sky_condition.date.month),
            ('day', 21, dd.sky_condition.date.day),
            ('day_type', dtype, dd.day_type),
            ('flags', (False, False, False), (h.rain, h.snow_on_ground, dd.sky_condition.daylight_savings)),
        ]
        for clause, want, got in checks:
            if want != got:
                return {'required': '%s %s = %r (stated in the header)' % (attr, clause, want), 'observed': got,
                        'sig': dict(s, clause=clause)}
        gp = h.barometric_pressure
        if abs(gp - want_p) > 1e-9 * want_p:
            return {'required': '%s pressure = %r (%s)' % (
                attr, want_p, 'mean hourly station pressure' if src == 'epw' else 'standard pressure at elevation'),
                'observed': gp, 'sig': dict(s, clause='pressure')}
        sc = dd.sky_condition
        if dtype == 'WinterDesignDay':
            want_sky = ('ASHRAEClearSky', 0)
        else:
            m = int(vals['Month'])
            if tb and td and len(tb) >= m and len(td) >= m and tb[m - 1] is not None and td[m - 1] is not None:
                want_sky = ('ASHRAETau', tb[m - 1], td[m - 1], False)
            else:
                want_sky = ('ASHRAEClearSky', 1)
        if type(sc) is ASHRAEClearSky:
            got_sky = ('ASHRAEClearSky', sc.clearness)
        elif type(sc) is ASHRAETau:
            got_sky = ('ASHRAETau', sc.tau_b, sc.tau_d, sc.use_2017)
        else:
            got_sky = (type(sc).__name__,)
        if want_sky != got_sky:
            return {'required': '%s sky = %r' % (attr, want_sky), 'observed': got_sky, 'sig': dict(s, clause='sky')}
        if dd.location != obj.location:
            return {'required': 'location of the file', 'observed': str(dd.location), 'sig': dict(s, clause='location')}
    if src == 'epw' and hv is not None and cv is not None:
        # the public selector hands out the same four days
        for pct, ht, ct in ((0.4, 'h996', 'c004'), (1, 'h990', 'c010')):
            bh, bc = obj.best_available_design_days(pct)
            if bh != got_days[ht] or bc != got_days[ct]:
                return {'required': 'best_available_design_days(%s) = the header days' % pct,
                        'observed': (str(bh), str(bc)), 'sig': dict(sig, clause='best_available', percentile=pct)}
    return None


def _check_approx_days(inp):
    fn, pct = inp['file'], inp['percentile']
    sig = {'file': fn}
    epw = _epw(fn)
    rows = _raw_epw(fn)
    n = len(rows)
    dbs = [r[1] for r in rows]
    means = []
    for m in range(1, 13):
        mv = [r[1] for r in rows if r[0] == m]
        means.append(sum(mv) / len(mv))
    press = [r[3] for r in rows]
    avg_p = sum(press) / n
    want_p = round(avg_p) if avg_p != 999999 else 101325
    hr_count = int(87.6 * pct * 2)
    for day_type in ('WinterDesignDay', 'SummerDesignDay'):
        s = dict(sig, day_type=day_type)
        try:
            dd = epw.approximate_design_day(day_type, pct)
        except Exception as e:
            return {'required': 'a %s from the hourly data' % day_type,
                    'observed': 'raises %s: %s' % (type(e).__name__, e),
                    'sig': dict(s, clause='raises', raises=type(e).__name__, leap_epw=bool(epw.is_leap_year))}
        if day_type == 'WinterDesignDay':
            want_t = _percentile(dbs, pct)
            order = sorted(range(n), key=lambda k: dbs[k])[:hr_count]
            want_m = means.index(min(means)) + 1
        else:
            want_t = _percentile(dbs, 100 - pct)
            order = sorted(range(n), key=lambda k: -dbs[k])[:hr_count]
            want_m = means.index(max(means)) + 1
        got_t = dd.dry_bulb_condition.dry_bulb_max
        if abs(got_t - want_t) > 1e-9:
            return {'required': 'dry bulb = percentile %r' % want_t, 'observed': got_t, 'sig': dict(s, clause='percentile')}
        if (dd.sky_condition.date.month, dd.sky_condition.date.day) != (want_m, 21):
            return {'required': 'date 21/%d' % want_m, 'observed': str(dd.sky_condition.date), 'sig': dict(s, clause='month')}
        if dd.humidity_condition.barometric_pressure != want_p:
            return {'required': want_p, 'observed': dd.humidity_condition.barometric_pressure, 'sig': dict(s, clause='pressure')}
        ws = sum(rows[i][5] for i in order) / hr_count
        if abs(dd.wind_condition.wind_speed - ws) > 0.0500001:
            return {'required': 'wind speed = mean of the %d coincident hours %r' % (hr_count, ws),
                    'observed': dd.wind_condition.wind_speed, 'sig': dict(s, clause='wind_speed')}
        sx = sum(math.sin(math.radians(rows[i][4])) for i in order)
        cx = sum(math.cos(math.radians(rows[i][4])) for i in order)
        wd = math.degrees(math.atan2(sx, cx)) % 360
        gd = dd.wind_condition.wind_direction
        if min(abs(gd - wd), 360 - abs(gd - wd)) > 2.0:     # int() truncation + summation order
            return {'required': 'wind direction = circular mean %r' % wd, 'observed': gd, 'sig': dict(s, clause='wind_dir')}
        if day_type == 'WinterDesignDay':
            if dd.humidity_condition.humidity_value != got_t or dd.dry_bulb_condition.dry_bulb_range != 0:
                return {'required': 'saturated, range 0', 'observed': str(dd.humidity_condition), 'sig': dict(s, clause='wet_bulb')}
        else:
            dew = sum(rows[i][2] for i in order) / hr_count
            wb = dd.humidity_condition.humidity_value
            if not (min(dew, got_t) - 0.06 <= wb <= got_t + 0.06):
                return {'required': 'coincident wet bulb between mean dew point %r and dry bulb %r' % (dew, got_t),
                        'observed': wb, 'sig': dict(s, clause='wet_bulb')}
            rg = dd.dry_bulb_condition.dry_bulb_range
            if not 0 <= rg <= max(dbs) - min(dbs):
                return {'required': 'daily range within the data', 'observed': rg, 'sig': dict(s, clause='range')}
    if inp.get('monthly'):
        mdays = epw.monthly_cooling_design_days(inp['monthly'])
        if len(mdays) != 12:
            return {'required': 12, 'observed': len(mdays), 'sig': dict(sig, clause='monthly_count')}
        for m, dd in enumerate(mdays, 1):
            mv = [r[1] for r in rows if r[0] == m]
            want_t = _percentile(mv, 100 - inp['monthly'])
            if abs(dd.dry_bulb_condition.dry_bulb_max - want_t) > 1e-9 or \
                    (dd.sky_condition.date.month, dd.sky_condition.date.day) != (m, 21) or \
                    dd.humidity_condition.barometric_pressure != want_p:
                return {'required': (want_t, m, 21, want_p),
                        'observed': (dd.dry_bulb_condition.dry_bulb_max, str(dd.sky_condition.date),
                                     dd.humidity_condition.barometric_pressure),
                        'sig': dict(sig, clause='monthly', month=m)}
    return None


FIXED_DESC = {'name': 'Fixed Day', 'day_type': 'SummerDesignDay', 'db_max': 33.3, 'db_range': 10.5,
              'mod_type': 'DefaultMultipliers', 'mod_sched': '', 'h_type': 'Wetbulb', 'h_value': 23.6,
              'pressure': 99063, 'rain': False, 'snow': False, 'sched': '', 'wbr': None, 'ws': 5.2, 'wd': 230,
              'month': 7, 'day': 21, 'dst': False, 'sky': ['clear', 1.0]}
FIXED_LOC = {'city': 'Chicago Ohare Intl Ap', 'lat': 41.98, 'lon': -87.92, 'tz': -6.0, 'elev': 201.0}


def _with(**kw):
    d = dict(FIXED_DESC)
    d.update(kw)
    return d


def _oracle_cases(ctx):
    rng = ctx.rng
    big = ctx.searching or not ctx.quick
    # fixed corpus (includes the example inputs of the known findings)
    yield 'dates', {'desc': _with(), 'loc': FIXED_LOC, 'timesteps': [1, 4]}
    yield 'dates', {'desc': _with(month=12, day=31), 'loc': FIXED_LOC, 'timesteps': [1, 2]}
    yield 'dates', {'desc': _with(month=1, day=1, dst=True, sky=['tau', 0.45, 2.1, True]), 'loc': FIXED_LOC,
                    'timesteps': [1, 3]}
    yield 'idf_roundtrip', {'desc': _with(sky=['base', 'BeamSch', 'DiffSch'])}
    yield 'idf_roundtrip', {'desc': _with(wbr=5.0)}
    for ht in HUM_TYPES:
        for sky in (['clear', 0.9], ['tau', 0.45, 2.1, False], ['tau', 0.45, 2.1, True]):
            for flags in ((False, False, False), (True, False, True), (False, True, False), (True, True, True)):
                hv = _humidity_value(rng, ht, 33.3, 99063.0)
                yield 'idf_roundtrip', {'desc': _with(h_type=ht, h_value=hv, sky=sky, rain=flags[0], snow=flags[1],
                                                      dst=flags[2]), 'loc': FIXED_LOC}
    yield 'profile', {'desc': _with()}
    yield 'profile', {'desc': _with(db_range=0)}
    for fn in sorted(os.listdir(os.path.join(_assets(), 'ddy'))):
        if fn.lower().endswith('.ddy'):
            yield 'ddy_file', {'file': fn}
    for fn in sorted(os.listdir(os.path.join(_assets(), 'epw'))):
        if fn.lower().endswith('.epw'):
            yield 'header_days', {'source': 'epw', 'file': fn}
    for fn in sorted(os.listdir(os.path.join(_assets(), 'stat'))):
        if fn.lower().endswith('.stat'):
            yield 'header_days', {'source': 'stat', 'file': fn}
    epws = sorted(f for f in os.listdir(os.path.join(_assets(), 'epw')) if f.lower().endswith('.epw'))
    pcts = (0.4, 1, 2, 5) if big else (rng.choice([0.4, 1]), rng.choice([2, 5]))
    for fn in (epws if big else [epws[ctx.seed % len(epws)], epws[(ctx.seed + 2) % len(epws)]]):
        for p in pcts:
            yield 'approx_days', {'file': fn, 'percentile': p, 'monthly': 5 if p in (0.4, 2) else None}
    # generated stream
    for _ in range(600 if not big else 6000):
        yield 'profile', {'desc': _rand_desc(rng)}
    for _ in range(150 if not big else 1500):
        d = _rand_desc(rng, sky=rng.choice(['clear', 'tau', 'tau', 'base']))
        loc = _rand_loc(rng)
        if d['dst'] and (d['month'], d['day']) == (1, 1) and abs(loc['lat']) > 60:
            loc['lat'] = 45.0
        yield 'dates', {'desc': d, 'loc': loc, 'timesteps': [1, rng.choice(TIMESTEPS)]}
    for _ in range(500 if not big else 6000):
        d = _rand_desc(rng, sky=rng.choice(['clear', 'tau']))
        d['wbr'] = None
        yield 'idf_roundtrip', {'desc': d}
    for _ in range(25 if not big else 250):
        n = rng.choice([1, 1, 2, 3, 6])
        days = []
        for _ in range(n):
            d = _rand_desc(rng, sky=rng.choice(['clear', 'tau']))
            d['wbr'] = None
            days.append(d)
        yield 'ddy_roundtrip', {'loc': _rand_loc(rng), 'days': days}


def oracle(ctx):
    run_oracle_cases(ctx, _oracle_cases(ctx), check_case)


LEVEL_TEXT = ('Machine-checked Lean 4 theorems over an executable model of designday.py / ddy.py / '
              'location.py: the 24 dry-bulb values peak at the stated maximum and bottom out at maximum minus '
              'range for every range >= 0 (needs 0 and 1 among the regenerated multipliers, all in [0,1]); hourly '
              'dew point <= dry bulb; relative humidity > 0 always and <= 100 wherever saturation pressure is '
              'monotone between dew point and dry bulb (C09 gives this on the ice and on the water branch); every '
              'hourly date-time and every date-time the sky condition evaluates (timestep 1 and sub-hourly, with '
              'and without daylight saving) lies on the stated date, for every date of the year incl. 31 Dec '
              '(after the repair (doy - 1) * 1440; the day offset is regenerated from the source and the theorem '
              'breaks on the unrepaired tree); from_idf(to_idf(d)) = d at field level (abstract tokens obeying float(str(x)) == x etc.; value-level theorem C16_idf_roundtrip_value plus the slot-level layout theorem) for 4 humidity types x '
              '{ASHRAEClearSky, ASHRAETau, ASHRAETau2017} x rain/snow/daylight-saving flags with numbers as opaque '
              'tokens, lifted to DDY files as lists; from_ashrae_dict_* carry the header values. The IDF field '
              'layout used by the model is regenerated from to_idf/from_idf on every run. Radiation values, '
              'EPW percentile days and the character level of the text are checked on the real code only.')
LEVEL_NOTE = ('Trusted: Lean kernel; axioms propext/Classical.choice/Quot.sound only; the extractor; the '
              'correspondence run; float(str(x)) == x; exact-vs-IEEE arithmetic; C09 model of the psychrometric '
              'functions. Recorded findings: to_idf of a plain _SkyCondition (Schedule model) is not parseable; '
              'from_idf drops wet_bulb_range.')
TECHNIQUE = ('Lean 4 proof (list induction, case split on enums, omega on minutes of the year on top of the C08 '
             'calendar theorems, real-field algebra with C09 lemmas) about a model tied to designday.py by a '
             'regenerated field layout/tables and differential correspondence')
