"""C16 — Design days are self-consistent and survive the IDF/DDY round trip.

Model: lean/Ladybug/Model/DesignDay.lean (+ Model/Psychro.lean for the humidity profile, Model/Cal.lean for
dates); theorems: lean/Ladybug/Props/C16.lean; driver: drv_c16.
Tie: translator (Gen/DesignDayTables from designday.py: multipliers, key lists, IDF layout of to_idf and
from_idf, the day offset of start_moy) + correspondence on the ops below.

Round 3 (histories, failure paths, process order): Model/DesignDayObj.lean is the object state machine (state =
public state, no hidden slot; `step`, `runOps`, `construct`), driver op `hist`; `_history_correspondence` drives
the real object and the model through the same generated histories step by step (status, public state, then
to_idf / dry bulb / humidity profile / date-times of the model on the model's own state against the object);
oracle ops `history`, `ddy_history`, `epw_history` compare every observable of ONE object after every step with
a design day built from scratch from the established state and with the statement itself; `order` runs a slice
of the stream in fresh interpreters in different orders (rare classes / refused calls first) and compares
verdicts and digests of all observables; a stream case that fails only because of what ran before it is
reported as a replayable `order` / `epw_history` input.  Producers and consumers: see the table above
`ALL_READS`.

Round 4 (override gaps, aliasing / one-shot iterables, conventions between modules, numeric edges, input shapes,
rare branches):
  (e) every operation on every concrete class: the three sky classes (_SkyCondition, ASHRAEClearSky, ASHRAETau
      incl. the 2017 variant) x dates of the leap year (29 Feb, 1 Mar, 31 Dec) x daylight saving in the `dates`
      oracle (hourly series, sun date-times with their leap flag, radiation recomputed for the stated date);
      oracle op `routes`: the same design day through every construction route (constructor, duplicate / copy,
      to_dict -> from_dict also through JSON and inside a DDY dictionary, DDY.from_design_day,
      from_design_day_properties, sky condition from an analysis period given as numbers / strings / text form,
      conditions assigned one by one, IDF text) is ONE design day (==, hash, every observable);
  (f) oracle op `shapes`: the design days of a DDY as list, tuple, generator, iter(), map, filter, dict view (keys
      in non-sorted insertion order), deque, reversed, a one-shot iterable class, chained iterators - through the
      constructor, the setter, the setter twice, refused inputs; `ddy_to_string` correspondence feeds the real
      DDY every shape while the model takes lists (theorem C16_ddy_days_shape_independent); read `scribble` in the
      histories edits every returned container in place (lists, collection values and metadata, dictionaries,
      radiation lists) and the following reads must not notice; `ashrae_shapes`: header dictionaries in any
      insertion order / OrderedDict / surplus keys, tau as list or tuple;
  (g) EPW variants written by the harness (`gen:leap:` = leap-year header + 29 Feb inserted, `gen:nopress:`,
      `gen:nohdr:`): the coincident wet bulb / wind speed / wind direction / daily range of approximate and
      monthly days are recomputed from the raw records (value-at-the-hour convention: record k is hour k-1;
      calendar by the stdlib, month-local and annual positions differ from March on in a leap file);
      `_coarse_sun_clause`: day and night of the radiation against a sun formula written here (clock vs
      standard time, sign of longitude / time zone, hour-of-year of the other year kind);
  (h) dry-bulb profile at magnitudes 1e-300 .. 1e16, inexact sums, halves, -0.0 (bit exact against the model);
      all 12 timesteps on 30 / 31 Dec of both year kinds; percentile counts by exact fractions; number spellings;
  (i) IDF texts with numbers in exponent notation, explicit plus sign, leading zeros, `7.`, two-digit and signed
      month / day, CRLF and tab layouts, upper / lower case flags; header values as text with blanks / leading
      zeros / exponents or as numbers; analysis periods built from strings and from their text form (`*` = leap);
      DDY files that are not UTF-8 (latin-1 names);
  (j) branches of the anchored functions, each counted (`branch:...` in the evidence):
      from_idf: rain / snow / daylight-saving field present or not (len > 18, 19, 20), sky fields present or not
        (len > 21), ASHRAEClearSky with / without clearness field (len > 26), ASHRAETau with both / tau_b only /
        no tau field (len > 24, 25), other sky model incl. Schedule, empty humidity value (-> 0), HumidityRatio /
        Enthalpy / other humidity type, wrong object (assert);
      hourly_dew_point_values: saturated hour (db < dew point) / unsaturated; dew_point: 4 humidity types;
      hourly_sky_cover: clearness > 1 / <= 1; _get_datetimes: daylight saving, timestep 1 / sub-hourly;
      to_idf: 3 humidity slots, ASHRAEClearSky / ASHRAETau / plain sky;
      from_ashrae_dict_*: use_990 / use_010, pressure None, tau None / given;
      DDY.design_days setter: list / other iterable (list()) / not iterable (TypeError) / item of wrong type;
      DDY.location setter: days with another location are updated; DDY.from_ddy_file: missing file, wrong
        extension, no location, no design day (IronPython branch: unreachable here);
      EPW: missing pressure (999999 -> 101325), header without design conditions (-> None, best_available falls
        back to approximate days), percentile 0.4 / 1 / other in best_available and to_ddy_monthly_cooling,
        Winter / Summer / unknown day type, negative circular mean (+360), int vs float percentile in the name;
      STAT: tau present / absent (N_A), design conditions present / absent.

Round 6 (comparison strictness: an equality test narrowed to "the fields that matter", typically while a shared
helper is extracted): the tests in the anchored code that compare whole objects are the two location-update loops
of ddy.py (`dd.location != self._location` in the design_days setter - hence __init__, from_dict, from_design_day,
duplicate, EPW/STAT.to_ddy - and in the location setter) and the `__key`-based `__eq__` of Location / DesignDay /
the condition classes they rest on.
  generator stratum `ddy_station`: the days' Location differs from the DDY's in exactly ONE of the nine attributes
      (each in turn), in metadata only (state, country, station id, source [+ city, elevation] - one station as
      an EPW and as a .ddy file describe it), in position only, in several, in nothing (equal copy / same object)
      x 12 routes into a DDY (constructor with list / tuple / generator, setter, setter with iterator, setter
      twice, location setter, location setter after an equal location, from_design_day, from_dict through JSON,
      duplicate, mixed days) + the days of a shipped EPW in a DDY at the five Site:Location fields of its header;
  oracle clause: the file has ONE Site:Location, so every day of the DDY carries all nine attributes of the
      DDY's location (compared attribute by attribute, never through Location.__eq__), keeps its conditions, the
      file text is that of days built at the DDY location, the file reads back equal (day locations again
      attribute by attribute: `_ddy_rt` now does this for every DDY round trip of the check) and the DDY equals
      the one built from days at its location;
  translator (tools/extract/ddy_setter.py): the test of BOTH update loops must be the whole-object comparison
      (helper methods `self._x()` are inlined), Location.__key / __slots__ are copied; Lean: Model/DDYShapes
      `updateLocationsWith` / `readBack`, theorems C16_ddy_location_guards, C16_location_key_complete,
      C16_ddy_days_carry_ddy_location, C16_ddy_update_keeps_days, C16_ddy_update_roundtrip,
      C16_ddy_relaxed_guard_breaks_roundtrip; correspondence op `ddy_locs` (driver) runs the model loop and the
      real setters on the same locations.
  Recorded finding C16-ddy-setitem-foreign-location: `DDY.__setitem__` has no update loop - a day assigned as an
      item keeps the location it came with, and the written file does not read back equal (route `setitem` of
      `ddy_station`, one fixed case + one with an equal location that must hold; theorem
      C16_ddy_setitem_counterexample); the ddy histories assign items that already are at the DDY location.
"""
import json
import math
import os
import re
import shutil
import struct
import sys
import tempfile
from datetime import datetime, timedelta

from harness import core
from harness.core import compare_batch, err_name, run_oracle_cases

PROP = 'C16'
PROOF_MODULES = ['Ladybug.Props.C16']
GREP_MODULES = ['Ladybug.Model.DesignDay', 'Ladybug.Model.DesignDayObj', 'Ladybug.Model.DDYShapes', 'Ladybug.Gen.DDYSetter', 'Ladybug.Proofs.C16Hist', 'Ladybug.Gen.DesignDayTables', 'Ladybug.Proofs.C16Lemmas', 'Ladybug.Proofs.C16Idf',
                'Ladybug.Drv.C16', 'Ladybug.Model.Psychro', 'Ladybug.Model.Cal', 'Ladybug.Py',
                'Ladybug.DrvCore', 'Ladybug.Transc', 'Ladybug.RealInst']
RULE = ('correspondence: design days built from plain numbers (every date of the year for the date ops, '
        '1 Jan / 28 Feb / 31 Dec / the 21st of each month biased elsewhere; dry bulb -40..55, range 0..25; 4 '
        'humidity types x consistent and inconsistent values; 3 sky classes x parameters; rain/snow/daylight '
        'saving flags; int and float spellings), the objects of the 5 shipped .ddy files, ~15 % malformed IDF '
        'texts (truncated, wrong numbers, wrong enums); oracle: the statement evaluated on the real classes '
        '(profile extremes, dew<=db, rh range, dates of every hourly series, radiation recomputed through '
        'Sunpath for the stated date, IDF and DDY round trips, header/EPW-derived days against the header '
        'dictionary and an independent percentile of the raw EPW rows); a case is non-trivial when the '
        'implementation returns a value; distinct = distinct (op, input). Round 3: generated operation histories on '
        'one DesignDay (30 setter / replaced-condition operations with valid and refused arguments - wrong type, '
        'out of range, impossible date, attribute of the other sky class -, reads of 15 observables + sub-hourly '
        'sun date-times / radiation at other locations / dew point for other dry-bulb conditions in random order '
        'and repeated), on one DDY (location / list / item setters, edits of contained days, refused variants) '
        'and on one EPW (header days, approximate days of several percentiles, monthly days, refused day type, '
        'to_ddy, IP/SI conversion); strata: saturating days x 4 humidity types, first and last day of every '
        'month x daylight saving x sky model x 4 locations (both hemispheres), exact zeros and bounds (range 0, '
        'wind 0/360, clearness 0/1.2, tau 0), the same day with one input changed, all 12 timesteps; 3-4 fresh '
        'interpreters with different case orders. Round 4: dates of the leap year (29 Feb, 1 Mar, 31 Dec) x every '
        'sky class x daylight saving; every construction route of one design day (from_dict through JSON, '
        'from_design_day_properties with list / tuple, analysis periods from numbers, strings and text form, '
        'duplicate, assignment, IDF); DDY days as 12 container kinds incl. one-shot iterables x constructor / '
        'setter / setter twice / refused; in-place edits of every returned container; header dictionaries in 4 '
        'containers x 5 number spellings; IDF numbers in exponent / signed / zero-padded spelling, CRLF and tab '
        'layouts, every guarded field count 17..26; latin-1 DDY files; EPW variants written by the harness (leap '
        'year with 29 Feb, missing pressure, no design conditions) with coincident values recomputed from the raw '
        'records; STAT monthly families 0.4/2/5/10 % against their table rows; dry-bulb profile at 1e-300..1e16; '
        'branch counters `branch:*` in the evidence. Round 6: DDYs whose days come with a Location that differs '
        'from the DDY location in exactly one of its nine attributes / in metadata only / in position only / in '
        'nothing x 13 routes into the DDY (constructor, setters, location setter, from_dict, from_design_day, '
        'duplicate, item assignment), days of a shipped EPW in a DDY at the Site:Location fields of its header')
TRUSTED_BASE = [
    'translator tools/extract/designday_tables.py: copies HOURLY_MULTIPLIERS, the key lists, the ep_vals '
    'layout of to_idf, the ep_fields indices/guards of from_idf and the day offset of start_moy',
    'fields of the IDF layer are abstract tokens: the laws float(str(x)) == x, int(str(n)) == n, '
    "'Yes'.lower() == 'yes', str(x) != '' (structure TokLaws) are assumed of Python's str/float/int "
    '(exercised by the to_idf/from_idf correspondence on random floats)',
    'character level of the IDF text (padding, comment stripping by regex, split/strip, the DDY object regex) '
    'is an executable model tied by correspondence only; theorems are at field-list level',
    'radiation values: not modelled (C05/C10 own the sun position and sky models); the oracle recomputes '
    'them on the real code through Sunpath for the stated date',
    'IEEE evaluation of i * (1 / timestep) * 60 in _get_datetimes: executed by the driver in double '
    'arithmetic; the theorem is about exact arithmetic plus a general lemma for any offset inside the day '
    '(driver op sky_float_in_day checks the IEEE offsets stay inside the day for every day of the year)',
    'EPW/STAT-derived days: from_ashrae_dict_* modelled; approximate_design_day / monthly_cooling_design_days '
    'are checked by the oracle only (independent percentile / means of the raw EPW rows; the oracle takes the '
    'value-at-the-hour convention of the EPW reader - record k is hour k-1, wind direction in whole degrees - and '
    'the wet bulb of ladybug.psychrometrics for the mean coincident dew point; hours tied with the last selected '
    'one may be exchanged)',
    'translator tools/extract/ddy_setter.py: reads the statement order of the DDY.design_days setter '
    '(materialise / check / store); Model/DDYShapes.lean interprets it on re-iterable and one-shot arguments',
    'location update of the DDY setters: translator reads the test of both loops and Location.__key / __slots__; '
    'locations are opaque tokens in the model (equal token = equal nine attributes), tied by the `ddy_locs` '
    'correspondence; the oracle compares the nine attributes one by one',
    'coarse sun of the oracle (Cooper declination, simple equation of time): only day / night of the radiation '
    'with a 3 degree margin is asserted against it',
    'object state machine (Model/DesignDayObj.lean): the state is the public state; validation of setters and '
    'constructors is hand-written from designday.py / location.py and tied by the step-by-step `hist` '
    'correspondence; beam / diffuse schedule names of ASHRAEClearSky / ASHRAETau objects are outside the model; '
    'in-place edits of a Location object (assign-then-assert setters of location.py) are not exercised',
    'dew-point value clause of the oracle calls ladybug.psychrometrics directly (C09 owns those functions); '
    'DDY and EPW histories are oracle-only (no Lean state machine)',
]
ASSUMPTIONS = [
    'design-day dates are dates of the non-leap year (the IDF form carries month and day only)',
    'names and schedule names contain no comma, semicolon, exclamation mark or newline and no leading/'
    'trailing blanks (the IDF form cannot carry them)',
    'physically consistent inputs: humidity value not above saturation at the maximum dry bulb, range >= 0',
]

ASSETS = None


def _assets():
    global ASSETS
    if ASSETS is None:
        ASSETS = os.path.join(core.REPO, 'tests', 'assets')
    return ASSETS


def extract(ctx):
    from tools.extract import designday_tables, ddy_setter
    ctx.tables = designday_tables.extract()
    ctx.ddy_setter = ddy_setter.extract()


# ---------------------------------------------------------------------------------------------
# wire helpers


def _fbits(x):
    return '%016x' % struct.unpack('<Q', struct.pack('<d', float(x)))[0]


def _unbits(s):
    return struct.unpack('<d', struct.pack('<Q', int(s, 16)))[0]


def _b(x):
    return '1' if x else '0'


def _x(s):
    return 'x' + s.encode('utf-8').hex()


def _unx(t):
    return bytes.fromhex(t[1:]).decode('utf-8')


def _n(v):
    return 'n' + str(v).encode('utf-8').hex()


def _canon(line):
    """Normalise number tokens (`n<hex of text>`) to the repr of their float value."""
    if not line.startswith('ok'):
        return line
    out = []
    for t in line.split(' '):
        if t.startswith('n') and len(t) > 1 and all(c in '0123456789abcdef' for c in t[1:]):
            try:
                out.append('n' + repr(float(bytes.fromhex(t[1:]).decode('utf-8'))))
            except ValueError:
                out.append(t)
        else:
            out.append(t)
    return ' '.join(out)


DAY_TYPES = ('SummerDesignDay', 'WinterDesignDay', 'Sunday', 'Monday', 'Tuesday', 'Wednesday', 'Thursday',
             'Friday', 'Holiday', 'CustomDay1', 'CustomDay2')
HUM_TYPES = ('Wetbulb', 'Dewpoint', 'HumidityRatio', 'Enthalpy')
MONTH_LEN = (31, 28, 31, 30, 31, 30, 31, 31, 30, 31, 30, 31)
TIMESTEPS = (1, 2, 3, 4, 5, 6, 10, 12, 15, 20, 30, 60)


# ---------------------------------------------------------------------------------------------
# generators (plain numbers only; nothing of ladybug is used to build inputs)


def _sat_p(t):
    """Magnus saturation pressure (Pa) – only used to make consistent inputs."""
    if t < 0:
        return 611.21 * math.exp(22.587 * t / (t + 273.86))        # over ice
    return 610.94 * math.exp(17.625 * t / (t + 243.04))


def _humidity_value(rng, h_type, db, p, consistent=True):
    rh = rng.choice([100.0, 12.0, 50.0]) if rng.random() < 0.2 else rng.uniform(10, 100)
    if h_type == 'Wetbulb' and db < 2 and rh < 30:
        rh = rng.uniform(30, 100)          # keep clear of the dry corner where psychrometer formulas differ
    pw = _sat_p(db) * rh / 100.0
    g = math.log(pw / 610.94)
    dew = 243.04 * g / (17.625 - g)
    if dew < 0:
        g = math.log(pw / 611.21)
        dew = 273.86 * g / (22.587 - g)
    dew = min(dew, db)
    hr = 0.621945 * pw / (p - pw)
    if h_type == 'Dewpoint':
        v = dew if consistent else db + rng.uniform(0.5, 10)
    elif h_type == 'Wetbulb':
        # a wet bulb between dew point and dry bulb is always a physically possible state
        lo, hi = dew, db
        for _ in range(40):
            mid = (lo + hi) / 2.0
            if _sat_p(mid) - 0.000662 * p * (db - mid) < pw:
                lo = mid
            else:
                hi = mid
        v = (lo + hi) / 2.0 if rh < 100 else db
        if not consistent:
            v = db + rng.uniform(0.5, 8)
    elif h_type == 'HumidityRatio':
        v = hr if consistent else hr * 3 + 0.05
    else:
        v = 1000.0 * (1.006 * db + hr * (2501.0 + 1.86 * db))
        if v < 0:
            v = 0.0 if db >= 0 else v
        if not consistent:
            v = v * 3 + 80000.0
    return v


def _num(rng, x):
    """int spelling for whole numbers half of the time, otherwise float (maybe rounded)."""
    r = rng.random()
    if r < 0.25:
        return int(round(x))
    if r < 0.6:
        return round(x, rng.choice([1, 2, 4]))
    return float(x)


def _name(rng):
    words = ['Chicago', 'Ohare', 'Intl', 'Ap', 'Ann', 'Htg', '99.6%', 'Condns', 'DB', 'DB=>MWB', 'Clg', '.4%',
             'Tokyo', 'Sao', 'Paulo', 'Zuerich', 'a b', 'WS=>MDB', '1%']
    n = ' '.join(rng.choice(words) for _ in range(rng.randrange(1, 6)))
    if rng.random() < 0.05:
        n = 'Zürich ' + n
    if rng.random() < 0.05:
        n = n + ' ' + 'x' * rng.randrange(50, 70)        # longer than the 60-column padding
    return n


def _date(rng):
    r = rng.random()
    if r < 0.3:
        return rng.choice([(1, 1), (12, 31), (2, 28), (3, 1), (1, 2), (12, 30), (6, 30), (7, 31)])
    if r < 0.6:
        return rng.randrange(1, 13), 21
    m = rng.randrange(1, 13)
    return m, rng.randrange(1, MONTH_LEN[m - 1] + 1)


def _rand_desc(rng, consistent=True, sky=None, h_type=None):
    db = rng.uniform(-40, 55) if rng.random() < 0.8 else rng.choice([-40.0, 0.0, 55.0, 35.0])
    rngv = rng.choice([0, 0.0, 25.0, 10.5]) if rng.random() < 0.3 else rng.uniform(0, 25)
    p = rng.choice([101325, 60000.0, 105000.0]) if rng.random() < 0.3 else rng.uniform(60000, 105000)
    db, p = _num(rng, db), _num(rng, p)
    h_type = h_type or rng.choice(HUM_TYPES)
    if h_type == 'Enthalpy' and consistent and db < 5:
        # ladybug clips enthalpy at 0 (reference 0 C): sub-zero enthalpy states cannot be expressed
        h_type = rng.choice(HUM_TYPES[:3])
    hv = _humidity_value(rng, h_type, float(db), float(p), consistent)
    m, d = _date(rng)
    sky = sky or rng.choice(['clear', 'clear', 'tau', 'tau', 'base'])
    if sky == 'clear':
        c = rng.choice([0, 1, 1.2, 0.0, 1.0, 0.5]) if rng.random() < 0.4 else round(rng.uniform(0, 1.2), 3)
        skyd = ['clear', c]
    elif sky == 'tau':
        skyd = ['tau', round(rng.uniform(0.2, 0.8), 3), round(rng.uniform(1.5, 2.8), 3), rng.random() < 0.5]
    else:
        skyd = ['base', rng.choice(['', 'BeamSch', 'beam sched 1']), rng.choice(['', 'DiffSch', 'diff sched'])]
    mod = rng.random() < 0.2
    return {
        'name': _name(rng), 'day_type': rng.choice(DAY_TYPES[:2]) if rng.random() < 0.7 else rng.choice(DAY_TYPES),
        'db_max': db, 'db_range': _num(rng, rngv) if rngv else rngv,
        'mod_type': rng.choice(['MultiplierSchedule', 'DifferenceSchedule']) if mod else 'DefaultMultipliers',
        'mod_sched': 'RangeSch' if mod else '',
        'h_type': h_type, 'h_value': hv, 'pressure': p,
        'rain': rng.random() < 0.3, 'snow': rng.random() < 0.3,
        'sched': 'HumSch' if rng.random() < 0.15 else '',
        'wbr': None if rng.random() < 0.85 else round(rng.uniform(0, 8), 1),
        'ws': _num(rng, rng.uniform(0, 15)), 'wd': rng.choice([0, 360, 180, 90.0]) if rng.random() < 0.3
        else _num(rng, rng.uniform(0, 360)),
        'month': m, 'day': d, 'dst': rng.random() < 0.35, 'sky': skyd,
    }


def _rand_loc(rng):
    lat = rng.choice([0, -33.9, 41.98, 64.1, -77.85, 35.68]) if rng.random() < 0.5 else round(rng.uniform(-89, 89), 2)
    lon = rng.choice([0, 151.2, -87.92, -21.9, 166.7, 139.77]) if rng.random() < 0.5 else round(rng.uniform(-179, 179), 2)
    tz = max(-12, min(14, round(lon / 15)))
    if rng.random() < 0.3:
        tz = float(tz) + rng.choice([0.0, 0.5])
        tz = max(-12.0, min(14.0, tz))
    return {'city': rng.choice(['Chicago Ohare Intl Ap', 'Sydney', 'X', 'Reykjavik', 'McMurdo', 'Tokyo Hyakuri']),
            'lat': lat, 'lon': lon, 'tz': tz, 'elev': rng.choice([0, 201.0, -5.5, 1609])}


def _build_loc(ld):
    from ladybug.location import Location
    return Location(ld['city'], None, None, ld['lat'], ld['lon'], ld['tz'], ld['elev'])


def _build(desc, loc=None):
    from ladybug.designday import (DesignDay, DryBulbCondition, HumidityCondition, WindCondition,
                                   ASHRAEClearSky, ASHRAETau, _SkyCondition)
    from ladybug.dt import Date
    from ladybug.location import Location
    date = Date(desc['month'], desc['day'], bool(desc.get('leap', False)))
    s = desc['sky']
    if s[0] == 'clear':
        sky = ASHRAEClearSky(date, s[1], desc['dst'])
    elif s[0] == 'tau':
        sky = ASHRAETau(date, s[1], s[2], s[3], desc['dst'])
    else:
        sky = _SkyCondition(date, desc['dst'], s[1], s[2])
    hum = HumidityCondition(desc['h_type'], desc['h_value'], desc['pressure'], desc['rain'], desc['snow'],
                            desc['sched'], '' if desc['wbr'] is None else desc['wbr'])
    return DesignDay(desc['name'], desc['day_type'], loc or Location(),
                     DryBulbCondition(desc['db_max'], desc['db_range'], desc['mod_type'], desc['mod_sched']),
                     hum, WindCondition(desc['ws'], desc['wd']), sky)


def _dd_tokens(desc):
    s = desc['sky']
    if s[0] == 'clear':
        sky = ['clear', _x(str(s[1])), 'x', '0']
    elif s[0] == 'tau':
        sky = ['tau', _x(str(s[1])), _x(str(s[2])), _b(s[3])]
    else:
        sky = ['base', _x(s[1]), _x(s[2]), '0']
    return [_x(desc['name']), _x(desc['day_type']), _x(str(desc['db_max'])), _x(str(desc['db_range'])),
            _x(desc['mod_type']), _x(desc['mod_sched']), desc['h_type'], _x(str(desc['h_value'])),
            _x(str(desc['pressure'])), _b(desc['rain']), _b(desc['snow']), _x(desc['sched']),
            '-' if desc['wbr'] is None else _x(str(desc['wbr'])), _x(str(desc['ws'])), _x(str(desc['wd'])),
            str(desc['month']), str(desc['day']), _b(desc.get('leap', False)), _b(desc['dst'])] + sky


def _loc_tokens(ld):
    """The numbers as the Location constructor stores them (`0 if not v else float(v)`; `float(v)`)."""
    def ll(v):
        return 0 if not v else float(v)
    return [_x(ld['city']), _x(str(ll(ld['lat']))), _x(str(ll(ld['lon']))), _x(str(float(ld['tz']))),
            _x(str(float(ld['elev'])))]


def _show_dd(dd):
    """A real DesignDay in the model's output format."""
    from ladybug.designday import ASHRAEClearSky, ASHRAETau
    sc = dd.sky_condition
    if type(sc) is ASHRAEClearSky:
        sky = ['clear', _n(sc.clearness)]
    elif type(sc) is ASHRAETau:
        sky = ['tau', _n(sc.tau_b), _n(sc.tau_d), _b(sc.use_2017)]
    else:
        sky = ['base', _x(sc.beam_schedule), _x(sc.diffuse_schedule)]
    h = dd.humidity_condition
    wbr = '-' if h.wet_bulb_range == '' else _n(h.wet_bulb_range)
    return ' '.join([_x(dd.name), _x(dd.day_type), _n(dd.dry_bulb_condition.dry_bulb_max),
                     _n(dd.dry_bulb_condition.dry_bulb_range), _x(dd.dry_bulb_condition.modifier_type),
                     _x(dd.dry_bulb_condition.modifier_schedule), h.humidity_type, _n(h.humidity_value),
                     _n(h.barometric_pressure), _b(h.rain), _b(h.snow_on_ground), _x(h.schedule), wbr,
                     _n(dd.wind_condition.wind_speed), _n(dd.wind_condition.wind_direction),
                     str(sc.date.month), str(sc.date.day), _b(sc.date.leap_year), _b(sc.daylight_savings)] + sky)


def _show_loc(loc):
    return ' '.join([_x(loc.city), _n(loc.latitude), _n(loc.longitude), _n(loc.time_zone), _n(loc.elevation)])


_DDAY_P = re.compile(r"(SizingPeriod:DesignDay,(.|\n)*?((;\s*!)|(;\s*\n)|(;\n)))")


def _shipped_ddy_texts():
    out = []
    ddir = os.path.join(_assets(), 'ddy')
    for fn in sorted(os.listdir(ddir)):
        if fn.lower().endswith('.ddy'):
            with open(os.path.join(ddir, fn), encoding='utf-8', errors='ignore') as f:
                out.append((fn, f.read()))
    return out


def _good_idf_text(rng, desc):
    """An IDF object text written by the harness itself (EnergyPlus style), not by to_idf."""
    s = desc['sky']
    vals = [desc['name'], desc['month'], desc['day'], desc['day_type'], desc['db_max'], desc['db_range'],
            desc['mod_type'], desc['mod_sched'], desc['h_type'], '', desc['sched'], '', '',
            '' if desc['wbr'] is None else desc['wbr'], desc['pressure'], desc['ws'], desc['wd'],
            'Yes' if desc['rain'] else 'No', 'Yes' if desc['snow'] else 'No', 'Yes' if desc['dst'] else 'No']
    if desc['h_type'] in ('Wetbulb', 'Dewpoint'):
        vals[9] = desc['h_value']
    elif desc['h_type'] == 'HumidityRatio':
        vals[11] = desc['h_value']
    else:
        vals[12] = desc['h_value']
    if s[0] == 'clear':
        vals += ['ASHRAEClearSky', '', '', '', '', s[1]]
    elif s[0] == 'tau':
        vals += ['ASHRAETau2017' if s[3] else 'ASHRAETau', '', '', s[1], s[2]]
    else:
        vals += [rng.choice(['Schedule', 'ZhangHuang']), s[1], s[2]]
    return vals


def _respell(rng, i, v):
    """Another legal text spelling of a number of an IDF field (what float() / int() of Python accept)."""
    if isinstance(v, bool) or not isinstance(v, (int, float)):
        return v
    if i in (1, 2):                                   # month, day of month: int()
        return rng.choice(['%02d' % v, '+%d' % v, '%d ' % v, '0%02d' % v])
    k = rng.choice(['exp', 'EXP', 'plus', 'zero', 'dot', 'int'])
    if k == 'exp':
        return '%.10e' % v
    if k == 'EXP':
        return '%.12E' % v
    if k == 'plus':
        return ('+%r' % v) if v >= 0 else repr(v)
    if k == 'zero':
        return ('00%r' % v) if v >= 0 else repr(v)
    if k == 'dot' and float(v) == int(v) and abs(v) < 1e9:
        return '%d.' % v
    if k == 'int' and float(v) == int(v) and abs(v) < 1e9:
        return '%d' % v
    return repr(v)


def _render(rng, vals, style=None, plain=False):
    style = style or rng.choice(['lines', 'lines', 'compact', 'nocomment', 'crlf', 'tabs', 'unterminated', 'nonewline'])
    if not plain and rng.random() < 0.3:
        vals = [('YES' if v == 'Yes' else 'no' if v == 'No' else v) for v in vals]
    if not plain and rng.random() < 0.35:
        vals = [_respell(rng, i, v) if rng.random() < 0.5 else v for i, v in enumerate(vals)]
    if style in ('crlf', 'tabs'):
        out = ['SizingPeriod:DesignDay,' + ('\r\n' if style == 'crlf' else '\n')]
        for i, v in enumerate(vals):
            sep = ';' if i == len(vals) - 1 else ','
            if style == 'crlf':
                out.append('    %s%s    !- field %d\r\n' % (v, sep, i + 1))
            else:
                out.append('\t%s\t%s\t!- field %d\n' % (v, sep, i + 1))
        return ''.join(out)
    if style == 'unterminated':          # no closing semicolon: the last value is the last field
        return 'SizingPeriod:DesignDay, ' + ', '.join(str(v) for v in vals)
    if style == 'nonewline':             # a comment after the semicolon that no newline ends: it stays a field
        return 'SizingPeriod:DesignDay,\n' + ',\n'.join('  %s' % v for v in vals) + ';  !- end'
    if style == 'compact':
        return 'SizingPeriod:DesignDay, ' + ', '.join(str(v) for v in vals) + ';'
    out = ['SizingPeriod:DesignDay,\n']
    for i, v in enumerate(vals):
        sep = ';' if i == len(vals) - 1 else ','
        cm = '' if style == 'nocomment' else '    !- field %d' % (i + 1)
        out.append('    %s%s%s\n' % (v, sep, cm))
    return ''.join(out)


def _from_idf_branches(text):
    """Branches of DesignDay.from_idf a text reaches (by the field count and the words of the text itself)."""
    t = re.sub(r'!.*\n', '', text.strip().replace(';', ','))
    f = [e.strip() for e in t.split(',')]
    out = []
    if not text.strip().startswith('SizingPeriod:DesignDay'):
        return ['wrong_object']
    n = len(f)
    out.append('rain_field' if n > 18 else 'no_rain_field')
    out.append('snow_field' if n > 19 else 'no_snow_field')
    out.append('dst_field' if n > 20 else 'no_dst_field')
    if n == 21 and f[20].lower() == 'yes':
        out.append('no_sky_fields_with_daylight_saving')
    if n > 9:
        out.append('humidity:' + (f[9] if f[9] in ('HumidityRatio', 'Enthalpy') else 'wetbulb_or_dewpoint'))
    if n > 10 and f[10] == '':
        out.append('empty_humidity_value')
    if n > 21:
        m = f[21]
        if m == 'ASHRAEClearSky':
            out.append('clear_sky:' + ('clearness_field' if n > 26 else 'no_clearness_field'))
        elif m in ('ASHRAETau', 'ASHRAETau2017'):
            out.append('tau:' + ('both' if n > 25 else 'taub_only' if n > 24 else 'none'))
        else:
            out.append('other_sky:' + ('Schedule' if m == 'Schedule' else 'other'))
    else:
        out.append('no_sky_fields')
    return out


def _malformed(rng, vals):
    vals = list(vals)
    kind = rng.choice(['truncate', 'truncate', 'badnum', 'badtype', 'baddaytype', 'baddate', 'neg', 'winddir',
                       'clear', 'head', 'swapflag'])
    if kind == 'truncate':
        # the guarded tails of from_idf (fields 18..26) twice as often as the unguarded head
        vals = vals[:rng.choice([rng.randrange(0, len(vals)), rng.randrange(min(17, len(vals)), len(vals) + 1)])]
    elif kind == 'badnum':
        vals[rng.choice([4, 5, 14, 15, 16])] = rng.choice(['abc', '', '1.2.3', 'Yes'])
    elif kind == 'badtype':
        vals[8] = rng.choice(['WetBulb', 'RelativeHumidity', ''])
    elif kind == 'baddaytype':
        vals[3] = rng.choice(['summerdesignday', 'Saturday', ''])
    elif kind == 'baddate':
        vals[1], vals[2] = rng.choice([(2, 30), (13, 1), (0, 5), (4, 31), ('7.0', 21), (2, 29)])
    elif kind == 'neg':
        vals[5] = -1.5
    elif kind == 'winddir':
        vals[16] = rng.choice([361, -0.5, 360.0])
    elif kind == 'clear' and len(vals) > 25:
        vals[25] = rng.choice([1.3, -0.1, 1.2])
    elif kind == 'swapflag':
        vals[17], vals[19] = vals[19], vals[17]
    text = _render(rng, vals)
    if kind == 'head':
        text = text.replace('SizingPeriod:DesignDay', rng.choice(['SizingPeriod:WeatherFileDays', 'Site:Location']), 1)
    return kind, text


# ---------------------------------------------------------------------------------------------
# correspondence


def _floats_line(vals):
    if any(isinstance(v, float) and (math.isnan(v) or math.isinf(v)) for v in vals):
        return 'nonfinite'
    return 'ok ' + ' '.join(_fbits(v) for v in vals)


def _close_floats(tol):
    def canon(line):
        if not line.startswith('ok '):
            return line
        return 'ok ' + ' '.join('%.*e' % (tol, _unbits(t)) for t in line[3:].split(' '))
    return canon


def correspondence(ctx):
    import contextlib
    import io
    rng = ctx.rng
    tmp = tempfile.mkdtemp(prefix='c16_')
    try:
        with contextlib.redirect_stdout(io.StringIO()):
            _correspondence(ctx, rng, tmp)
    finally:
        shutil.rmtree(tmp, ignore_errors=True)


def _correspondence(ctx, rng, tmp):
    from ladybug.designday import (DesignDay, DryBulbCondition, HumidityCondition, ASHRAEClearSky, ASHRAETau,
                                   _SkyCondition)
    from ladybug.dt import Date
    from ladybug.location import Location
    from ladybug.ddy import DDY

    # --- dry-bulb profile (bit exact)
    cases = [(55.0, 25.0), (-40.0, 0.0), (0.0, 0.0), (35, 10), (30.5, 11.3)]
    # numeric edges: tiny and huge magnitudes, sums that are not exact, halves, negative zero
    cases += [(1e-12, 1e-13), (1e16, 1e3), (1e16, 1.0), (0.1 + 0.2, 0.3), (-0.0, 0.0), (0.5, 0.5), (2.5, 2.5),
              (1e-300, 1e-300), (-1e-12, 1e-12), (33.3, 1e-9), (1e9 + 0.5, 12.5), (100.0, 100.0)]
    ctx.count('branch:numeric_edges_db', 12)
    for _ in range(ctx.n(400, 5000)):
        cases.append((rng.uniform(-40, 55), rng.choice([0.0, rng.uniform(0, 25), float(rng.randrange(0, 26))])))
    compare_batch(ctx, 'db', cases, lambda c: 'db %s %s' % (_fbits(c[0]), _fbits(c[1])),
                  lambda c: _floats_line(DryBulbCondition(c[0], c[1]).hourly_values), key=lambda c: repr(c))

    # --- humidity profile (dew point + relative humidity, 1e-9 relative)
    cases = []
    for _ in range(ctx.n(300, 4000)):
        d = _rand_desc(rng, consistent=rng.random() < 0.85)
        cases.append((d['h_type'], float(d['h_value']), float(d['pressure']), float(d['db_max']), float(d['db_range'])))
        ctx.count('hum:' + d['h_type'])

    from ladybug.psychrometrics import rel_humid_from_db_dpt
    lines = ['hum %s %s' % (c[0], ' '.join(_fbits(x) for x in c[1:])) for c in cases]
    outs = ctx.driver().run(lines)
    canon = _close_floats(9)
    for c, line, mo in zip(cases, lines, outs):
        try:
            h = HumidityCondition(c[0], c[1], c[2])
            db = DryBulbCondition(c[3], c[4])
            dp = h.hourly_dew_point_values(db)
            rh = [rel_humid_from_db_dpt(x, y) for x, y in zip(db.hourly_values, dp)]
            io = _floats_line(dp + rh)
        except ZeroDivisionError:
            # exact pole of the saturation formula (dew point -273.15 C): IEEE inf is squashed back to a
            # finite value in the model (see C09); not comparable
            ctx.count('hum_zero_division_skipped')
            continue
        except (ValueError, OverflowError):
            io = 'nonfinite'
        ctx.compared += 1
        ctx.count('op:hum')
        ctx.case(('hum', line), nontrivial=io.startswith('ok'))
        if canon(mo) != canon(io):
            ctx.disagree('hum', {'case': list(c), 'line': line}, mo, io)
    if cases:
        ctx.sample({'op': 'hum', 'request': lines[0], 'model': outs[0][:80]})

    # --- sky cover
    cases = [0.0, 1.0, 1.2, 0.5, 1.0000001, 0.9999999] + [rng.uniform(0, 1.2) for _ in range(ctx.n(50, 500))]
    compare_batch(ctx, 'cover', cases, lambda c: 'cover ' + _fbits(c),
                  lambda c: _floats_line([float(v) for v in ASHRAEClearSky(Date(1, 1), c).hourly_sky_cover]),
                  key=repr)

    # --- hourly_datetimes / _get_datetimes for every date of the year
    dates = [(False, m + 1, d) for m in range(12) for d in range(1, MONTH_LEN[m] + 1)]
    dates += [(True, m, d) for (m, d) in ((1, 1), (2, 28), (2, 29), (3, 1), (12, 30), (12, 31), (7, 21))]
    loc0 = Location()

    def mk(c, dst=False):
        return ASHRAEClearSky(Date(c[1], c[2], c[0]), 1, dst)

    def impl_hdts(c):
        dd = DesignDay('n', 'SummerDesignDay', loc0, DryBulbCondition(30, 10), HumidityCondition('Wetbulb', 20),
                       __import__('ladybug.designday', fromlist=['WindCondition']).WindCondition(2, 0), mk(c))
        return 'ok ' + ' '.join(str(x.moy) for x in dd.hourly_datetimes)

    compare_batch(ctx, 'hdts', dates, lambda c: 'hdts %s %d %d' % (_b(c[0]), c[1], c[2]), impl_hdts)

    # date-times (and year kind) of the header of the hourly collections, every date of both year kinds;
    # each of the 8 collections in turn
    colls = ('hourly_dry_bulb', 'hourly_dew_point', 'hourly_relative_humidity', 'hourly_barometric_pressure',
             'hourly_wind_speed', 'hourly_wind_direction', 'hourly_sky_cover', 'hourly_horizontal_infrared')
    leap_dates = [(True, m + 1, d) for m in range(12) for d in range(1, MONTH_LEN[m] + 1 + (1 if m == 1 else 0))]
    cdates = [(c, colls[i % len(colls)]) for i, c in enumerate(dates + leap_dates)]

    def impl_cdts(cc):
        c, attr = cc
        dd = DesignDay('n', 'SummerDesignDay', loc0, DryBulbCondition(30, 10), HumidityCondition('Wetbulb', 20),
                       __import__('ladybug.designday', fromlist=['WindCondition']).WindCondition(2, 0),
                       ASHRAETau(Date(c[1], c[2], c[0]), 0.4, 2.0) if c[2] % 2 else mk(c))
        return 'ok ' + ' '.join('%d%s' % (x.moy, 'L' if x.leap_year else 'C') for x in getattr(dd, attr).datetimes)

    compare_batch(ctx, 'cdts', cdates, lambda cc: 'cdts %s %d %d' % (_b(cc[0][0]), cc[0][1], cc[0][2]), impl_cdts,
                  key=lambda cc: repr(cc[0]))
    scases = []
    for c in dates:
        pick = c[1:] in ((1, 1), (1, 2), (12, 31), (12, 30), (2, 28), (3, 1), (7, 21)) or not ctx.quick
        tss = TIMESTEPS if pick else (1, rng.choice(TIMESTEPS))
        for ts in tss:
            for dst in (False, True):
                scases.append((c[0], c[1], c[2], dst, ts))
    for ts in (7, 9, 24):
        scases.append((False, 1, 1, False, ts))
        scases.append((False, 6, 21, True, ts))
    compare_batch(ctx, 'sdts', scases, lambda c: 'sdts %s %d %d %s %d' % (_b(c[0]), c[1], c[2], _b(c[3]), c[4]),
                  lambda c: 'ok ' + ' '.join(str(x.moy) for x in mk(c, c[3])._get_datetimes(c[4])))
    # where does IEEE truncation differ from exact arithmetic?  (recorded, not an error)
    drv = ctx.driver()
    ex = drv.run(['sdts_exact %s %d %d %s %d' % (_b(c[0]), c[1], c[2], _b(c[3]), c[4]) for c in scases])
    fl = drv.run(['sdts %s %d %d %s %d' % (_b(c[0]), c[1], c[2], _b(c[3]), c[4]) for c in scases])
    ctx.count('sdts_ieee_differs_from_exact', sum(1 for a, b in zip(ex, fl) if a != b))
    ind = drv.run(['sky_float_in_day %d' % ts for ts in TIMESTEPS])
    for ts, o in zip(TIMESTEPS, ind):
        ctx.compared += 1
        if o != 'ok 1':
            ctx.disagree('sky_float_in_day', {'timestep': ts}, o, 'ok 1 (IEEE offsets stay inside the day)')

    # --- to_idf (text, exact) and the model's own field-level round trip
    descs = [_rand_desc(rng) for _ in range(ctx.n(400, 6000))]
    for d in descs:
        ctx.count('sky:' + d['sky'][0])
        ctx.count('dd_hum:' + d['h_type'])
    compare_batch(ctx, 'to_idf', descs, lambda d: 'to_idf ' + ' '.join(_dd_tokens(d)),
                  lambda d: 'ok ' + _x(_build(d).to_idf()), key=lambda d: repr(sorted(d.items())))

    # --- the model's own field-level round trip (a test of the model, labelled as such): equal for every
    #     non-Schedule sky without wet-bulb range; the two recorded defects show as 'err:value' / unequal
    outs = ctx.driver().run(['roundtrip ' + ' '.join(_dd_tokens(d)) for d in descs])
    for d, o in zip(descs, outs):
        ctx.compared += 1
        ctx.subclaim('model_field_roundtrip', True)
        if d['sky'][0] == 'base':
            want = o == 'err:value'
        elif d['wbr'] is not None:
            want = o.startswith('ok 0 ')
        else:
            want = o.startswith('ok 1 ')
        if not want:
            ctx.disagree('roundtrip', {'desc': d}, o, 'model round trip: equal / recorded defect')

    # --- from_idf: texts written by to_idf, by the harness, shipped objects, malformed
    texts = []
    for d in descs[:ctx.n(250, 3000)]:
        if d['sky'][0] != 'base':                 # to_idf of a plain _SkyCondition is not parseable (finding)
            texts.append(('written', _build(d).to_idf()))
        else:
            texts.append(('written_base', _build(d).to_idf()))
    for d in descs[:ctx.n(250, 3000)]:
        vals = _good_idf_text(rng, d)
        texts.append(('harness', _render(rng, vals)))
        if rng.random() < 0.45:
            kind, t = _malformed(rng, vals)
            texts.append(('malformed:' + kind, t))
    for fn, text in _shipped_ddy_texts():
        for m in _DDAY_P.findall(text):
            texts.append(('shipped', m[0]))
    # every guarded tail of from_idf: the object cut after exactly 17 .. 26 values
    for d in descs[:14]:
        vals = _good_idf_text(rng, d)
        for cut in range(17, min(len(vals), 26) + 1):
            texts.append(('malformed:cut', _render(rng, vals[:cut], 'lines')))
            texts.append(('malformed:cut_unterminated', _render(rng, vals[:cut], 'unterminated')))
            if cut % 3 == 0:
                texts.append(('malformed:cut_nonewline', _render(rng, vals[:cut], 'nonewline')))
    for k, t in texts:
        ctx.count('from_idf:' + k.split(':')[0])
        if ':' in k:
            ctx.count('from_idf_' + k)
        for b in _from_idf_branches(t):
            ctx.count('branch:from_idf:' + b)

    def impl_from(c):
        return 'ok ' + _show_dd(DesignDay.from_idf(c[1], loc0))

    compare_batch(ctx, 'from_idf', texts, lambda c: 'from_idf ' + _x(c[1]), impl_from, canon=_canon,
                  key=lambda c: c[1])

    # --- Location IDF
    locs = [_rand_loc(rng) for _ in range(ctx.n(60, 600))]
    compare_batch(ctx, 'loc_to_idf', locs, lambda l: 'loc_to_idf ' + ' '.join(_loc_tokens(l)),
                  lambda l: 'ok ' + _x(_build_loc(l).to_idf()), key=lambda l: repr(sorted(l.items())))
    ltexts = [_build_loc(l).to_idf() for l in locs]
    ltexts += ['Site:Location,\n  ,\n  ,\n  ,\n  0,\n  ;', 'Site:Location, A, 91, 0, 0, 0;',
               'Site:Location, A, 10, 181, 0, 0;', 'Site:Location, A, 10, 20, 15, 0;', 'Site:Location, A, 10, 20;',
               'Site:Location, A, x, 20, 1, 0;', 'SizingPeriod:DesignDay, A, 1, 2, 3, 4;',
               'Site:Location,\n CHICAGO_IL_USA Design_Conditions,     !- Location Name\n      41.98,     '
               '!- Latitude {N+ S-}\n     -87.92,     !- Longitude {W- E+}\n      -6.00,     !- Time Zone '
               'Relative to GMT {GMT+/-}\n     201.00;     !- Elevation {m}']
    compare_batch(ctx, 'loc_from_idf', ltexts, lambda t: 'loc_from_idf ' + _x(t),
                  lambda t: 'ok ' + _show_loc(Location.from_idf(t)), canon=_canon)

    # --- DDY writer and reader
    ycases = []
    for _ in range(ctx.n(40, 400)):
        ld = _rand_loc(rng)
        n = rng.choice([0, 1, 1, 2, 3, 5])
        ycases.append((ld, [_rand_desc(rng, sky=rng.choice(['clear', 'tau'])) for _ in range(n)]))
        ctx.count('ddy_days:%d' % n)

    shape_of = {}

    def impl_ddy_write(c):
        # the model takes the design days as a list; the real DDY gets the same days in every kind of sequence
        loc = _build_loc(c[0])
        k = repr(c)
        if k not in shape_of:
            shape_of[k] = rng.choice(SHAPES)
            ctx.count('ddy_shape:' + shape_of[k])
        days = [_build(d, loc) for d in c[1]]
        if rng.random() < 0.5:
            y = DDY(loc, _shape(shape_of[k], days))
        else:
            y = DDY(loc, _shape(shape_of[k], days[:1]))
            y.design_days = _shape(shape_of[k], days)
        return 'ok ' + _x(y.to_file_string())

    compare_batch(ctx, 'ddy_to_string', ycases,
                  lambda c: 'ddy_to_string %d %s %s' % (len(c[1]), ' '.join(_loc_tokens(c[0])),
                                                       ' '.join(' '.join(_dd_tokens(d)) for d in c[1])),
                  impl_ddy_write, key=lambda c: repr(c))
    ftexts = [t for _, t in _shipped_ddy_texts()]
    for c in ycases:
        loc = _build_loc(c[0])
        ftexts.append(DDY(loc, [_build(d, loc) for d in c[1]]).to_file_string())
    ftexts += ['', 'Site:Location, A, 1, 2, 3, 4;\n', ftexts[0].replace('Site:Location', 'Site:Loc')]
    # files that are not UTF-8 (latin-1 place names): the reader drops the undecodable bytes
    LATIN = '\u00fc\u00e9\u00df'
    lat = [t.replace('Chicago', 'Z' + LATIN[0] + 'rich').replace('Tokyo', 'Saint-' + LATIN[1] + 'tienne')
           for t in ftexts[5:5 + ctx.n(6, 40)]]
    lat = [('latin1', t) for t in lat if any(ch in t for ch in LATIN)]
    ctx.count('branch:ddy_non_utf8_file', len(lat))
    ftexts += lat
    counter = [0]

    def as_read(t):
        """The text `from_ddy_file` sees: for a latin-1 file the non-ASCII bytes are dropped."""
        if isinstance(t, tuple):
            return ''.join(ch for ch in t[1] if ord(ch) < 128)
        return t

    def impl_ddy_read(t):
        counter[0] += 1
        p = os.path.join(tmp, 'f%d.ddy' % counter[0])
        if isinstance(t, tuple):
            with open(p, 'wb') as f:
                f.write(t[1].encode('latin-1'))
        else:
            with open(p, 'w', encoding='utf-8') as f:
                f.write(t)
        y = DDY.from_ddy_file(p)
        return 'ok %d %s %s' % (len(y.design_days), _show_loc(y.location),
                                ' '.join(_show_dd(d) for d in y.design_days))

    compare_batch(ctx, 'ddy_from_string', ftexts, lambda t: 'ddy_from_string ' + _x(as_read(t)), impl_ddy_read,
                  canon=_canon, key=lambda t: hash(t))

    # --- the design_days setter on every container kind against the interpreted statement order (Gen.DDY)
    scases = []
    for sh in SHAPES:
        for bits in ('', '1', '11', '111', '10', '01', '1101', '0'):
            scases.append((sh, bits))
    ctx.count('branch:ddy_setter_corr_cases', len(scases))
    one_day = _build(_with(), loc0)

    def impl_setter(c):
        items = [one_day.duplicate() if b == '1' else 'not a day' for b in c[1]]
        y = DDY(loc0, [one_day])
        try:
            y.design_days = _shape(c[0], items)
        except AssertionError:
            return 'err:assert' if len(y) == 1 else 'refused but changed'
        return 'ok %d' % len(y.design_days) if len(y) == len(y.design_days) == len(list(y)) else 'inconsistent lengths'

    def kind_of(sh):
        return 'list' if sh == 'list' else ('oneshot' if sh in ONE_SHOT else 'container')

    compare_batch(ctx, 'ddy_setter', scases, lambda c: 'ddy_setter %s b%s' % (kind_of(c[0]), c[1]), impl_setter,
                  key=repr)

    # --- round 6: the location-update loops of the two setters against Model/DDYShapes.updateLocations: the days'
    # locations differ from the DDY's in one attribute / metadata only / position only / nothing; a location is
    # an opaque token for the model (hex of its nine canonical fields written here by hand)
    def tok9(ld, var):
        v = dict(ld)
        v.update(var)
        f = lambda x: repr(float(x))
        return _x(json.dumps([v['city'], v.get('state') or '-', v.get('country') or '-', f(v['lat']), f(v['lon']),
                              f(v['tz']), f(v['elev']), v.get('station_id'), v.get('source')]))

    lcases = []
    for k in range(ctx.n(60, 600)):
        ld = _rand_loc(rng)
        n = rng.choice([1, 2, 3, 5])
        if k < 2 * len(LOC_ATTRS):
            vs = [_station_var(rng, ld, [LOC_ATTRS[k % len(LOC_ATTRS)]]) for _ in range(n)]
        else:
            vs = [_gen_ddy_station(rng)['var'] if rng.random() < 0.7 else {} for _ in range(n)]
            vs = [_station_var(rng, ld, sorted(v)) for v in vs]
        lcases.append({'which': 'loc' if k % 3 == 0 else 'days', 'loc': ld, 'vars': vs})
        for v in vs:
            ctx.count('ddy_locs:differs:' + (','.join(sorted(v)) if len(v) <= 1 else
                                              'metadata_only' if not set(v) & {'lat', 'lon', 'tz'} else 'several')
                      if v else 'ddy_locs:differs:nothing')

    def impl_locs(c):
        L = _build_loc9(c['loc'])
        days = [_build(_with(), _build_loc9(c['loc'], v)) for v in c['vars']]
        if c['which'] == 'loc':
            y = DDY(_build_loc9(c['loc'], c['vars'][0]), days)
            y.location = L
        else:
            y = DDY(L, [])
            y.design_days = days
        return 'ok ' + ' '.join(_x(json.dumps(list(_loc_fields(d.location)))) for d in y.design_days)

    import contextlib
    import io
    with contextlib.redirect_stdout(io.StringIO()):
        compare_batch(ctx, 'ddy_locs', lcases, lambda c: 'ddy_locs %s %s %s' % (
            c['which'], tok9(c['loc'], {}), ' '.join(tok9(c['loc'], v) for v in c['vars'])), impl_locs,
            key=lambda c: json.dumps(c, sort_keys=True))

    # --- from_ashrae_dict_heating / cooling
    tables = getattr(ctx, 'tables', None)
    hkeys = tables['keys']['HEATING_KEYS'] if tables else DesignDay.HEATING_KEYS
    ckeys = tables['keys']['COOLING_KEYS'] if tables else DesignDay.COOLING_KEYS
    hcases, ccases = [], []
    for _ in range(ctx.n(60, 600)):
        city = rng.choice(['Chicago Ohare Intl Ap', 'Tokyo', '-'])
        press = rng.choice([101325, 98000.0, 99063])
        hd = {k: str(round(rng.uniform(-30, 40), 1)) for k in hkeys}
        hd['Month'] = str(rng.randrange(1, 13))
        hd['WD_DB996'] = str(rng.choice([0, 270, 360, 45]))
        cd = {k: str(round(rng.uniform(0, 40), 1)) for k in ckeys}
        cd['Month'] = str(rng.randrange(1, 13))
        cd['WD_DB004'] = str(rng.choice([0, 270, 360, 45]))
        r = rng.random()
        if r < 0.08:
            hd.pop(rng.choice(['DB996', 'DB990', 'WS_DB996', 'Month']))
            cd.pop(rng.choice(['DB004', 'WB_DB010', 'DBR', 'Month']))
        elif r < 0.16:
            hd['Month'] = rng.choice(['13', '0', 'Jan'])
            cd['WD_DB004'] = '400'
        elif r < 0.2:
            hd['DB996'] = 'N/A'
            cd['DBR'] = '-2'
        tau = None if rng.random() < 0.5 else (round(rng.uniform(0.2, 0.8), 3), round(rng.uniform(1.5, 2.8), 3))
        hcases.append((rng.random() < 0.5, city, press, hd))
        ccases.append((rng.random() < 0.5, city, press, tau, cd))

    def kvs(d):
        return ' '.join('%s=%s' % (_x(k), _x(v)) for k, v in d.items())

    def loc_of(city):
        return Location(city)

    def impl_h(c):
        try:
            return 'ok ' + _show_dd(DesignDay.from_ashrae_dict_heating(dict(c[3]), loc_of(c[1]), c[0], c[2]))
        except KeyError:
            return 'err:index'

    def impl_c(c):
        try:
            return 'ok ' + _show_dd(DesignDay.from_ashrae_dict_cooling(dict(c[4]), loc_of(c[1]), c[0], c[2], c[3]))
        except KeyError:
            return 'err:index'

    compare_batch(ctx, 'ashrae_h', hcases,
                  lambda c: 'ashrae_h %s %s %s %s' % (_b(c[0]), _x(c[1]), _x(str(c[2])), kvs(c[3])),
                  impl_h, canon=_canon, key=lambda c: repr(c))
    compare_batch(ctx, 'ashrae_c', ccases,
                  lambda c: 'ashrae_c %s %s %s %s %s' % (
                      _b(c[0]), _x(c[1]), _x(str(c[2])),
                      ('- -' if c[3] is None else '%s %s' % (_x(str(c[3][0])), _x(str(c[3][1])))), kvs(c[4])),
                  impl_c, canon=_canon, key=lambda c: repr(c))

    # --- round 3: histories on one object, step by step against the Lean object state machine
    _history_correspondence(ctx, rng)


# ---------------------------------------------------------------------------------------------
# property oracle: the statement of C16 evaluated on the real classes, independent of the model


def _sky_sig(desc):
    s = desc['sky']
    return {'clear': 'ASHRAEClearSky', 'tau': 'ASHRAETau', 'base': 'SkyCondition'}[s[0]]


def _expected_day(month, day):
    base = datetime(2017, month, day)
    return [base + timedelta(hours=h) for h in range(24)]


def _on_day(dts, month, day, minutes=(0,), leap=None):
    exp = [(month, day, h, mi) for h in range(24) for mi in minutes]
    got = [(d.month, d.day, d.hour, d.minute) for d in dts]
    if leap is not None and got == exp:
        # the date-times are those of the year kind the stated date carries (29 Feb exists only there)
        flags = [bool(d.leap_year) for d in dts]
        if flags != [bool(leap)] * len(flags):
            return False, ['leap_year flags', flags[:2]]
    return got == exp, got[:2] + got[-1:]


def _stated_dew_point(desc):
    from ladybug import psychrometrics as ps
    t, v, p, mx = desc['h_type'], desc['h_value'], desc['pressure'], desc['db_max']
    try:
        if t == 'Dewpoint':
            return v
        if t == 'Wetbulb':
            return ps.dew_point_from_db_wb(mx, v, p)
        if t == 'HumidityRatio':
            return ps.dew_point_from_db_hr(mx, v, p)
        return ps.dew_point_from_db_enth(mx, v / 1000, p)
    except (ValueError, ZeroDivisionError, OverflowError):
        return None


def _profile_clauses(dd, desc):
    """The self-consistency clauses of the statement on an existing design-day object whose stated
    (user-established) values are `desc`."""
    sig = {'h_type': desc['h_type']}
    db = list(dd.hourly_dry_bulb.values)
    mx, rg = desc['db_max'], desc['db_range']
    if len(db) != 24 or max(db) != mx:
        return {'required': 'max of 24 hourly dry bulbs == %r' % mx, 'observed': (len(db), max(db)),
                'sig': dict(sig, clause='db_max')}
    if min(db) != mx - rg or abs((max(db) - min(db)) - rg) > 1e-9 * max(1.0, abs(mx)):
        return {'required': 'min == max - range = %r' % (mx - rg), 'observed': min(db),
                'sig': dict(sig, clause='db_range')}
    dp = list(dd.hourly_dew_point.values)
    for h, (a, b) in enumerate(zip(db, dp)):
        if b > a:
            return {'required': 'dew point <= dry bulb at hour %d' % h, 'observed': (a, b),
                    'sig': dict(sig, clause='dew_le_db')}
    # the moisture of the day is that of the stated humidity condition at the maximum dry bulb (evaluated
    # here directly through ladybug.psychrometrics, which C09 owns), capped at saturation hour by hour
    want_d = _stated_dew_point(desc)
    if want_d is not None:
        for h, (a, b) in enumerate(zip(db, dp)):
            w = want_d if a >= want_d else a
            if abs(b - w) > 1e-9 * max(1.0, abs(w)):
                return {'required': 'dew point at hour %d = min(dry bulb %r, dew point %r of the stated %s %r at '
                                    '%r Pa)' % (h, a, want_d, desc['h_type'], desc['h_value'], desc['pressure']),
                        'observed': b, 'sig': dict(sig, clause='dew_value')}
    rh = list(dd.hourly_relative_humidity.values)
    for h, v in enumerate(rh):
        if not (0 <= v <= 100 + 1e-9):
            return {'required': '0 <= rh <= 100 at hour %d' % h, 'observed': v,
                    'sig': dict(sig, clause='rh_range')}
    # every consumer of the hourly dew point sees the same (capped) dew point: the condition object itself,
    # the relative humidity (that of the hourly dry bulb / dew point pair) and the horizontal infrared
    from ladybug.psychrometrics import rel_humid_from_db_dpt
    from ladybug.skymodel import calc_horizontal_infrared
    raw = list(dd.humidity_condition.hourly_dew_point_values(dd.dry_bulb_condition))
    if raw != dp:
        h = [i for i in range(min(len(raw), len(dp))) if raw[i] != dp[i]][:1]
        return {'required': 'HumidityCondition.hourly_dew_point_values == hourly_dew_point values',
                'observed': (h, raw[:3], dp[:3]), 'sig': dict(sig, clause='consumer:dew_values')}
    for h, (a, b, r) in enumerate(zip(db, dp, rh)):
        want = rel_humid_from_db_dpt(a, b)
        if abs(want - r) > 1e-9 * max(1.0, abs(want)):
            return {'required': 'rh at hour %d = rh(dry bulb %r, dew point %r) = %r' % (h, a, b, want),
                    'observed': r, 'sig': dict(sig, clause='consumer:rh')}
    cover = list(dd.hourly_sky_cover.values)
    ir = list(dd.hourly_horizontal_infrared.values)
    for h, (c, a, b, r) in enumerate(zip(cover, db, dp, ir)):
        want = calc_horizontal_infrared(c, a, b)
        if abs(want - r) > 1e-9 * max(1.0, abs(want)):
            return {'required': 'horizontal infrared at hour %d = that of sky cover %r, dry bulb %r, dew point %r '
                                '= %r' % (h, c, a, b, want), 'observed': r, 'sig': dict(sig, clause='consumer:infrared')}
    for nm, coll, want in (('pressure', dd.hourly_barometric_pressure, desc['pressure']),
                           ('wind_speed', dd.hourly_wind_speed, desc['ws']),
                           ('wind_direction', dd.hourly_wind_direction, desc['wd'])):
        if list(coll.values) != [want] * 24:
            return {'required': '24 x %r' % want, 'observed': list(coll.values)[:3],
                    'sig': dict(sig, clause=nm)}
    return None


def _dates_clauses(dd, desc, loc, timesteps=(1,)):
    """The date / radiation clauses of the statement on an existing design-day object."""
    m, d = desc['month'], desc['day']
    leap = bool(desc.get('leap', False))
    year = 2016 if leap else 2017
    sig = {'sky': _sky_sig(desc), 'dst': bool(desc['dst'])}
    if leap:
        sig['leap'] = True
    try:
        ok, obs = _on_day(dd.hourly_datetimes, m, d, leap=leap)
    except Exception as e:
        return {'required': '24 date-times on %d/%d' % (m, d), 'observed': 'raises %s: %s' % (type(e).__name__, e),
                'sig': dict(sig, clause='hourly_datetimes', raises=type(e).__name__)}
    if not ok:
        return {'required': 'hourly_datetimes on %d/%d' % (m, d), 'observed': obs,
                'sig': dict(sig, clause='hourly_datetimes')}
    colls = [('dry_bulb', dd.hourly_dry_bulb), ('dew_point', dd.hourly_dew_point),
             ('relative_humidity', dd.hourly_relative_humidity), ('pressure', dd.hourly_barometric_pressure),
             ('wind_speed', dd.hourly_wind_speed), ('wind_direction', dd.hourly_wind_direction),
             ('sky_cover', dd.hourly_sky_cover), ('infrared', dd.hourly_horizontal_infrared)]
    rad = None
    if desc['sky'][0] != 'base':
        try:
            rad = dd.hourly_solar_radiation
        except Exception as e:
            return {'required': 'radiation of %d/%d' % (m, d), 'observed': 'raises %s: %s' % (type(e).__name__, e),
                    'sig': dict(sig, clause='radiation', raises=type(e).__name__)}
        colls += [('direct', rad[0]), ('diffuse', rad[1]), ('global', rad[2])]
    for nm, c in colls:
        ok, obs = _on_day(c.datetimes, m, d, leap=leap)
        if not ok or len(c.values) != 24:
            return {'required': '%s series on %d/%d' % (nm, m, d), 'observed': obs,
                    'sig': dict(sig, clause='series:' + nm)}
    # date-times behind the radiation: the middle of every clock hour of the stated date (in standard
    # time, i.e. one hour earlier under daylight saving), sub-hourly: every step of the day
    sc = dd.sky_condition
    for ts in timesteps:
        shift = (30 if ts == 1 else 0) - (60 if desc['dst'] else 0)
        base = datetime(year, m, d)
        try:
            sdts = sc._get_datetimes(ts)
            got = [(x.month, x.day, x.hour, x.minute) for x in sdts]
            if [bool(x.leap_year) for x in sdts] != [leap] * len(sdts):
                return {'required': 'sun date-times of a %s year' % ('leap' if leap else 'common'),
                        'observed': [bool(x.leap_year) for x in sdts][:3], 'sig': dict(sig, clause='sky_datetimes_leap')}
        except Exception as e:
            return {'required': 'sun date-times of %d/%d' % (m, d), 'observed': 'raises %s: %s' % (type(e).__name__, e),
                    'sig': dict(sig, clause='sky_datetimes', raises=type(e).__name__)}
        if len(got) != 24 * ts:
            return {'required': 24 * ts, 'observed': len(got), 'sig': dict(sig, clause='sky_datetimes')}
        for i, g in enumerate(got):
            e0 = base + timedelta(minutes=shift + (60 * i) // ts if 60 % ts == 0 else shift + int(60.0 * i / ts))
            # one minute of float truncation is tolerated (int() of 19.999999999999996)
            cands = [e0, e0 - timedelta(minutes=1)] if ts not in (1, 2, 4) else [e0]
            if desc['dst'] and (m, d) == (1, 1) and i * 60 < 60 * ts:
                continue                # clock hour 0 of 1 Jan is 23:xx of the previous year: outside the model year
            if g not in [(c.month, c.day, c.hour, c.minute) for c in cands]:
                return {'required': 'sun date-time %d of %d/%d (ts %d) = %s' % (i, m, d, ts, e0),
                        'observed': g, 'sig': dict(sig, clause='sky_datetimes')}
    if rad is not None:
        exp = _expected_radiation(desc, loc)
        for nm, c, e in zip(('direct', 'diffuse', 'global'), rad, exp):
            for h, (a, b) in enumerate(zip(c.values, e)):
                if abs(a - b) > 1e-6 * max(1.0, abs(b)):
                    return {'required': '%s radiation at hour %d of %d/%d = %r' % (nm, h, m, d, b),
                            'observed': a, 'sig': dict(sig, clause='radiation')}
        res = _coarse_sun_clause(desc, loc, [list(c.values) for c in rad], sig)
        if res:
            return res
        # the other consumer of the sun date-times: radiation_values(location, timestep) of the sky condition
        for ts in timesteps:
            if ts == 1 or ((m, d) == (1, 1) and ts not in (2, 4)):
                continue            # 1 Jan: IEEE truncation of the minute (recorded quirk), not asserted
            try:
                got = sc.radiation_values(loc, ts)
            except Exception as e:
                return {'required': 'radiation_values(location, %d)' % ts,
                        'observed': 'raises %s: %s' % (type(e).__name__, e),
                        'sig': dict(sig, clause='radiation_subhourly', raises=type(e).__name__)}
            exp = _expected_radiation(desc, loc, ts)
            for nm, c, e in zip(('direct', 'diffuse', 'global'), got, exp):
                if len(c) != 24 * ts:
                    return {'required': 24 * ts, 'observed': len(c), 'sig': dict(sig, clause='radiation_subhourly')}
                for h, (a, b) in enumerate(zip(c, e)):
                    if abs(a - b) > 1e-6 * max(1.0, abs(b)):
                        return {'required': '%s radiation at step %d (timestep %d) of %d/%d = %r' % (nm, h, ts, m, d, b),
                                'observed': a, 'sig': dict(sig, clause='radiation_subhourly')}
    return None


def check_case(op, inp):
    """ladybug prints progress notes ('Updated end_day ...', 'Updating location ...'): keep stdout clean."""
    import contextlib
    import io
    with contextlib.redirect_stdout(io.StringIO()):
        return _check_case(op, inp)


def _check_case(op, inp):
    from ladybug.designday import DesignDay, ASHRAEClearSky, ASHRAETau
    from ladybug.location import Location
    if op == 'profile':
        desc = inp['desc']
        return _profile_clauses(_build(desc), desc)
    if op == 'dates':
        desc = inp['desc']
        m, d = desc['month'], desc['day']
        sig = {'sky': _sky_sig(desc), 'dst': bool(desc['dst'])}
        loc = _build_loc(inp['loc'])
        try:
            dd = _build(desc, loc)
        except Exception as e:
            return {'required': '24 date-times on %d/%d' % (m, d), 'observed': 'raises %s: %s' % (type(e).__name__, e),
                    'sig': dict(sig, clause='hourly_datetimes', raises=type(e).__name__)}
        return _dates_clauses(dd, desc, loc, inp.get('timesteps', [1]))
    if op == 'history':
        return _check_history(inp)
    if op == 'ddy_history':
        return _check_ddy_history(inp)
    if op == 'epw_history':
        return _check_epw_history(inp)
    if op == 'order':
        return _check_order(inp)
    if op == 'shapes':
        return _check_shapes(inp)
    if op == 'routes':
        return _check_routes(inp)
    if op == 'ashrae_shapes':
        return _check_ashrae_shapes(inp)
    if op == 'stat_monthly':
        return _check_stat_monthly(inp)
    if op == 'idf_text':
        return _check_idf_text(inp)
    if op == 'ddy_station':
        return _check_ddy_station(inp)
    if op == 'idf_roundtrip':
        desc = inp['desc']
        sig = {'sky': _sky_sig(desc), 'h_type': desc['h_type'], 'wet_bulb_range': desc['wbr'] is not None}
        loc = _build_loc(inp['loc']) if inp.get('loc') else Location()
        dd = _build(desc, loc)
        try:
            back = DesignDay.from_idf(dd.to_idf(), loc)
        except Exception as e:
            return {'required': 'from_idf(to_idf(d)) == d', 'observed': 'raises %s: %s' % (type(e).__name__, e),
                    'sig': dict(sig, raises=type(e).__name__)}
        if not (back == dd and _show_dd(back).split(' ')[:0] == [] and _canon('ok ' + _show_dd(back)) ==
                _canon('ok ' + _show_dd(dd)) and type(back.sky_condition) is type(dd.sky_condition)):
            a, b = _canon('ok ' + _show_dd(dd)).split(' '), _canon('ok ' + _show_dd(back)).split(' ')
            diff = [i for i, (x, y) in enumerate(zip(a, b)) if x != y]
            return {'required': 'from_idf(to_idf(d)) == d', 'observed': 'differs at canonical tokens %s' % diff,
                    'sig': dict(sig, differs=','.join(str(i) for i in diff))}
        return None
    if op == 'ddy_roundtrip':
        from ladybug.ddy import DDY
        loc = _build_loc(inp['loc'])
        y = DDY(loc, [_build(d, loc) for d in inp['days']])
        return _ddy_rt(y, {'source': 'generated', 'days': len(inp['days'])})
    if op == 'ddy_file':
        from ladybug.ddy import DDY
        y = DDY.from_ddy_file(os.path.join(_assets(), 'ddy', inp['file']))
        return _ddy_rt(y, {'source': inp['file']})
    if op == 'header_days':
        if inp['source'] == 'epw':
            _EPW_CALLS.setdefault(inp['file'], []).append(['header'])
        return _check_header_days(inp)
    if op == 'approx_days':
        _EPW_CALLS.setdefault(inp['file'], []).append(['approx', inp['percentile'], inp.get('monthly')])
        return _check_approx_days(inp)
    raise ValueError('unknown op ' + op)


replay = check_case


def _ddy_rt(y, sig):
    from ladybug.ddy import DDY
    tmp = tempfile.mkdtemp(prefix='c16_')
    try:
        p = os.path.join(tmp, 'w.ddy')
        y.write(p)
        try:
            back = DDY.from_ddy_file(p)
        except Exception as e:
            return {'required': 'DDY.from_ddy_file(written) == ddy', 'observed': 'raises %s: %s' % (type(e).__name__, e),
                    'sig': dict(sig, raises=type(e).__name__)}
        if len(back.design_days) != len(y.design_days):
            return {'required': '%d design days' % len(y.design_days), 'observed': len(back.design_days),
                    'sig': dict(sig, clause='count')}
        if back.location != y.location:
            return {'required': str(y.location), 'observed': str(back.location), 'sig': dict(sig, clause='location')}
        if _loc_fields(back.location) != _loc_fields(y.location):
            return {'required': 'location read back with the fields %r' % (_loc_fields(y.location),),
                    'observed': repr(_loc_fields(back.location)), 'sig': dict(sig, clause='location_fields')}
        for i, (a, b) in enumerate(zip(y.design_days, back.design_days)):
            if a != b:
                return {'required': 'day %d equal: %s' % (i, _canon('ok ' + _show_dd(a))),
                        'observed': _canon('ok ' + _show_dd(b)), 'sig': dict(sig, clause='day')}
            if _loc_fields(a.location) != _loc_fields(b.location):
                # every field of the location, one by one (does not rely on Location.__eq__)
                return {'required': 'day %d read back at the location it had in the DDY: %r' % (i, _loc_fields(a.location)),
                        'observed': repr(_loc_fields(b.location)), 'sig': dict(sig, clause='day_location_fields')}
        if back != y:
            return {'required': 'DDY equal', 'observed': 'unequal', 'sig': dict(sig, clause='ddy')}
        return None
    finally:
        shutil.rmtree(tmp, ignore_errors=True)


# --- round 6: comparison strictness (an equality guard narrowed to "the fields that matter")
#
# ddy.py decides with `dd.location != self._location` whether a day is moved to the DDY's location; designday.py /
# location.py compare objects through their full keys.  The statement "a DDY file of design days reads back equal"
# needs every one of the NINE Location attributes of every day to be those of the DDY (the file has a single
# Site:Location).  Stratum: the days' location differs from the DDY's in exactly ONE attribute (each of the nine in
# turn), in a group of attributes thought not to matter (metadata only / position only), in none (an equal copy, the
# same object); x every route by which days get into a DDY or a DDY gets its location.

LOC_ATTRS = ('city', 'state', 'country', 'lat', 'lon', 'tz', 'elev', 'station_id', 'source')
STATION_ROUTES = ('ctor', 'ctor_tuple', 'ctor_gen', 'setter', 'setter_gen', 'setter_twice', 'loc_setter',
                  'loc_setter_equal_first', 'from_design_day', 'from_dict', 'duplicate', 'mixed')


def _loc_fields(loc):
    """All nine attributes of a Location, numbers by repr of their float value (no use of Location.__eq__)."""
    def num(v):
        try:
            return repr(float(v))
        except (TypeError, ValueError):
            return 'not-a-number:%r' % (v,)
    return (loc.city, loc.state, loc.country, num(loc.latitude), num(loc.longitude), num(loc.time_zone),
            num(loc.elevation), loc.station_id, loc.source)


def _build_loc9(ld, var=None):
    from ladybug.location import Location
    v = dict(ld)
    v.update(var or {})
    return Location(v['city'], v.get('state'), v.get('country'), v['lat'], v['lon'], v['tz'], v['elev'],
                    v.get('station_id'), v.get('source'))


def _station_var(rng, ld, which):
    """Attributes of the days' location that differ from the DDY location `ld` (a new value each)."""
    alt = {'city': ld['city'] + rng.choice([' AP', ' Intl', ' 2', 'x']), 'state': rng.choice(['IL', 'NSW', 'X']),
           'country': rng.choice(['USA', 'AUS', 'JPN']),
           'lat': round(max(-89.0, min(89.0, float(ld['lat']) + rng.choice([0.01, -0.5, 1e-9, 12.0]))), 9),
           'lon': round(max(-179.0, min(179.0, float(ld['lon']) + rng.choice([0.01, -0.5, 1e-9, 15.0]))), 9),
           'tz': float(ld['tz']) + (1.0 if float(ld['tz']) < 13 else -1.0),
           'elev': float(ld['elev']) + rng.choice([0.5, -3.0, 1000.0, 1e-6]),
           'station_id': rng.choice(['725300', '947670', '0']), 'source': rng.choice(['TMY3', 'IWEC', 'x'])}
    return {k: alt[k] for k in which}


def _check_ddy_station(inp):
    from ladybug.ddy import DDY
    from ladybug.designday import DesignDay
    if 'epw' in inp:
        return _check_ddy_station_epw(inp)
    ld, var, route = inp['loc'], inp['var'], inp['route']
    descs = inp['days']
    sig = {'route': route, 'differs': ','.join(sorted(var)) or 'nothing'}
    L = _build_loc9(ld)

    def far():                                          # the days' own location (a new object per day)
        return L if inp.get('same_object') else _build_loc9(ld, var)

    try:
        days = [_build(d, far()) for d in descs]
        if route == 'ctor':
            y = DDY(L, days)
        elif route == 'ctor_tuple':
            y = DDY(L, tuple(days))
        elif route == 'ctor_gen':
            y = DDY(L, (d for d in days))
        elif route == 'setter':
            y = DDY(L, [_build(descs[0], L)])
            y.design_days = days
        elif route == 'setter_gen':
            y = DDY(L, [_build(descs[0], L)])
            y.design_days = iter(days)
        elif route == 'setter_twice':
            y = DDY(L, days)
            y.design_days = [_build(d, far()) for d in descs]
        elif route == 'loc_setter':
            y = DDY(far(), days)
            y.location = L
        elif route == 'loc_setter_equal_first':         # an equal location first, then the other one, then back
            y = DDY(far(), days)
            y.location = far()
            y.location = L
        elif route == 'from_design_day':
            y = DDY.from_design_day(days[0])
            y.design_days = days
            y.location = L
        elif route == 'from_dict':
            dct = {'type': 'DDY', 'location': L.to_dict(), 'design_days': [d.to_dict() for d in days]}
            y = DDY.from_dict(json.loads(json.dumps(dct)))
        elif route == 'duplicate':
            y = DDY(L, days).duplicate()
        elif route == 'setitem':                        # item assignment: ddy.py has no update loop there
            y = DDY(L, [_build(d, L) for d in descs])
            for i in range(len(days)):
                y[i if i % 2 == 0 else i - len(days)] = days[i]
        elif route == 'mixed':                          # days at the DDY location and days of the other one, alternating
            days = [_build(d, L if i % 2 else far()) for i, d in enumerate(descs)]
            y = DDY(L, days)
        else:
            raise ValueError('unknown route %r' % (route,))
    except (AssertionError, TypeError, ValueError, AttributeError, KeyError) as e:
        return {'required': 'a DDY of %d days at its location through %s' % (len(descs), route),
                'observed': 'raises %s: %s' % (type(e).__name__, e), 'sig': dict(sig, raises=type(e).__name__)}
    want = _loc_fields(_build_loc9(ld))
    if _loc_fields(y.location) != want:
        return {'required': 'DDY location %r' % (want,), 'observed': repr(_loc_fields(y.location)),
                'sig': dict(sig, clause='ddy_station:ddy_location')}
    if len(y.design_days) != len(descs):
        return {'required': '%d design days' % len(descs), 'observed': len(y.design_days),
                'sig': dict(sig, clause='ddy_station:count')}
    for i, dd in enumerate(y.design_days):
        got = _loc_fields(dd.location)
        if got != want:
            bad = [LOC_ATTRS[j] for j in range(9) if got[j] != want[j]]
            return {'required': 'the file has one Site:Location: day %d of the DDY is at the location of the DDY %r'
                                % (i, want), 'observed': 'day location %r (differs in %s)' % (got, ','.join(bad)),
                    'sig': dict(sig, clause='ddy_station:day_location', kept=','.join(bad))}
        if _canon('ok ' + _show_dd(dd)) != _canon('ok ' + _show_dd(_build(descs[i]))):
            return {'required': 'day %d keeps its conditions: %s' % (i, _canon('ok ' + _show_dd(_build(descs[i])))),
                    'observed': _canon('ok ' + _show_dd(dd)), 'sig': dict(sig, clause='ddy_station:day_values')}
    # the file text is that of days built at the DDY location; the file reads back equal
    exp = L.to_idf() + '\n\n' + ''.join(_build(d, L).to_idf() + '\n\n' for d in descs)
    if y.to_file_string() != exp:
        return {'required': 'file text = location + the design days', 'observed': 'another text',
                'sig': dict(sig, clause='ddy_station:text')}
    res = _ddy_rt(y, dict(sig, clause0='ddy_station'))
    if res:
        return res
    # ... and equals the DDY of days that were built at the DDY location from the start
    ref = DDY(_build_loc9(ld), [_build(d, _build_loc9(ld)) for d in descs])
    if not (y == ref and ref == y and hash(y) == hash(ref)) or y != ref:
        return {'required': 'equal to the DDY built from days at the DDY location', 'observed': 'unequal',
                'sig': dict(sig, clause='ddy_station:ref')}
    return None


def _check_ddy_station_epw(inp):
    """The days an EPW hands out (location with state, country, source, station id) in a DDY whose location is
    the same station as a .ddy file names it (the five fields of Site:Location, read from the EPW's first line
    here)."""
    from ladybug.ddy import DDY
    from ladybug.epw import EPW
    from ladybug.location import Location
    path = _epw_path(inp['epw'])
    with open(path, 'r', errors='ignore') as f:
        h = f.readline().strip().split(',')
    L = Location(h[1].replace('\\', ' ').replace('/', ' '), None, None, float(h[6]), float(h[7]), float(h[8]), float(h[9]))
    sig = {'route': inp['route'], 'differs': 'epw-metadata'}
    epw = EPW(path)
    days = list(epw.best_available_design_days(inp.get('percentile', 0.4)))
    if inp['route'] == 'ctor':
        y = DDY(L, days)
    elif inp['route'] == 'setter':
        y = DDY(L, [])
        y.design_days = tuple(days)
    else:
        y = DDY(epw.location, days)
        y.location = L
    want = _loc_fields(L)
    for i, dd in enumerate(y.design_days):
        got = _loc_fields(dd.location)
        if got != want:
            bad = [LOC_ATTRS[j] for j in range(9) if got[j] != want[j]]
            return {'required': 'the file has one Site:Location: day %d of the DDY is at the location of the DDY %r'
                                % (i, want), 'observed': 'day location %r (differs in %s)' % (got, ','.join(bad)),
                    'sig': dict(sig, clause='ddy_station:day_location', kept=','.join(bad))}
    return _ddy_rt(y, dict(sig, clause0='ddy_station'))


def _gen_ddy_station(rng, which=None, route=None):
    ld = _rand_loc(rng)
    if which is None:
        r = rng.random()
        if r < 0.5:
            which = [rng.choice(LOC_ATTRS)]
        elif r < 0.65:
            which = ['state', 'country', 'station_id', 'source']            # the same station as an EPW names it
        elif r < 0.75:
            which = ['city', 'elev', 'state', 'country', 'station_id', 'source']
        elif r < 0.85:
            which = ['lat', 'lon', 'tz']
        elif r < 0.93:
            which = rng.sample(LOC_ATTRS, rng.randrange(2, 9))
        else:
            which = []
    days = []
    for _ in range(rng.choice([1, 2, 3])):
        d = _rand_desc(rng, sky=rng.choice(['clear', 'tau']))
        d['wbr'] = None
        days.append(d)
    inp = {'loc': ld, 'var': _station_var(rng, ld, which), 'route': route or rng.choice(STATION_ROUTES), 'days': days}
    if not which and rng.random() < 0.5:
        inp['same_object'] = True
    return inp


def _expected_radiation(desc, loc, ts=1):
    """The stated sky model evaluated at the sun positions of the stated date (standard time): the middle of
    every clock hour (timestep 1) or every step of the day (sub-hourly), times by the stdlib."""
    from ladybug.sunpath import Sunpath
    from ladybug.dt import DateTime
    from ladybug.skymodel import ashrae_clear_sky, ashrae_revised_clear_sky
    sp = Sunpath.from_location(loc)
    alts = []
    leap = bool(desc.get('leap', False))
    year = 2016 if leap else 2017
    base = datetime(year, desc['month'], desc['day'], 0, 30 if ts == 1 else 0)
    for i in range(24 * ts):
        off = (60 * i) // ts if 60 % ts == 0 else int(60.0 * i / ts)
        t = base + timedelta(minutes=off) - (timedelta(hours=1) if desc['dst'] else timedelta(0))
        if t.year != year:
            t = t.replace(year=year)            # 31 Dec 23:30 stands for the hour before 1 Jan 00:30
        alts.append(sp.calculate_sun_from_date_time(DateTime(t.month, t.day, t.hour, t.minute, leap)).altitude)
    s = desc['sky']
    if s[0] == 'clear':
        dn, df = ashrae_clear_sky(alts, desc['month'], s[1])
    else:
        dn, df = ashrae_revised_clear_sky(alts, s[1], s[2], s[3])
    gl = [b + a * math.sin(math.radians(alt)) for alt, a, b in zip(alts, dn, df)]
    return dn, df, gl


def _coarse_altitudes(month, day, leap, dst, loc_d):
    """Solar altitude (degrees) at the middle of the 24 clock hours of the stated date at the location, by a
    textbook formula written here (Cooper declination, Spencer-style equation of time; good to ~1 degree):
    shares nothing with ladybug.sunpath, so a caller / callee convention mix-up (clock vs standard time,
    sign of the longitude or time zone, hour-of-year of the other year kind shifted by hours) shows."""
    n = (datetime(2016 if leap else 2017, month, day) - datetime(2016 if leap else 2017, 1, 1)).days + 1
    ylen = 366.0 if leap else 365.0
    decl = math.radians(23.45) * math.sin(2 * math.pi * (284 + n) / ylen)
    b = 2 * math.pi * (n - 81) / 364.0
    eot = 9.87 * math.sin(2 * b) - 7.53 * math.cos(b) - 1.5 * math.sin(b)          # minutes
    lat = math.radians(loc_d['lat'] or 0)
    out = []
    for h in range(24):
        clock = h + 0.5 - (1.0 if dst else 0.0)                                    # standard time
        solar = clock + (4.0 * ((loc_d['lon'] or 0) - 15.0 * float(loc_d['tz'])) + eot) / 60.0
        ha = math.radians(15.0 * (solar - 12.0))
        sin_alt = math.sin(lat) * math.sin(decl) + math.cos(lat) * math.cos(decl) * math.cos(ha)
        out.append(math.degrees(math.asin(max(-1.0, min(1.0, sin_alt)))))
    return out


def _coarse_sun_clause(desc, loc, rad, sig, margin=3.0):
    """Day and night of the hourly radiation agree with the independent coarse sun: where the sun is clearly
    up the sky model gives beam radiation (unless clearness is 0), where it is clearly down all three are 0."""
    loc_d = {'lat': loc.latitude, 'lon': loc.longitude, 'tz': loc.time_zone}
    alts = _coarse_altitudes(desc['month'], desc['day'], bool(desc.get('leap')), bool(desc['dst']), loc_d)
    s = desc['sky']
    lit = (s[0] == 'clear' and s[1] > 0) or (s[0] == 'tau' and s[1] < 3 and s[2] < 10)
    for h, a in enumerate(alts):
        if a > margin and lit and not rad[0][h] > 0:
            return {'required': 'beam radiation at hour %d of %d/%d: the sun is about %.1f degrees above the '
                                'horizon (independent formula)' % (h, desc['month'], desc['day'], a),
                    'observed': rad[0][h], 'sig': dict(sig, clause='radiation_daytime')}
        if a < -margin and (rad[0][h] != 0 or rad[1][h] != 0 or rad[2][h] != 0):
            return {'required': 'no radiation at hour %d of %d/%d: the sun is about %.1f degrees below the '
                                'horizon (independent formula)' % (h, desc['month'], desc['day'], -a),
                    'observed': (rad[0][h], rad[1][h], rad[2][h]), 'sig': dict(sig, clause='radiation_night')}
    return None


_EPW_CACHE = {}
_EPW_CALLS = {}          # what has been asked of the shared EPW object of each file so far (in order)


_GEN_DIR = [None]
EPW_VARIANTS = ('leap', 'nopress', 'nohdr', 'leapnohdr')


def _gen_dir():
    if _GEN_DIR[0] is None:
        import atexit
        _GEN_DIR[0] = tempfile.mkdtemp(prefix='c16_gen_')
        atexit.register(shutil.rmtree, _GEN_DIR[0], True)
    return _GEN_DIR[0]


def _epw_path(fn):
    """Path of a shipped EPW (`name.epw`) or of a variant written by the harness from a shipped one with the
    stdlib only (`gen:<variant>:<name.epw>`, deterministic, so a replay in another process rebuilds it):
      leap      - the header says leap year and 29 Feb is inserted after 28 Feb (a copy of 28 Feb with every
                  weather value changed), 8784 records;
      nopress   - station pressure missing (999999) in every record: the 101325 Pa fall-back;
      nohdr     - no design conditions in the header: header days absent, best_available falls back;
      leapnohdr - both."""
    if not fn.startswith('gen:'):
        return os.path.join(_assets(), 'epw', fn)
    _, variant, src = fn.split(':', 2)
    out = os.path.join(_gen_dir(), '%s_%s' % (variant, src))
    if os.path.isfile(out):
        return out
    with open(os.path.join(_assets(), 'epw', src), encoding='utf-8', errors='ignore') as f:
        lines = f.read().split('\n')
    if variant in ('leap', 'leapnohdr'):
        for i in range(8):
            if lines[i].startswith('HOLIDAYS/DAYLIGHT SAVINGS'):
                c = lines[i].split(',')
                c[1] = 'Yes'
                lines[i] = ','.join(c)
        res = []
        for ln in lines:
            res.append(ln)
            c = ln.split(',')
            if len(c) > 21 and c[1] == '2' and c[2] == '28' and c[3] == '24':
                for k, l28 in enumerate(list(res[-24:])):
                    c = l28.split(',')
                    c[2] = '29'
                    c[6] = '%.1f' % (float(c[6]) + 3.7 + 0.1 * (k % 5))        # dry bulb
                    c[7] = '%.1f' % (float(c[7]) - 1.4)                       # dew point
                    c[20] = '%d' % ((int(float(c[20])) + 77 + 10 * k) % 360)   # wind direction
                    c[21] = '%.1f' % (float(c[21]) + 1.3 + 0.2 * (k % 3))      # wind speed
                    res.append(','.join(c))
        lines = res
    if variant in ('nohdr', 'leapnohdr'):
        lines[1] = 'DESIGN CONDITIONS,0'
    if variant == 'nopress':
        for i in range(8, len(lines)):
            c = lines[i].split(',')
            if len(c) > 21:
                c[9] = '999999'
                lines[i] = ','.join(c)
    with open(out, 'w', encoding='utf-8') as f:
        f.write('\n'.join(lines))
    return out


def _epw(fn):
    from ladybug.epw import EPW
    if fn not in _EPW_CACHE:
        _EPW_CACHE[fn] = EPW(_epw_path(fn))
    return _EPW_CACHE[fn]


def _raw_epw(fn):
    """Raw hourly rows of an EPW read with the csv-free stdlib: month, dry bulb, dew point, pressure,
    wind direction, wind speed."""
    rows = []
    with open(_epw_path(fn), encoding='utf-8', errors='ignore') as f:
        lines = f.read().splitlines()
    for ln in lines[8:]:
        p = ln.split(',')
        if len(p) > 21:
            # wind direction is a whole-degree field of the EPW format (337.5 is read as 338, 202.5 as 202)
            rows.append((float(p[6]), float(p[7]), float(p[9]), float(int(round(float(p[20])))), float(p[21])))
    # dry bulb, dew point, pressure and wind are values AT the stated hour (hour 1 = 01:00 ... hour 24 =
    # midnight): the record of 31 Dec hour 24 is the value of 1 Jan 00:00.  Position k of the year is hour k
    # counted from 1 Jan 00:00 of a year with as many hours as there are records (calendar by the stdlib).
    rows = rows[-1:] + rows[:-1]
    base = datetime(2016 if len(rows) == 8784 else 2017, 1, 1)
    out = []
    for k, r in enumerate(rows):
        t = base + timedelta(hours=k)
        out.append((t.month, r[0], r[1], r[2], r[3], r[4], t.day))
    return out


def _percentile(vals, pct):
    v = sorted(vals)
    k = (len(v) - 1) * (pct / 100.0)
    f, c = math.floor(k), math.ceil(k)
    if f == c:
        return v[int(k)]
    return v[f] * (c - k) + v[c] * (k - f)


# positions inside the 'Heating' / 'Cooling' groups of the ASHRAE climatic design table (2009, 2017 and
# 2021 handbooks share them; 2021 only appends WSF to the heating group) - written here independently of
# DesignDay.HEATING_KEYS / COOLING_KEYS
_H_POS = {'Month': 0, 'DB996': 1, 'DB990': 2, 'WS_DB996': 13, 'WD_DB996': 14}
_C_POS = {'Month': 0, 'DBR': 1, 'DB004': 2, 'WB_DB004': 3, 'DB010': 4, 'WB_DB010': 5, 'WS_DB004': 14,
          'WD_DB004': 15}


def _group(tokens, word, pos):
    """The stated values of one group ('Heating' / 'Cooling') of a raw design-conditions record."""
    toks = [t.strip() for t in tokens]
    if word not in toks:
        return None
    i = toks.index(word)
    try:
        return {k: float(toks[i + 1 + j]) for k, j in pos.items()}
    except (ValueError, IndexError):
        return None


def _raw_header(src, fn):
    """(heating values, cooling values, pressure, monthly taub, monthly taud) read from the raw file with
    the stdlib only."""
    path = _epw_path(fn) if src == 'epw' else os.path.join(_assets(), src, fn)
    with open(path, encoding='utf-8', errors='ignore') as f:
        lines = f.read().splitlines()
    if src == 'epw':
        toks = lines[1].split(',')
        hv, cv = _group(toks, 'Heating', _H_POS), _group(toks, 'Cooling', _C_POS)
        press = [float(ln.split(',')[9]) for ln in lines[8:] if ln.count(',') > 21]
        avg = sum(press) / len(press)
        return hv, cv, (None if avg == 999999 else avg), None, None
    hv = cv = tb = td = None
    pr = None
    for ln in lines:
        toks = ln.split('\t')
        st = [t.strip() for t in toks]
        if 'Heating' in st and hv is None:
            hv = _group(toks, 'Heating', _H_POS)
        if 'Cooling' in st and cv is None:
            cv = _group(toks, 'Cooling', _C_POS)
        if 'Standard Pressure at Elevation' in ln and pr is None:
            m = re.search(r'(\d+)\s*Pa', ln)
            pr = float(m.group(1)) if m else None
        if 'taub (beam)' in st and tb is None:
            vals = st[st.index('taub (beam)') + 1:]
            tb = [None if v in ('N_A', 'N') else float(v) for v in vals if v != ''][:12]
        if 'taud (diffuse)' in st and td is None:
            vals = st[st.index('taud (diffuse)') + 1:]
            td = [None if v in ('N_A', 'N') else float(v) for v in vals if v != ''][:12]
    return hv, cv, pr, tb, td


def _check_header_days(inp, obj=None):
    """The four header-derived days of an EPW / STAT file against the values stated in the raw header:
    dry bulb, range, coincident wet bulb, wind speed and direction, month (21st), pressure (EPW: mean of the
    hourly station pressure; STAT: standard pressure at elevation; 101325 when absent), sky (clear sky with
    clearness 0 for heating; for cooling the month's taub/taud of the STAT file where present, otherwise
    clear sky with clearness 1), flags off, location of the file."""
    from ladybug.stat import STAT
    from ladybug.designday import ASHRAEClearSky, ASHRAETau
    src, fn = inp['source'], inp['file']
    sig = {'source': src, 'file': fn}
    hv, cv, press, tb, td = _raw_header(src, fn)
    if src == 'epw':
        with open(_epw_path(fn), encoding='utf-8', errors='ignore') as f:
            f.readline()
            m = re.search(r'(20\d\d)', f.readline().split(',Heating')[0])
        sig['handbook'] = m.group(1) if m else 'none'
    if obj is None:
        obj = _epw(fn) if src == 'epw' else STAT(os.path.join(_assets(), 'stat', fn))
    want_p = 101325 if press is None else press
    plan = [('h996', 'annual_heating_design_day_996', hv, 'DB996', 'DB996', 'WS_DB996', 'WD_DB996', None, 'WinterDesignDay'),
            ('h990', 'annual_heating_design_day_990', hv, 'DB990', 'DB990', 'WS_DB996', 'WD_DB996', None, 'WinterDesignDay'),
            ('c004', 'annual_cooling_design_day_004', cv, 'DB004', 'WB_DB004', 'WS_DB004', 'WD_DB004', 'DBR', 'SummerDesignDay'),
            ('c010', 'annual_cooling_design_day_010', cv, 'DB010', 'WB_DB010', 'WS_DB004', 'WD_DB004', 'DBR', 'SummerDesignDay')]
    got_days = {}
    for tag, attr, vals, dbk, wbk, wsk, wdk, rk, dtype in plan:
        s = dict(sig, day=tag)
        try:
            dd = getattr(obj, attr)
        except Exception as e:
            return {'required': attr, 'observed': 'raises %s: %s' % (type(e).__name__, e),
                    'sig': dict(s, clause='raises', raises=type(e).__name__)}
        got_days[tag] = dd
        if vals is None:
            if dd is not None:
                return {'required': 'no %s without stated design conditions' % attr, 'observed': str(dd),
                        'sig': dict(s, clause='absent')}
            continue
        if dd is None:
            return {'required': '%s from the stated design conditions' % attr, 'observed': None,
                    'sig': dict(s, clause='missing')}
        h = dd.humidity_condition
        checks = [
            ('dry_bulb', vals[dbk], dd.dry_bulb_condition.dry_bulb_max),
            ('range', vals[rk] if rk else 0.0, dd.dry_bulb_condition.dry_bulb_range),
            ('humidity_type', 'Wetbulb', h.humidity_type),
            ('wet_bulb', vals[wbk], h.humidity_value),
            ('wind_speed', vals[wsk], dd.wind_condition.wind_speed),
            ('wind_direction', vals[wdk], dd.wind_condition.wind_direction),
            ('month', int(vals['Month']), dd.sky_condition.date.month),
            ('day', 21, dd.sky_condition.date.day),
            ('day_type', dtype, dd.day_type),
            ('flags', (False, False, False), (h.rain, h.snow_on_ground, dd.sky_condition.daylight_savings)),
        ]
        for clause, want, got in checks:
            if want != got:
                return {'required': '%s %s = %r (stated in the header)' % (attr, clause, want), 'observed': got,
                        'sig': dict(s, clause=clause)}
        gp = h.barometric_pressure
        if abs(gp - want_p) > 1e-9 * want_p:
            return {'required': '%s pressure = %r (%s)' % (
                attr, want_p, 'mean hourly station pressure' if src == 'epw' else 'standard pressure at elevation'),
                'observed': gp, 'sig': dict(s, clause='pressure')}
        sc = dd.sky_condition
        if dtype == 'WinterDesignDay':
            want_sky = ('ASHRAEClearSky', 0)
        else:
            m = int(vals['Month'])
            if tb and td and len(tb) >= m and len(td) >= m and tb[m - 1] is not None and td[m - 1] is not None:
                want_sky = ('ASHRAETau', tb[m - 1], td[m - 1], False)
            else:
                want_sky = ('ASHRAEClearSky', 1)
        if type(sc) is ASHRAEClearSky:
            got_sky = ('ASHRAEClearSky', sc.clearness)
        elif type(sc) is ASHRAETau:
            got_sky = ('ASHRAETau', sc.tau_b, sc.tau_d, sc.use_2017)
        else:
            got_sky = (type(sc).__name__,)
        if want_sky != got_sky:
            return {'required': '%s sky = %r' % (attr, want_sky), 'observed': got_sky, 'sig': dict(s, clause='sky')}
        if dd.location != obj.location:
            return {'required': 'location of the file', 'observed': str(dd.location), 'sig': dict(s, clause='location')}
    if src == 'epw' and hv is not None and cv is not None:
        # the public selector hands out the same four days
        for pct, ht, ct in ((0.4, 'h996', 'c004'), (1, 'h990', 'c010')):
            bh, bc = obj.best_available_design_days(pct)
            if bh != got_days[ht] or bc != got_days[ct]:
                return {'required': 'best_available_design_days(%s) = the header days' % pct,
                        'observed': (str(bh), str(bc)), 'sig': dict(sig, clause='best_available', percentile=pct)}
    return None


def _frac_count(n_hours, pct):
    """Number of hours in twice the percentile share of `n_hours`, by exact arithmetic."""
    from fractions import Fraction
    return int(Fraction(n_hours) * Fraction(str(pct)) * 2 / 100)


def _coincident_clauses(dd, rows, pool, count, hottest, temp, pressure, sig, what):
    """The wind speed, wind direction and (cooling days) wet bulb of a design day derived from hourly data are
    those coincident with the `count` most extreme hours of `pool` (row indices in file order): means of the
    raw rows, wet bulb through ladybug.psychrometrics (C09 owns it) from the mean coincident dew point.
    Hours tied with the last selected one may be exchanged for each other (no tie rule is stated): the
    tolerance is widened by exactly what such an exchange can change."""
    from ladybug.psychrometrics import rel_humid_from_db_dpt, wet_bulb_from_db_rh
    if count <= 0:
        return None
    key = (lambda k: -rows[k][1]) if hottest else (lambda k: rows[k][1])
    order = sorted(pool, key=key)[:count]
    cut = rows[order[-1]][1]
    tied_in = [k for k in order if rows[k][1] == cut]
    tied_all = [k for k in pool if rows[k][1] == cut]
    sure = [k for k in order if rows[k][1] != cut]
    ambiguous = len(tied_all) > len(tied_in)

    def band(col):
        base = sum(rows[k][col] for k in sure)
        tv = sorted(rows[k][col] for k in tied_all)
        n = len(tied_in)
        return (base + sum(tv[:n])) / count, (base + sum(tv[len(tv) - n:])) / count

    ws = sum(rows[k][5] for k in order) / count
    lo, hi = band(5) if ambiguous else (ws, ws)
    got = dd.wind_condition.wind_speed
    if not (lo - 0.05 - 1e-9 <= got <= hi + 0.05 + 1e-9) or abs(got * 10 - round(got * 10)) > 1e-6:
        return {'required': '%s wind speed = mean of the %d coincident hours, one decimal: %r' % (what, count, ws),
                'observed': got, 'sig': dict(sig, clause='wind_speed')}
    sx = sum(math.sin(math.radians(rows[k][4])) for k in order) / count
    cx = sum(math.cos(math.radians(rows[k][4])) for k in order) / count
    r = math.hypot(sx, cx)
    if r > 1e-6:
        wd = math.degrees(math.atan2(sx, cx))
        gd = dd.wind_condition.wind_direction
        cands = set()
        for w in (wd - 1e-7, wd, wd + 1e-7):
            t = int(w)
            cands.add(t + 360 if t < 0 else t)
        if gd not in cands:
            slack = 0.0
            if ambiguous:
                slack = math.degrees(math.asin(min(1.0, 2.0 * len(tied_in) / (count * r)))) + 1.0
            dev = min(abs(gd - wd % 360), 360 - abs(gd - wd % 360))
            if not ambiguous or dev > slack:
                return {'required': '%s wind direction = whole degrees of the circular mean %r of the %d '
                                    'coincident hours' % (what, wd % 360, count), 'observed': gd,
                        'sig': dict(sig, clause='wind_dir')}
    if hottest:
        dew = sum(rows[k][2] for k in order) / count
        dlo, dhi = band(2) if ambiguous else (dew, dew)
        try:
            wmid = wet_bulb_from_db_rh(temp, rel_humid_from_db_dpt(temp, dew), pressure)
            wlo = wet_bulb_from_db_rh(temp, rel_humid_from_db_dpt(temp, dlo), pressure)
            whi = wet_bulb_from_db_rh(temp, rel_humid_from_db_dpt(temp, dhi), pressure)
        except (ValueError, ZeroDivisionError, OverflowError):
            return None
        wb = dd.humidity_condition.humidity_value
        # (the wet-bulb function is an iteration with a coarse stop: not monotone at the 0.05 K level, hence
        #  the three evaluations and the extra 0.05 K when tied hours may be exchanged)
        slack = 0.05 + 1e-6 + (0.05 if ambiguous else 0.0)
        wlo, whi = (min(wlo, whi, wmid), max(wlo, whi, wmid)) if ambiguous else (wmid, wmid)
        if dd.humidity_condition.humidity_type != 'Wetbulb' or not (wlo - slack <= wb <= whi + slack):
            return {'required': '%s wet bulb = that of dry bulb %r and the mean coincident dew point %r at %r Pa: '
                                '%r' % (what, temp, dew, pressure, (wlo, whi)), 'observed': wb,
                    'sig': dict(sig, clause='wet_bulb')}
    return None


def _range_clause(dd, rows, month, sig, what):
    """Daily range = mean over the days of the month of (max - min) of the hourly dry bulbs, one decimal."""
    days = {}
    for r in rows:
        if r[0] == month:
            days.setdefault(r[6], []).append(r[1])
    rgs = [max(v) - min(v) for v in days.values()]
    want = sum(rgs) / len(rgs)
    got = dd.dry_bulb_condition.dry_bulb_range
    if abs(got - want) > 0.05 + 1e-9:
        return {'required': '%s daily range = mean daily range of month %d = %r' % (what, month, want),
                'observed': got, 'sig': dict(sig, clause='range')}
    return None


def _check_approx_days(inp, epw=None):
    fn, pct = inp['file'], inp['percentile']
    sig = {'file': fn}
    epw = epw or _epw(fn)
    rows = _raw_epw(fn)
    n = len(rows)
    dbs = [r[1] for r in rows]
    means = []
    for m in range(1, 13):
        mv = [r[1] for r in rows if r[0] == m]
        means.append(sum(mv) / len(mv))
    press = [r[3] for r in rows]
    avg_p = sum(press) / n
    want_p = round(avg_p) if avg_p != 999999 else 101325
    hr_count = _frac_count(8760, pct)
    for day_type in ('WinterDesignDay', 'SummerDesignDay'):
        s = dict(sig, day_type=day_type)
        try:
            dd = epw.approximate_design_day(day_type, pct)
        except Exception as e:
            return {'required': 'a %s from the hourly data' % day_type,
                    'observed': 'raises %s: %s' % (type(e).__name__, e),
                    'sig': dict(s, clause='raises', raises=type(e).__name__, leap_epw=bool(epw.is_leap_year))}
        if day_type == 'WinterDesignDay':
            want_t = _percentile(dbs, pct)
            want_m = means.index(min(means)) + 1
        else:
            want_t = _percentile(dbs, 100 - pct)
            want_m = means.index(max(means)) + 1
        got_t = dd.dry_bulb_condition.dry_bulb_max
        if abs(got_t - want_t) > 1e-9:
            return {'required': 'dry bulb = percentile %r' % want_t, 'observed': got_t, 'sig': dict(s, clause='percentile')}
        if (dd.sky_condition.date.month, dd.sky_condition.date.day) != (want_m, 21):
            return {'required': 'date 21/%d' % want_m, 'observed': str(dd.sky_condition.date), 'sig': dict(s, clause='month')}
        if dd.humidity_condition.barometric_pressure != want_p:
            return {'required': want_p, 'observed': dd.humidity_condition.barometric_pressure, 'sig': dict(s, clause='pressure')}
        if dd.day_type != day_type or dd.location != epw.location:
            return {'required': (day_type, str(epw.location)), 'observed': (dd.day_type, str(dd.location)),
                    'sig': dict(s, clause='day_type_location')}
        res = _coincident_clauses(dd, rows, list(range(n)), hr_count, day_type == 'SummerDesignDay', got_t,
                                  want_p, s, 'approximate %s' % day_type)
        if res:
            return res
        if day_type == 'WinterDesignDay':
            if dd.humidity_condition.humidity_value != got_t or dd.dry_bulb_condition.dry_bulb_range != 0:
                return {'required': 'saturated, range 0', 'observed': str(dd.humidity_condition), 'sig': dict(s, clause='wet_bulb')}
        else:
            res = _range_clause(dd, rows, want_m, s, 'approximate %s' % day_type)
            if res:
                return res
    if inp.get('monthly'):
        mp = inp['monthly']
        mdays = epw.monthly_cooling_design_days(mp)
        if len(mdays) != 12:
            return {'required': 12, 'observed': len(mdays), 'sig': dict(sig, clause='monthly_count')}
        for m, dd in enumerate(mdays, 1):
            pool = [k for k in range(n) if rows[k][0] == m]
            mv = [rows[k][1] for k in pool]
            want_t = _percentile(mv, 100 - mp)
            ms = dict(sig, clause='monthly', month=m)
            if abs(dd.dry_bulb_condition.dry_bulb_max - want_t) > 1e-9 or \
                    (dd.sky_condition.date.month, dd.sky_condition.date.day) != (m, 21) or \
                    dd.humidity_condition.barometric_pressure != want_p or dd.day_type != 'SummerDesignDay':
                return {'required': (want_t, m, 21, want_p),
                        'observed': (dd.dry_bulb_condition.dry_bulb_max, str(dd.sky_condition.date),
                                     dd.humidity_condition.barometric_pressure), 'sig': ms}
            res = _coincident_clauses(dd, rows, pool, _frac_count(len(pool), mp), True, want_t, want_p,
                                      dict(sig, month=m, leap_epw=(n == 8784)), 'monthly cooling day %d' % m)
            if res is None:
                res = _range_clause(dd, rows, m, dict(sig, month=m), 'monthly cooling day %d' % m)
            if res:
                res['sig']['clause'] = 'monthly:' + res['sig']['clause']
                return res
    return None


# ---------------------------------------------------------------------------------------------
# round 3: operation histories on ONE object, failure paths, process order
#
# Producers and their consumers (each consumer is exercised by a read below, by the oracle clauses or by a
# correspondence op; a change made consistently in a producer and ONE consumer shows in the others):
#   DryBulbCondition.hourly_values      -> hourly_dry_bulb, HumidityCondition.hourly_dew_point_values,
#                                          hourly_relative_humidity, hourly_horizontal_infrared   [db dew rh ir dewvals]
#   HumidityCondition.dew_point / hourly_dew_point_values
#                                       -> hourly_dew_point, hourly_relative_humidity, hourly_horizontal_infrared,
#                                          direct callers (dewvals, dew_for = other dry-bulb conditions)
#   sky_condition.date                  -> analysis_period (header of all 11 hourly collections), hourly_datetimes,
#                                          _get_datetimes, month of the clear-sky coefficients, to_idf month/day
#   _SkyCondition._get_datetimes        -> ASHRAEClearSky.radiation_values, ASHRAETau.radiation_values (timestep 1 =
#                                          hourly_solar_radiation, sub-hourly = rad_at)                [rad rad_at sdts]
#   daylight_savings                    -> _get_datetimes, to_idf / from_idf flag
#   DesignDay.to_idf                    -> DDY.to_file_string / write / EPW.to_ddy / STAT.to_ddy, from_idf round trip
#   DesignDay.from_idf                  -> DDY.from_ddy_file
#   Location.to_idf / from_idf          -> DDY.to_file_string / from_ddy_file
#   EPW header dictionaries, mean pressure -> annual_*_design_day_*, best_available_design_days, to_ddy
#   EPW hourly data                     -> approximate_design_day, monthly_cooling_design_days, best_available..., to_ddy
#   STAT header dictionaries, tau, standard pressure -> annual_*_design_day_*, to_ddy


ALT_LOCS = [{'city': 'Alt South', 'lat': -33.9, 'lon': 151.2, 'tz': 10.0, 'elev': 6},
            {'city': 'Alt Equator', 'lat': 0, 'lon': 0, 'tz': 0, 'elev': 0},
            {'city': 'Alt North', 'lat': 64.1, 'lon': -21.9, 'tz': -1.0, 'elev': 50}]
ALL_READS = ['db', 'dew', 'rh', 'dewvals', 'ir', 'press', 'ws', 'wd', 'cover', 'hdts', 'ap', 'rad', 'idf',
             'state', 'eq']


def _isnum(v):
    return isinstance(v, (int, float)) and not isinstance(v, bool)


def _valid_date(a, leap=False):
    try:
        datetime(2016 if leap else 2017, a[0], a[1])
        return True
    except (ValueError, TypeError):
        return False


def _sky_ok(sk):
    """None when the constructor of the sky class accepts the parameters, else the error class."""
    if sk[0] == 'clear':
        if not _isnum(sk[1]) or not 0 <= sk[1] <= 1.2:
            return 'assert'
    elif sk[0] == 'tau':
        if not _isnum(sk[1]) or not _isnum(sk[2]):
            return 'assert'
    return None


def _loc_ok(a):
    lat, lon, tz = a['lat'] or 0, a['lon'] or 0, a['tz']
    return -90 <= lat <= 90 and -180 <= lon <= 180 and -12 <= tz <= 14


def _spec_step(st, op):
    """The public state the user has established after `op`, as the validation code of designday.py
    prescribes it: a refused operation leaves everything as it was.  Returns (status, new state)."""
    k, a = op[0], op[1]
    d = dict(st['desc'])
    sky = list(d['sky'])

    def ok(**kw):
        d.update(kw)
        return 'ok', {'desc': d, 'loc': st['loc']}

    def ref(e):
        return 'refused:' + e, st

    if k == 'read':
        return 'ok', st
    if k == 'name':
        return ok(name=a) if isinstance(a, str) else ref('assert')
    if k == 'day_type':
        return ok(day_type=a) if a in DAY_TYPES else ref('assert')
    if k in ('db_max', 'h_value', 'pressure', 'ws'):
        return ok(**{k: a}) if _isnum(a) else ref('assert')
    if k == 'db_range':
        return ok(db_range=a) if _isnum(a) and a >= 0 else ref('assert')
    if k == 'wd':
        return ok(wd=a) if _isnum(a) and 0 <= a <= 360 else ref('assert')
    if k in ('mod_type', 'mod_sched', 'sched', 'wbr'):
        return ok(**{k: a})
    if k == 'h_type':
        return ok(h_type=a) if a in HUM_TYPES else ref('assert')
    if k in ('rain', 'snow', 'dst'):
        return ok(**{k: bool(a)})
    if k == 'date':
        if a is None:
            return ref('assert')
        return ok(month=a[0], day=a[1], leap=False) if _valid_date(a) else ref('value')     # Date(m, d): common year
    if k == 'clearness':
        if sky[0] != 'clear':
            return ref('attr')
        return ok(sky=['clear', a]) if _sky_ok(['clear', a]) is None else ref('assert')
    if k in ('tau_b', 'tau_d'):
        if sky[0] != 'tau':
            return ref('attr')
        if not _isnum(a):
            return ref('assert')
        sky[1 if k == 'tau_b' else 2] = a
        return ok(sky=sky)
    if k == 'use_2017':
        if sky[0] != 'tau':
            return ref('attr')
        sky[3] = bool(a)
        return ok(sky=sky)
    if k in ('beam', 'diff'):                  # generated for the plain _SkyCondition only
        sky[1 if k == 'beam' else 2] = a
        return ok(sky=sky)
    if k == 'loc':
        if a is None or not _loc_ok(a):
            return ref('assert')
        return 'ok', {'desc': d, 'loc': a}
    if k == 'new_db':
        if not _isnum(a[0]) or not _isnum(a[1]) or a[1] < 0:
            return ref('assert')
        return ok(db_max=a[0], db_range=a[1], mod_type=a[2], mod_sched=a[3])
    if k == 'new_hum':
        if a[0] not in HUM_TYPES or not _isnum(a[1]) or not _isnum(a[2]):
            return ref('assert')
        return ok(h_type=a[0], h_value=a[1], pressure=a[2], rain=bool(a[3]), snow=bool(a[4]), sched=a[5], wbr=a[6])
    if k == 'new_wind':
        if not _isnum(a[0]) or not _isnum(a[1]) or not 0 <= a[1] <= 360:
            return ref('assert')
        return ok(ws=a[0], wd=a[1])
    if k == 'new_sky':
        if a is None:
            return ref('assert')
        if not _valid_date([a['month'], a['day']], bool(a.get('leap'))):
            return ref('value')
        e = _sky_ok(a['sky'])
        if e:
            return ref(e)
        return ok(sky=list(a['sky']), month=a['month'], day=a['day'], dst=bool(a['dst']), leap=bool(a.get('leap')))
    raise ValueError('unknown history op %r' % (k,))


def _build_sky(a):
    from ladybug.designday import ASHRAEClearSky, ASHRAETau, _SkyCondition
    from ladybug.dt import Date
    date = Date(a['month'], a['day'], bool(a.get('leap')))
    s = a['sky']
    if s[0] == 'clear':
        return ASHRAEClearSky(date, s[1], a['dst'])
    if s[0] == 'tau':
        return ASHRAETau(date, s[1], s[2], s[3], a['dst'])
    return _SkyCondition(date, a['dst'], s[1], s[2])


def _real_step(dd, op):
    """Apply `op` to the real object through its public setters; a raised exception = refused."""
    from ladybug.designday import DryBulbCondition, HumidityCondition, WindCondition
    from ladybug.dt import Date
    k, a = op[0], op[1]
    try:
        if k == 'read':
            pass
        elif k == 'name':
            dd.name = a
        elif k == 'day_type':
            dd.day_type = a
        elif k == 'db_max':
            dd.dry_bulb_condition.dry_bulb_max = a
        elif k == 'db_range':
            dd.dry_bulb_condition.dry_bulb_range = a
        elif k == 'mod_type':
            dd.dry_bulb_condition.modifier_type = a
        elif k == 'mod_sched':
            dd.dry_bulb_condition.modifier_schedule = a
        elif k == 'h_type':
            dd.humidity_condition.humidity_type = a
        elif k == 'h_value':
            dd.humidity_condition.humidity_value = a
        elif k == 'pressure':
            dd.humidity_condition.barometric_pressure = a
        elif k == 'rain':
            dd.humidity_condition.rain = a
        elif k == 'snow':
            dd.humidity_condition.snow_on_ground = a
        elif k == 'sched':
            dd.humidity_condition.schedule = a
        elif k == 'wbr':
            dd.humidity_condition.wet_bulb_range = '' if a is None else a
        elif k == 'ws':
            dd.wind_condition.wind_speed = a
        elif k == 'wd':
            dd.wind_condition.wind_direction = a
        elif k == 'date':
            dd.sky_condition.date = None if a is None else Date(a[0], a[1])
        elif k == 'dst':
            dd.sky_condition.daylight_savings = a
        elif k == 'clearness':
            dd.sky_condition.clearness = a
        elif k == 'tau_b':
            dd.sky_condition.tau_b = a
        elif k == 'tau_d':
            dd.sky_condition.tau_d = a
        elif k == 'use_2017':
            dd.sky_condition.use_2017 = a
        elif k == 'beam':
            dd.sky_condition.beam_schedule = a
        elif k == 'diff':
            dd.sky_condition.diffuse_schedule = a
        elif k == 'loc':
            dd.location = None if a is None else _build_loc(a)
        elif k == 'new_db':
            dd.dry_bulb_condition = DryBulbCondition(a[0], a[1], a[2], a[3])
        elif k == 'new_hum':
            dd.humidity_condition = HumidityCondition(a[0], a[1], a[2], a[3], a[4], a[5], '' if a[6] is None else a[6])
        elif k == 'new_wind':
            dd.wind_condition = WindCondition(a[0], a[1])
        elif k == 'new_sky':
            dd.sky_condition = None if a is None else _build_sky(a)
        else:
            raise ValueError('unknown history op %r' % (k,))
    except (AssertionError, ValueError, AttributeError, TypeError) as e:
        if isinstance(e, ValueError) and str(e).startswith('unknown history op'):
            raise
        return 'refused:' + err_name(e)
    return 'ok'


def _coll(c):
    return [list(c.values), [(t.month, t.day, t.hour, t.minute) for t in c.datetimes]]


def _read0(dd, q, fresh):
    from ladybug.designday import DesignDay, DryBulbCondition
    if isinstance(q, list):
        if q[0] == 'sdts':
            return [t.moy for t in dd.sky_condition._get_datetimes(q[1])]
        if q[0] == 'rad_at':
            return [list(x) for x in dd.sky_condition.radiation_values(_build_loc(ALT_LOCS[q[2]]), q[1])]
        if q[0] == 'dew_for':
            return list(dd.humidity_condition.hourly_dew_point_values(DryBulbCondition(q[1], q[2])))
        raise ValueError('unknown read %r' % (q,))
    if q == 'db':
        return _coll(dd.hourly_dry_bulb)
    if q == 'dew':
        return _coll(dd.hourly_dew_point)
    if q == 'rh':
        return _coll(dd.hourly_relative_humidity)
    if q == 'dewvals':
        return list(dd.humidity_condition.hourly_dew_point_values(dd.dry_bulb_condition))
    if q == 'ir':
        return _coll(dd.hourly_horizontal_infrared)
    if q == 'press':
        return _coll(dd.hourly_barometric_pressure)
    if q == 'ws':
        return _coll(dd.hourly_wind_speed)
    if q == 'wd':
        return _coll(dd.hourly_wind_direction)
    if q == 'cover':
        return _coll(dd.hourly_sky_cover)
    if q == 'hdts':
        return [t.moy for t in dd.hourly_datetimes]
    if q == 'ap':
        ap = dd.analysis_period
        return [ap.st_month, ap.st_day, ap.st_hour, ap.end_month, ap.end_day, ap.end_hour, ap.timestep,
                bool(ap.is_leap_year)]
    if q == 'rad':
        return [_coll(c) for c in dd.hourly_solar_radiation]
    if q == 'idf':
        return dd.to_idf()
    if q == 'state':
        return [_canon('ok ' + _show_dd(dd)), _canon('ok ' + _show_loc(dd.location))]
    if q == 'eq':
        # an equal design day built from scratch compares (and hashes) equal; so does the copy
        return [dd == fresh, fresh == dd, hash(dd) == hash(fresh), dd.duplicate() == dd, not (dd != fresh)]
    if q == 'idf_rt':
        return DesignDay.from_idf(dd.to_idf(), dd.location) == dd
    if q == 'scribble':
        return _scribble(dd)
    raise ValueError('unknown read %r' % (q,))


def _read(dd, q, fresh):
    try:
        return _read0(dd, q, fresh)
    except (AssertionError, ValueError, AttributeError, TypeError, IndexError, KeyError, ZeroDivisionError,
            OverflowError) as e:
        if isinstance(e, ValueError) and str(e).startswith('unknown read'):
            raise
        return 'raises:' + type(e).__name__


def _short(v):
    t = json.dumps(v, default=str)
    return t if len(t) < 300 else t[:300] + '...'


def _first_diff(a, b):
    if isinstance(a, list) and isinstance(b, list) and len(a) == len(b):
        for i, (x, y) in enumerate(zip(a, b)):
            if x != y:
                sub = _first_diff(x, y)
                return '[%d]%s' % (i, sub)
        return ''
    return ': %s != %s' % (_short(a), _short(b))


def _check_history(inp, digest=None):
    """One design-day object, a list of operations (setters, replaced conditions, refused operations, reads in
    any order, repeated).  After every read the observables of the object must be those of (i) a design day
    built from scratch from the state the user has established and (ii) the statement itself (independent
    recomputation).  A refused operation must be refused and leave every observable as before."""
    st = {'desc': inp['desc'], 'loc': inp['loc']}
    dd = _build(st['desc'], _build_loc(st['loc']))
    last = 'build'
    last_refused = False
    for i, op in enumerate(inp['ops']):
        sig = {'step': op[0], 'after': last, 'after_refused': last_refused}
        if op[0] == 'read':
            fresh = _build(st['desc'], _build_loc(st['loc']))
            for q in op[1]:
                got = _read(dd, q, fresh)
                want = [True] * 5 if q == 'eq' else (True if q == 'idf_rt' else _read(fresh, q, fresh))
                if digest is not None:
                    digest.append(got)
                if got != want:
                    qn = q if isinstance(q, str) else q[0]
                    return {'required': 'step %d: %s of the object == that of a design day built from the '
                                        'established state %s' % (i, qn, _short(want)),
                            'observed': 'differs at %s' % _first_diff(got, want),
                            'sig': dict(sig, clause='history:' + qn)}
            if len(op) > 2 and op[2]:
                desc, loc = st['desc'], _build_loc(st['loc'])
                res = _profile_clauses(dd, desc)
                if res is None and not (desc['dst'] and (desc['month'], desc['day']) == (1, 1)
                                        and abs(st['loc']['lat'] or 0) > 60):
                    res = _dates_clauses(dd, desc, loc, op[3] if len(op) > 3 else [1])
                if res:
                    res['required'] = 'step %d (after %s): %s' % (i, last, res['required'])
                    res['sig'] = dict(sig, **{k: v for k, v in res['sig'].items()})
                    res['sig']['clause'] = 'history:' + str(res['sig'].get('clause'))
                    return res
            continue
        got = _real_step(dd, op)
        want, st = _spec_step(st, op)
        if got != want:
            return {'required': 'step %d: %s %s is %s' % (i, op[0], _short(op[1]), want), 'observed': got,
                    'sig': dict(sig, clause='history:refusal', want=want, got=got)}
        last = op[0]
        last_refused = want != 'ok'
    return None


# --- generator of histories


def _consistent_hv(rng, desc):
    return _humidity_value(rng, desc['h_type'], float(desc['db_max']), float(desc['pressure']))


def _rand_reads(rng, k=None):
    qs = list(ALL_READS)
    rng.shuffle(qs)
    qs = qs[:k or rng.randrange(1, 6)]
    if rng.random() < 0.35:
        qs.insert(rng.randrange(len(qs) + 1), ['sdts', rng.choice(TIMESTEPS)])
    if rng.random() < 0.3:
        qs.insert(rng.randrange(len(qs) + 1), ['rad_at', rng.choice([1, 1, 2, 3, 4, 6]), rng.randrange(len(ALT_LOCS))])
    if rng.random() < 0.25:
        qs.insert(rng.randrange(len(qs) + 1), ['dew_for', round(rng.uniform(-20, 45), 1), rng.choice([0, 8.5, 20])])
    if rng.random() < 0.3:
        qs.append(rng.choice(qs))               # the same question asked twice
    if rng.random() < 0.25:
        qs.insert(rng.randrange(len(qs) + 1), 'scribble')      # edit every returned container in place
    return qs


def _hist_date(rng):
    r = rng.random()
    if r < 0.35:
        return [rng.randrange(1, 13), 1]                    # first day of a month
    if r < 0.5:
        return rng.choice([[1, 1], [12, 31], [2, 28], [1, 2], [12, 30]])
    m, d = _date(rng)
    return [m, d]


def _rand_skyd(rng, kind=None):
    kind = kind or rng.choice(['clear', 'tau', 'tau', 'base'])
    if kind == 'clear':
        return ['clear', rng.choice([0, 1, 1.2, 0.0, 0.5, 0.87, 1.1])]
    if kind == 'tau':
        return ['tau', round(rng.uniform(0.2, 0.8), 3), round(rng.uniform(1.5, 2.8), 3), rng.random() < 0.5]
    return ['base', rng.choice(['', 'BeamSch']), rng.choice(['', 'DiffSch'])]


def _gen_history(rng, count=None, refused_first=False, n=None):
    """A history on one design day: [kind, argument] setter steps (valid and refused) and ['read', questions,
    full?] steps.  Everything is plain numbers / strings (JSON); nothing of ladybug builds it."""
    desc = _rand_desc(rng)
    if rng.random() < 0.8:
        desc['wbr'] = None
    if rng.random() < 0.15:                    # a date of the leap year (29 Feb among them)
        desc['leap'] = True
        if rng.random() < 0.5:
            desc['month'], desc['day'] = rng.choice([(2, 29), (3, 1), (12, 31), (2, 28)])
        if count:
            count('hist_leap_start')
    loc = _rand_loc(rng)
    st = {'desc': desc, 'loc': loc}
    ops = []
    cons = [True]

    def emit(k, a):
        op = [k, a]
        status, st2 = _spec_step(st, op)
        if st2 is not st:
            st.update(st2)
        ops.append(op)
        if count:
            count('hist_op:' + k + (':refused' if status != 'ok' else ''))
        return status

    def fix_humidity():
        d = st['desc']
        if d['h_type'] == 'Enthalpy' and d['db_max'] < 5:
            emit('h_type', rng.choice(HUM_TYPES[:3]))
        emit('h_value', _consistent_hv(rng, st['desc']))
        cons[0] = True

    def read(full=False, k=None):
        qs = list(ALL_READS) if full else _rand_reads(rng, k)
        if full:
            rng.shuffle(qs)
            d = st['desc']
            if d['sky'][0] != 'base' and d['wbr'] is None and not d.get('leap'):
                qs.append('idf_rt')
            qs.insert(rng.randrange(len(qs)), 'scribble')
        ops.append(['read', qs, bool(full and cons[0]), [1, rng.choice(TIMESTEPS)]])

    def refused():
        d = st['desc']
        kind = d['sky'][0]
        choices = [('db_range', rng.choice([-6.0, -0.5, 'abc', None])), ('db_max', rng.choice(['abc', None])),
                   ('h_type', rng.choice(['RelativeHumidity', 'wetbulb', ''])), ('h_value', rng.choice([None, '0.5'])),
                   ('pressure', rng.choice(['abc', None])), ('ws', rng.choice([None, '3'])),
                   ('wd', rng.choice([361, -0.5, 'abc', 720.0])), ('date', rng.choice([[2, 30], [13, 1], [4, 31], None, [2, 29]])),
                   ('name', rng.choice([None, 5])), ('day_type', rng.choice(['Saturday', 'summerdesignday', ''])),
                   ('loc', rng.choice([None, dict(_rand_loc(rng), lat=95.0), dict(_rand_loc(rng), lon=-181.0)])),
                   ('new_sky', rng.choice([None, {'sky': ['clear', 1.5], 'month': 7, 'day': 21, 'dst': True},
                                           {'sky': ['tau', 'abc', 2.0, False], 'month': 1, 'day': 1, 'dst': False},
                                           {'sky': ['clear', 1], 'month': 2, 'day': 30, 'dst': not d['dst']},
                                           {'sky': ['tau', 0.4, 2.0, True], 'month': 2, 'day': 29, 'dst': not d['dst']},
                                           {'sky': ['clear', 1], 'month': 2, 'day': 30, 'dst': False, 'leap': True}])),
                   ('new_db', rng.choice([[d['db_max'] + 5, -2.0, 'DefaultMultipliers', ''], ['abc', 5, 'DefaultMultipliers', '']])),
                   ('new_hum', rng.choice([['Foo', 10.0, 101325, True, True, '', None],
                                           [d['h_type'], 'abc', 90000, not d['rain'], not d['snow'], 'S', None]])),
                   ('new_wind', rng.choice([[d['ws'] + 1, 400], [None, 10]]))]
        if kind == 'clear':
            choices += [('clearness', rng.choice([1.3, -0.1, 'abc', 1.2000001])), ('tau_b', 0.3), ('use_2017', True)] * 2
        elif kind == 'tau':
            choices += [('tau_b', rng.choice(['abc', None])), ('tau_d', rng.choice(['abc', None])), ('clearness', 0.5)] * 2
        else:
            choices += [('clearness', 0.5), ('tau_d', 2.0)]
        k, a = rng.choice(choices)
        emit(k, a)

    def valid():
        d = st['desc']
        kind = d['sky'][0]
        r = rng.random()
        if r < 0.16:
            emit('dst', not d['dst'])
        elif r < 0.32:
            emit('date', _hist_date(rng))
        elif r < 0.40:
            emit('db_range', rng.choice([0, 0.0, 25.0, round(rng.uniform(0, 25), 1), rng.randrange(0, 26)]))
        elif r < 0.48:
            emit('db_max', _num(rng, rng.uniform(-40, 55)))
            cons[0] = False
            if rng.random() < 0.5:
                read()
            fix_humidity()
        elif r < 0.54:
            emit('h_type', rng.choice(HUM_TYPES))
            cons[0] = False
            if rng.random() < 0.4:
                read()
            fix_humidity()
        elif r < 0.56 and cons[0]:
            # the same humidity numbers at a lower pressure are still a physically possible state
            emit('pressure', round(float(d['pressure']) * rng.uniform(0.75, 0.99), rng.choice([0, 1])))
        elif r < 0.58:
            emit('pressure', _num(rng, rng.uniform(60000, 105000)))
            cons[0] = False
            if rng.random() < 0.6:
                read()
            fix_humidity()
        elif r < 0.64:
            if kind == 'clear':
                emit('clearness', rng.choice([0, 0.0, 1, 1.2, round(rng.uniform(0, 1.2), 2)]))
            elif kind == 'tau':
                k = rng.choice(['tau_b', 'tau_d', 'use_2017'])
                emit(k, (not d['sky'][3]) if k == 'use_2017' else round(rng.uniform(0.2, 2.8), 3))
            else:
                emit(rng.choice(['beam', 'diff']), rng.choice(['', 'Sch A', 'SchB']))
        elif r < 0.72:
            a = {'sky': _rand_skyd(rng), 'dst': rng.random() < 0.5}
            a['month'], a['day'] = _hist_date(rng)
            if rng.random() < 0.25:
                a['leap'] = True
                if rng.random() < 0.5:
                    a['month'], a['day'] = rng.choice([(2, 29), (3, 1), (12, 31)])
            emit('new_sky', a)
        elif r < 0.77:
            emit('loc', _rand_loc(rng))
        elif r < 0.81:
            emit('new_db', [_num(rng, rng.uniform(-40, 55)), rng.choice([0, 12.5, 25.0]),
                            rng.choice(['DefaultMultipliers', 'MultiplierSchedule']), rng.choice(['', 'RangeSch'])])
            cons[0] = False
            fix_humidity()
        elif r < 0.85:
            ht = rng.choice(HUM_TYPES)
            if ht == 'Enthalpy' and d['db_max'] < 5:
                ht = 'Dewpoint'
            p = _num(rng, rng.uniform(60000, 105000))
            emit('new_hum', [ht, _humidity_value(rng, ht, float(d['db_max']), float(p)), p, rng.random() < 0.5,
                             rng.random() < 0.5, rng.choice(['', 'HumSch']), None])
            cons[0] = True
        elif r < 0.88:
            emit('new_wind', [rng.choice([0, 0.0, 3.5, 12]), rng.choice([0, 360, 360.0, 45.5])])
        else:
            k = rng.choice(['name', 'day_type', 'mod_type', 'mod_sched', 'rain', 'snow', 'sched', 'wbr', 'ws', 'wd'])
            v = {'name': _name(rng), 'day_type': rng.choice(DAY_TYPES),
                 'mod_type': rng.choice(['DefaultMultipliers', 'MultiplierSchedule', 'DifferenceSchedule']),
                 'mod_sched': rng.choice(['', 'RangeSch']), 'rain': not d['rain'], 'snow': not d['snow'],
                 'sched': rng.choice(['', 'HumSch']), 'wbr': rng.choice([None, None, 4.5]),
                 'ws': rng.choice([0, 0.0, 7.25]), 'wd': rng.choice([0, 360, 181.5])}[k]
            emit(k, v)

    if refused_first:
        refused()
        read(k=3)
    else:
        read()
    for _ in range(n or rng.randrange(3, 8)):
        r = rng.random()
        if r < 0.27:
            refused()
            if rng.random() < 0.8:
                read(full=rng.random() < 0.3)
        elif r < 0.5:
            read()
        else:
            valid()
    read(full=True)
    return {'desc': desc, 'loc': loc, 'ops': ops}       # `desc` / `loc` are the initial ones (never mutated)


# --- the same histories on the Lean object state machine (driver op `hist`)


def _arg(v):
    if v is None:
        return 'O'
    if isinstance(v, bool):
        return 'B' + _b(v)
    if isinstance(v, str):
        return 'S' + v.encode('utf-8').hex()
    return 'N' + str(v).encode('utf-8').hex()


def _sky_arg_tokens(a):
    if a is None:
        return ['O', 'O', 'B0', 'O', 'O', 'O', 'B0', 'B0']
    s = a['sky']
    if s[0] == 'clear':
        rest = ['clear', _arg(s[1]), 'O', 'B0']
    elif s[0] == 'tau':
        rest = ['tau', _arg(s[1]), _arg(s[2]), 'B' + _b(s[3])]
    else:
        rest = ['base', _arg(s[1]), _arg(s[2]), 'B0']
    return [_arg(a['month']), _arg(a['day']), 'B' + _b(a['dst'])] + rest + ['B' + _b(bool(a.get('leap')))]


def _op_tokens(op):
    k, a = op[0], op[1]
    if k == 'read':
        return ['read']
    if k in ('rain', 'snow', 'dst', 'use_2017'):
        return [k, 'B' + _b(bool(a))]
    if k == 'date':
        return [k] + (['O', 'O'] if a is None else [_arg(a[0]), _arg(a[1])])
    if k == 'loc':
        if a is None:
            return [k, 'O', 'O', 'O', 'O', 'O']
        t = _loc_tokens(a)
        return [k, 'S' + t[0][1:]] + ['N' + x[1:] for x in t[1:]]
    if k == 'new_db':
        return [k] + [_arg(x) for x in a]
    if k == 'new_hum':
        return [k, _arg(a[0]), _arg(a[1]), _arg(a[2]), 'B' + _b(bool(a[3])), 'B' + _b(bool(a[4])), _arg(a[5]), _arg(a[6])]
    if k == 'new_wind':
        return [k, _arg(a[0]), _arg(a[1])]
    if k == 'new_sky':
        return [k] + _sky_arg_tokens(a)
    return [k, _arg(a)]


def _hist_line(h):
    toks = ['hist'] + _dd_tokens(h['desc']) + _loc_tokens(h['loc'])
    for op in h['ops']:
        toks += [';'] + _op_tokens(op)
    return ' '.join(toks)


def _impl_hist(h):
    """The real object driven through the same history, in the output format of the driver op `hist`:
    after every step the status and the public state (also after reads: a read must not change it)."""
    from ladybug.psychrometrics import rel_humid_from_db_dpt
    dd = _build(h['desc'], _build_loc(h['loc']))
    steps = []
    hums = {}
    for i, op in enumerate(h['ops']):
        if op[0] == 'read':
            fresh = _build(h['desc'], _build_loc(h['loc']))
            for q in op[1]:
                _read(dd, q, fresh)
            status = 'ok'
            # the humidity profile of the object at this point of its history (for the memo-free model)
            try:
                dp = list(dd.hourly_dew_point.values)
                rh = list(dd.hourly_relative_humidity.values)
                rh2 = [rel_humid_from_db_dpt(x, y) for x, y in zip(dd.dry_bulb_condition.hourly_values, dp)]
                hums[i] = _floats_line(dp + rh) if rh == rh2 else 'rh series is not that of the dew point series'
            except ZeroDivisionError:
                pass
            except (ValueError, OverflowError):
                hums[i] = 'nonfinite'
        else:
            status = _real_step(dd, op)
        steps.append('%s %s %s' % (status, _show_dd(dd), _show_loc(dd.location)))
    return 'ok ' + ' | '.join(steps), dd, hums


def _state_tokens(step):
    """Input tokens (`_dd_tokens` format) of the design day the model reports after a step."""
    t = step.split(' ')[1:]
    head = [('x' + v[1:]) if v.startswith('n') else v for v in t[:19]]
    kind = t[19]
    if kind == 'clear':
        sky = ['clear', 'x' + t[20][1:], 'x', '0']
        n = 21
    elif kind == 'tau':
        sky = ['tau', 'x' + t[20][1:], 'x' + t[21][1:], t[22]]
        n = 23
    else:
        sky = ['base', t[20], t[21], '0']
        n = 22
    return head + sky, t[n:]


def _history_correspondence(ctx, rng):
    from ladybug.designday import DryBulbCondition
    hists = [_gen_history(rng, ctx.count, refused_first=(i % 5 == 0)) for i in range(ctx.n(160, 2000))]
    lines = [_hist_line(h) for h in hists]
    outs = ctx.driver().run(lines)
    finals = []
    hum_steps = []
    for h, line, mo in zip(hists, lines, outs):
        try:
            io, dd, hums = _impl_hist(h)
        except Exception as e:
            io, dd, hums = 'err:' + err_name(e), None, {}
        ctx.compared += 1
        ctx.count('op:hist')
        ctx.count('hist_len:%d' % min(len(h['ops']), 12))
        ctx.case(('hist', line), nontrivial=io.startswith('ok'))
        if _canon(mo) != _canon(io):
            ms, is_ = _canon(mo).split(' | '), _canon(io).split(' | ')
            k = next((i for i, (a, b) in enumerate(zip(ms, is_)) if a != b), min(len(ms), len(is_)))
            ctx.disagree('hist', {'history': h, 'first_differing_step': k,
                                  'op': h['ops'][k] if k < len(h['ops']) else None},
                         ms[k][:400] if k < len(ms) else mo[:200], is_[k][:400] if k < len(is_) else io[:200])
        elif dd is not None and mo.startswith('ok '):
            msteps = mo[3:].split(' | ')
            finals.append((h, msteps[-1], dd))
            for i, line_i in hums.items():
                hum_steps.append((h, i, msteps[i], line_i))
    ctx.sample({'op': 'hist', 'request': lines[0][:400], 'model': outs[0][:200]})
    # observables of the model, evaluated on the state the model's own step function reports, against the
    # observables of the real object at the end of its history
    reqs, impls = [], []
    for h, step, dd in finals:
        toks, _ = _state_tokens(step)
        reqs.append('to_idf ' + ' '.join(toks))
        impls.append(('hist_to_idf', h, lambda dd=dd: 'ok ' + _x(dd.to_idf())))
        mx, rg = float(_unx(toks[2])), float(_unx(toks[3]))
        reqs.append('db %s %s' % (_fbits(mx), _fbits(rg)))
        impls.append(('hist_db', h, lambda dd=dd: _floats_line(dd.hourly_dry_bulb.values)))
        reqs.append('hdts %s %s %s' % (toks[17], toks[15], toks[16]))
        impls.append(('hist_hdts', h, lambda dd=dd: 'ok ' + ' '.join(str(x.moy) for x in dd.hourly_datetimes)))
        ts = rng.choice(TIMESTEPS)
        reqs.append('sdts %s %s %s %s %d' % (toks[17], toks[15], toks[16], toks[18], ts))
        impls.append(('hist_sdts', h, lambda dd=dd, ts=ts: 'ok ' + ' '.join(
            str(x.moy) for x in dd.sky_condition._get_datetimes(ts))))
    # the humidity profile after every read step, against the memo-free model on the model's own state
    hreqs = []
    for h, i, step, _ in hum_steps:
        toks, _rest = _state_tokens(step)
        hreqs.append('hum %s %s' % (toks[6], ' '.join(_fbits(float(_unx(t))) for t in (toks[7], toks[8], toks[2], toks[3]))))
    canon9 = _close_floats(9)
    for (h, i, step, io), line, mo in zip(hum_steps, hreqs, ctx.driver().run(hreqs)):
        ctx.compared += 1
        ctx.count('op:hist_hum')
        if canon9(mo) != canon9(io):
            ctx.disagree('hist_hum', {'history': h, 'step': i, 'line': line}, mo[:300], io[:300])
    mouts = ctx.driver().run(reqs)
    for (op, h, fn), line, mo in zip(impls, reqs, mouts):
        try:
            io = fn()
        except Exception as e:
            io = 'err:' + err_name(e)
        ctx.compared += 1
        ctx.count('op:' + op)
        if mo != io:
            ctx.disagree(op, {'history': h, 'line': line[:300]}, mo[:300], io[:300])


# --- histories on ONE DDY object


def _writable(desc):
    return desc['sky'][0] != 'base' and desc['wbr'] is None


def _check_ddy_history(inp):
    """One DDY object: location / design-day list / item setters (valid and refused), edits of a contained
    day, reads of the file text and of the file round trip.  The file text must be the location object
    followed by the IDF text of design days built from scratch from the established state."""
    from ladybug.ddy import DDY
    loc_d = inp['loc']
    days = [dict(d) for d in inp['days']]
    loc = _build_loc(loc_d)
    y = DDY(loc, [_build(d, loc) for d in days])
    for i, op in enumerate(inp['ops']):
        k, a = op[0], op[1]
        sig = {'step': k}
        want = 'ok'
        try:
            if k == 'set_loc':
                if a is None or not _loc_ok(a):
                    want = 'refused:assert'
                y.location = None if a is None else _build_loc(a)
                loc_d = a
            elif k == 'set_days':
                if any(d is None for d in a):
                    want = 'refused:assert'
                y.design_days = [('not a day' if d is None else _build(d, _build_loc(loc_d))) for d in a]
                days = [dict(d) for d in a]
            elif k == 'setitem':
                if a[1] is None:
                    want = 'refused:assert'
                elif not -len(days) <= a[0] < len(days):
                    want = 'refused:index'
                y[a[0]] = 'not a day' if a[1] is None else _build(a[1], _build_loc(loc_d))
                days[a[0]] = dict(a[1])
            elif k == 'edit':
                st = {'desc': days[a[0]], 'loc': loc_d}
                want, st2 = _spec_step(st, a[1])
                got = _real_step(y[a[0]], a[1])
                if got != 'ok':
                    raise _Refused(got)
                days[a[0]] = st2['desc']
            elif k == 'read':
                floc = _build_loc(loc_d)
                exp = floc.to_idf() + '\n\n' + ''.join(_build(d, floc).to_idf() + '\n\n' for d in days)
                got = y.to_file_string()
                if got != exp:
                    j = next((n for n, (p, q) in enumerate(zip(got, exp)) if p != q), min(len(got), len(exp)))
                    return {'required': 'step %d: file text = location + design days of the established state; '
                                        '...%r' % (i, exp[max(0, j - 40):j + 40]),
                            'observed': '...%r' % got[max(0, j - 40):j + 40], 'sig': dict(sig, clause='ddy_history:text')}
                if len(y) != len(days) or len(y.design_days) != len(days):
                    return {'required': len(days), 'observed': len(y), 'sig': dict(sig, clause='ddy_history:len')}
                if days and all(_writable(d) for d in days):
                    res = _ddy_rt(y, dict(sig, clause0='ddy_history'))
                    if res:
                        return res
            else:
                raise ValueError('unknown ddy op %r' % (k,))
            got = 'ok'
        except _Refused as e:
            got = e.args[0]
        except (AssertionError, TypeError, IndexError, AttributeError) as e:
            got = 'refused:' + err_name(e)
        if got != want:
            return {'required': 'step %d: %s is %s' % (i, k, want), 'observed': got,
                    'sig': dict(sig, clause='ddy_history:refusal')}
    return None


class _Refused(Exception):
    pass


def _gen_ddy_history(rng):
    loc = _rand_loc(rng)
    days = []
    for _ in range(rng.choice([1, 2, 3])):
        d = _rand_desc(rng, sky=rng.choice(['clear', 'tau']))
        d['wbr'] = None
        days.append(d)
    cur_loc, cur = loc, [dict(d) for d in days]
    ops = []

    def day():
        d = _rand_desc(rng, sky=rng.choice(['clear', 'tau']))
        d['wbr'] = None
        return d

    for _ in range(rng.randrange(3, 7)):
        r = rng.random()
        if r < 0.15:
            a = _rand_loc(rng)
            ops.append(['set_loc', a])
            cur_loc = a
        elif r < 0.25:
            ops.append(['set_loc', rng.choice([None, dict(_rand_loc(rng), lat=-91.0)])])
        elif r < 0.35:
            a = [day() for _ in range(rng.choice([1, 2]))]
            ops.append(['set_days', a])
            cur = [dict(d) for d in a]
        elif r < 0.45:
            ops.append(['set_days', [day(), None]])
        elif r < 0.55:
            a = [rng.randrange(-len(cur), len(cur)), day()]
            ops.append(['setitem', a])
            cur[a[0]] = dict(a[1])
        elif r < 0.65:
            ops.append(['setitem', rng.choice([[0, None], [len(cur) + 1, day()]])])
        elif r < 0.85:
            j = rng.randrange(len(cur))
            d = cur[j]
            op = rng.choice([['dst', not d['dst']], ['date', _hist_date(rng)], ['db_range', rng.choice([0, 14.5])],
                             ['db_range', -3.0], ['wd', 400], ['rain', not d['rain']], ['snow', not d['snow']],
                             ['name', _name(rng)], ['day_type', 'Saturday'], ['date', [2, 30]]])
            _, st2 = _spec_step({'desc': d, 'loc': cur_loc}, op)
            cur[j] = st2['desc']
            ops.append(['edit', [j, op]])
        ops.append(['read', None])
    ops.append(['read', None])
    return {'loc': loc, 'days': days, 'ops': ops}


# --- histories on ONE EPW object


def _check_epw_history(inp):
    """One EPW object (a new one, not the shared one), a list of reads in the given order - header days,
    approximate days of several percentiles, monthly days, refused calls, the DDY written from it - each
    compared with the values stated in the raw file (independent of the order)."""
    from ladybug.epw import EPW
    from ladybug.ddy import DDY
    fn = inp['file']
    epw = EPW(_epw_path(fn))
    tmp = None
    try:
        for i, op in enumerate(inp['ops']):
            k = op[0]
            sig = {'file': fn, 'step': k}
            res = None
            if k == 'header':
                res = _check_header_days({'source': 'epw', 'file': fn}, epw)
                if res and any(core.matches(dict(res['sig'], op='header_days'), kf) for kf in core.load_known(PROP)):
                    res = None          # the recorded header defect (reported by the op header_days itself)
            elif k == 'approx':
                res = _check_approx_days({'file': fn, 'percentile': op[1], 'monthly': op[2]}, epw)
            elif k == 'bad':
                try:
                    got = epw.approximate_design_day(op[1], 0.4)
                    res = {'required': 'approximate_design_day(%r) is refused' % op[1], 'observed': str(got),
                           'sig': dict(sig, clause='epw_history:refusal')}
                except ValueError:
                    pass
            elif k == 'to_ddy':
                tmp = tmp or tempfile.mkdtemp(prefix='c16_')
                path = os.path.join(tmp, 'out%d.ddy' % i)
                epw.to_ddy(path, op[1])
                back = DDY.from_ddy_file(path)
                days = epw.best_available_design_days(op[1])
                want = [_canon('ok ' + _show_dd(d)) for d in days]
                got = [_canon('ok ' + _show_dd(d)) for d in back.design_days]
                if want != got or _canon('ok ' + _show_loc(back.location)) != _canon('ok ' + _show_loc(epw.location)):
                    res = {'required': 'to_ddy(%s) reads back as best_available_design_days: %s' % (op[1], want),
                           'observed': got, 'sig': dict(sig, clause='epw_history:to_ddy')}
            elif k == 'to_ddy_monthly':
                tmp = tmp or tempfile.mkdtemp(prefix='c16_')
                path = os.path.join(tmp, 'outm%d.ddy' % i)
                epw.to_ddy_monthly_cooling(path, op[1], op[2])
                back = DDY.from_ddy_file(path)
                days = [epw.best_available_design_days(op[1])[0]] + list(epw.monthly_cooling_design_days(op[2]))
                want = [_canon('ok ' + _show_dd(d)).split(' ')[2:] for d in days]
                got = [_canon('ok ' + _show_dd(d)).split(' ')[2:] for d in back.design_days]
                names_ok = len(back.design_days) == 13 and back.design_days[0].name == days[0].name and all(
                    b.name.startswith(d.name + ' (') for b, d in zip(back.design_days[1:], days[1:]))
                if want != got or not names_ok or \
                        _canon('ok ' + _show_loc(back.location)) != _canon('ok ' + _show_loc(epw.location)):
                    res = {'required': 'to_ddy_monthly_cooling(%s, %s) reads back as the heating day + the 12 monthly '
                                       'days' % (op[1], op[2]), 'observed': [len(got), [n.name for n in back.design_days][:3]],
                           'sig': dict(sig, clause='epw_history:to_ddy_monthly')}
            elif k == 'ip':
                epw.convert_to_ip()
            elif k == 'si':
                epw.convert_to_si()
            else:
                raise ValueError('unknown epw op %r' % (k,))
            if res:
                res['required'] = 'step %d (%s): %s' % (i, k, res['required'])
                res['sig'] = dict(res['sig'], step=k, units='IP' if epw.is_ip else 'SI', history='epw')
                return res
        return None
    finally:
        if tmp:
            shutil.rmtree(tmp, ignore_errors=True)


def _gen_epw_history(rng, fn):
    ops = [['header'], ['approx', rng.choice([0.4, 1]), None], ['bad', rng.choice(['SpringDesignDay', '', 'Summer'])],
           ['approx', rng.choice([2, 5]), 5], ['to_ddy', rng.choice([0.4, 1, 2])], ['header']]
    rng.shuffle(ops)
    return {'file': fn, 'ops': ops}


# --- process-order independence: a slice of the oracle stream in fresh interpreters, in different orders


def _digest(op, inp):
    """A digest of every observable the case touches (floats by repr): the same case must give the same
    digest whatever ran before it in the process."""
    import hashlib
    acc = []
    if op in ('profile', 'dates', 'idf_roundtrip'):
        dd = _build(inp['desc'], _build_loc(inp['loc']) if inp.get('loc') else None)
        for q in ALL_READS[:-1] + [['sdts', 1], ['sdts', 4], ['rad_at', 2, 0]]:
            acc.append(_read(dd, q, dd))
    elif op == 'history':
        _check_history(inp, acc)
    elif op == 'header_days' and inp['source'] == 'stat':
        from ladybug.stat import STAT
        s = STAT(os.path.join(_assets(), 'stat', inp['file']))
        for attr in ('annual_heating_design_day_996', 'annual_heating_design_day_990',
                     'annual_cooling_design_day_004', 'annual_cooling_design_day_010'):
            d = getattr(s, attr)
            acc.append(None if d is None else _show_dd(d))
    elif op == 'approx_days':
        e = _epw(inp['file'])
        for dt in ('WinterDesignDay', 'SummerDesignDay'):
            try:
                acc.append(_show_dd(e.approximate_design_day(dt, inp['percentile'])))
            except Exception as ex:
                acc.append('raises:' + type(ex).__name__)
    elif op == 'ddy_file':
        from ladybug.ddy import DDY
        y = DDY.from_ddy_file(os.path.join(_assets(), 'ddy', inp['file']))
        acc = [_show_dd(d) for d in y.design_days] + [y.to_file_string()]
    return hashlib.sha1(json.dumps(acc, default=repr).encode('utf-8')).hexdigest()


def _order_worker():
    """Entry point of the fresh interpreter: stdin = {'cases': [[op, inp], ...], 'order': [...]}."""
    import contextlib
    import io
    job = json.loads(sys.stdin.read())
    out = {}
    with contextlib.redirect_stdout(io.StringIO()):
        for j in job['order']:
            op, inp = job['cases'][j]
            try:
                res = _check_case(op, inp)
            except Exception as e:
                res = {'required': 'oracle evaluates', 'observed': 'exception %s: %s' % (type(e).__name__, e),
                       'sig': {'exception': type(e).__name__}}
            try:
                dg = _digest(op, inp)
            except Exception as e:
                dg = 'exception %s: %s' % (type(e).__name__, e)
            out[str(j)] = {'res': res, 'digest': dg}
    sys.__stdout__.write(json.dumps(out, default=str))


def _spawn_order(cases, order):
    import subprocess
    code = ('import sys; sys.path.insert(0, %r); sys.path.insert(0, %r); '
            'from harness.props import c16; c16._order_worker()' % (core.ROOT, core.REPO))
    env = dict(os.environ, LADYBUG_REPO=core.REPO)
    return subprocess.Popen([sys.executable, '-c', code], stdin=subprocess.PIPE, stdout=subprocess.PIPE,
                            stderr=subprocess.PIPE, env=env), json.dumps({'cases': cases, 'order': order})


def _run_orders(cases, orders):
    procs = []
    for o in orders:
        p, data = _spawn_order(cases, o)
        p.stdin.write(data.encode('utf-8'))
        p.stdin.close()
        procs.append(p)
    outs = []
    for p in procs:
        raw = p.stdout.read()
        err = p.stderr.read()
        p.wait()
        if p.returncode != 0:
            raise core.MachineryError('order worker failed: %s' % err.decode('utf-8', 'replace')[-1500:])
        outs.append(json.loads(raw.decode('utf-8')))
    return outs


def _known_sig(res):
    """Failures that are recorded findings are the same in every order: not an order effect."""
    if not res:
        return False
    return any(core.matches(dict(res.get('sig') or {}, op=op), k) for k in core.load_known(PROP)
               for op in ('idf_roundtrip', 'header_days', 'epw_history'))


def _check_order(inp):
    """Replay of a process-order failure: `order` and `ref_order` of the same cases in two fresh
    interpreters; every case must pass in both and have the same observables in both."""
    cases = inp['cases']
    a, b = _run_orders(cases, [inp['order'], inp['ref_order']])
    for name, run, order in (('order', a, inp['order']), ('ref_order', b, inp['ref_order'])):
        for j in order:
            r = run[str(j)]['res']
            if r and not _known_sig(r):
                pos = order.index(j)
                return {'required': 'case %d (%s) holds when run at position %d of %s: %s' % (
                    j, cases[j][0], pos, name, r.get('required')), 'observed': r.get('observed'),
                    'sig': dict(r.get('sig') or {}, clause='order:' + str((r.get('sig') or {}).get('clause')),
                                case_op=cases[j][0], position=pos)}
    for j in inp['order']:
        if a[str(j)]['digest'] != b[str(j)]['digest']:
            return {'required': 'case %d (%s): the same observables in both process orders' % (j, cases[j][0]),
                    'observed': 'digest %s (position %d of order) != %s (position %d of ref_order)' % (
                        a[str(j)]['digest'][:12], inp['order'].index(j), b[str(j)]['digest'][:12],
                        inp['ref_order'].index(j)),
                    'sig': {'clause': 'order:digest', 'case_op': cases[j][0]}}
    return None


def _order_cases(rng):
    """The slice: rare classes of every stratum + histories that begin with a refused call."""
    cases = []
    for ht in HUM_TYPES:                                   # saturating days
        cases.append(['profile', {'desc': _saturating_desc(rng, ht)}])
    cases.append(['profile', {'desc': _with(db_range=0)}])
    for m in (3, 8, 11):                                   # first of a month x daylight saving x both models
        cases.append(['dates', {'desc': _with(month=m, day=1, dst=True, sky=['clear', 0.9]), 'loc': FIXED_LOC,
                                'timesteps': [1, 2]}])
    cases.append(['dates', {'desc': _with(month=12, day=31, dst=False, sky=['tau', 0.45, 2.1, True]),
                            'loc': ALT_LOCS[0], 'timesteps': [1, 6]}])
    cases.append(['dates', {'desc': _with(month=1, day=1, dst=False), 'loc': FIXED_LOC, 'timesteps': [1, 4]}])
    cases.append(['dates', {'desc': _with(month=7, day=21, dst=True, sky=['tau', 0.4, 2.3, False]),
                            'loc': ALT_LOCS[2], 'timesteps': [1, 3]}])
    # round 4: leap dates on both sky models, a one-shot iterable, every construction route
    cases.append(['dates', {'desc': _with(month=2, day=29, leap=True, sky=['tau', 0.45, 2.1, False]), 'loc': FIXED_LOC,
                            'timesteps': [1, 2]}])
    cases.append(['dates', {'desc': _with(month=12, day=31, leap=True, dst=True, sky=['clear', 1.0]), 'loc': ALT_LOCS[0],
                            'timesteps': [1, 12]}])
    cases.append(['routes', {'desc': _with(month=3, day=1, leap=True, sky=['tau', 0.4, 2.2, True]), 'loc': FIXED_LOC}])
    cases.append(['shapes', {'loc': FIXED_LOC, 'days': [_with(name='A day'), _with(name='B day', month=1, day=1)],
                             'shape': rng.choice(ONE_SHOT), 'via': rng.choice(['init', 'setter', 'setter_twice'])}])
    for _ in range(3):
        cases += _one_changed(rng)
    for i in range(6):
        cases.append(['history', _gen_history(rng, refused_first=(i % 2 == 0), n=4)])
    cases.append(['idf_roundtrip', {'desc': _with(rain=True, snow=False, dst=True), 'loc': FIXED_LOC}])
    cases.append(['idf_roundtrip', {'desc': _with(h_type='Enthalpy', h_value=65000.0, sky=['tau', 0.45, 2.1, True]),
                                    'loc': FIXED_LOC}])
    cases.append(['ddy_file', {'file': 'chicago.ddy'}])
    stats = sorted(f for f in os.listdir(os.path.join(_assets(), 'stat')) if f.lower().endswith('.stat'))
    cases.append(['header_days', {'source': 'stat', 'file': stats[rng.randrange(len(stats))]}])
    return cases


def _order_layer(ctx):
    rng = ctx.rng
    cases = _order_cases(rng)
    n = len(cases)
    base = list(range(n))
    rare_first = [j for j in base if cases[j][0] == 'history'] + [j for j in base if cases[j][0] != 'history']
    shuffled = list(base)
    rng.shuffle(shuffled)
    orders = [rare_first, shuffled, list(reversed(rare_first))]
    if not ctx.quick or ctx.searching:
        o4 = list(base)
        rng.shuffle(o4)
        orders.append(o4)
    runs = _run_orders(cases, orders)
    ctx.count('order_processes', len(orders))
    ctx.count('order_cases', n)
    for k, (order, run) in enumerate(zip(orders, runs)):
        ref = orders[0] if k else orders[1]
        refrun = runs[0] if k else runs[1]
        bad = None
        for j in order:
            r = run[str(j)]['res']
            if (r and not _known_sig(r)) or run[str(j)]['digest'] != refrun[str(j)]['digest']:
                bad = j
                break
        ctx.case(('order', json.dumps(order)), nontrivial=True)
        ctx.count('oracle:order')
        if bad is not None:
            inp = {'cases': cases, 'order': order, 'ref_order': ref}
            res = _check_order(inp)
            if res:
                ctx.fail('order', inp, res['required'], res['observed'], res['sig'])
                return
    # the long-lived main process is one more order: same digests as in the fresh interpreters
    import contextlib
    import io
    with contextlib.redirect_stdout(io.StringIO()):
        for j in base:
            if cases[j][0] in ('approx_days',):
                continue
            if _digest(cases[j][0], cases[j][1]) != runs[0][str(j)]['digest']:
                inp = {'cases': cases, 'order': orders[0], 'ref_order': orders[1]}
                ctx.fail('order_main', {'case': cases[j], 'note': 'digest in the check process differs from the '
                                        'digest of the same case in a fresh interpreter'},
                         'same observables in the check process and in a fresh interpreter', 'digests differ',
                         {'clause': 'order:main_process', 'case_op': cases[j][0]})
                return


def _one_changed(rng):
    """A design day and the same design day with exactly one input changed (pressure lowered / daylight
    saving / date / location / sky parameter), as consecutive cases."""
    d = _rand_desc(rng, sky=rng.choice(['clear', 'tau']))
    d['wbr'] = None
    loc = _rand_loc(rng)
    if abs(loc['lat'] or 0) > 60:
        loc['lat'] = 45.0
    k = rng.choice(['pressure', 'pressure', 'dst', 'date', 'loc', 'sky'])
    d2, loc2 = dict(d), loc
    if k == 'pressure':
        d2['pressure'] = round(float(d['pressure']) * rng.uniform(0.75, 0.99), 1)
    elif k == 'dst':
        d2['dst'] = not d['dst']
    elif k == 'date':
        d2['month'], d2['day'] = _hist_date(rng)
    elif k == 'loc':
        loc2 = dict(loc, lat=-loc['lat'] if loc['lat'] else 33.0)
    elif d['sky'][0] == 'clear':
        d2['sky'] = ['clear', rng.choice([c for c in (0.4, 0.9, 1.1) if c != d['sky'][1]])]
    else:
        d2['sky'] = ['tau', d['sky'][1], d['sky'][2], not d['sky'][3]]
    out = []
    for dd_, ll in ((d, loc), (d2, loc2)):
        out.append(['profile', {'desc': dd_}])
        out.append(['dates', {'desc': dd_, 'loc': ll, 'timesteps': [1, 2]}])
    return out


def _saturating_desc(rng, h_type):
    """A humid day with a large daily range: the dew point at the peak lies above the night dry bulb."""
    db = rng.choice([30.0, 33, 27.5, 38.0])
    rg = rng.choice([14.0, 20, 25.0, 17.5])
    p = rng.choice([101325, 95000.0])
    dew = db - rng.uniform(0.5, min(rg - 1, 8))
    pw = _sat_p(dew)
    hr = 0.621945 * pw / (p - pw)
    if h_type == 'Dewpoint':
        v = dew
    elif h_type == 'HumidityRatio':
        v = hr
    elif h_type == 'Enthalpy':
        v = 1000.0 * (1.006 * db + hr * (2501.0 + 1.86 * db))
    else:
        lo, hi = dew, db
        for _ in range(40):
            mid = (lo + hi) / 2.0
            if _sat_p(mid) - 0.000662 * p * (db - mid) < pw:
                lo = mid
            else:
                hi = mid
        v = (lo + hi) / 2.0
    return _with(db_max=db, db_range=rg, pressure=p, h_type=h_type, h_value=v)


# ---------------------------------------------------------------------------------------------
# round 4: container shapes and one-shot iterables, aliasing of returned containers, construction routes
# (sibling classes / twins), string-built helpers


def _scribble(dd):
    """Edit in place every container the design day hands out (lists of the conditions, values and metadata
    of the hourly collections, radiation lists, dictionaries): nothing of it may be shared with the object
    or with a later answer.  Returns True (the later reads of the history do the checking)."""
    def wreck(v):
        try:
            if isinstance(v, list):
                v.reverse()
                v.append(-999.0)
                del v[0]
            elif isinstance(v, dict):
                for k in list(v):
                    wreck(v[k])
                    v[k] = 'scribbled' if not isinstance(v[k], (list, dict)) else v[k]
            elif hasattr(v, 'header') and hasattr(v, 'values'):         # a data collection
                try:
                    v[0] = -999.0
                    v[len(v) - 1] = 999.0
                except Exception:
                    pass
                try:
                    v.header.metadata['city'] = 'scribbled'
                    v.header.metadata['scribble'] = 1
                except Exception:
                    pass
        except Exception:
            pass

    calls = [lambda: dd.dry_bulb_condition.hourly_values,
             lambda: dd.humidity_condition.hourly_dew_point_values(dd.dry_bulb_condition),
             lambda: dd.humidity_condition.hourly_pressure, lambda: dd.wind_condition.hourly_values,
             lambda: dd.wind_condition.hourly_wind_dirs, lambda: dd.sky_condition.hourly_sky_cover,
             lambda: dd.hourly_dry_bulb, lambda: dd.hourly_dew_point, lambda: dd.hourly_relative_humidity,
             lambda: dd.hourly_barometric_pressure, lambda: dd.hourly_wind_speed, lambda: dd.hourly_wind_direction,
             lambda: dd.hourly_sky_cover, lambda: dd.hourly_horizontal_infrared, lambda: dd.to_dict(),
             lambda: dd.dry_bulb_condition.to_dict(), lambda: dd.humidity_condition.to_dict(),
             lambda: dd.sky_condition.to_dict(), lambda: dd.wind_condition.to_dict()]
    for c in calls:
        try:
            wreck(c())
        except Exception:
            pass
    try:
        rad = dd.sky_condition.radiation_values(dd.location)
        for r in rad:
            wreck(r)
        for c in dd.hourly_solar_radiation:
            wreck(c)
    except Exception:
        pass
    return True


class _OneShot(object):
    """An iterable that can be walked exactly once and has no length (like a generator)."""
    def __init__(self, items):
        self._it = iter(list(items))

    def __iter__(self):
        return self

    def __next__(self):
        return next(self._it)

    next = __next__


SHAPES = ('list', 'tuple', 'generator', 'iter', 'map', 'filter', 'dict_values', 'deque', 'reversed', 'oneshot',
          'zip_gen', 'chain')
ONE_SHOT = ('generator', 'iter', 'map', 'filter', 'reversed', 'oneshot', 'zip_gen', 'chain')


def _shape(name, items):
    """The same items, in the same order, in another kind of container / iterable."""
    import collections
    import itertools
    items = list(items)
    if name == 'list':
        return items
    if name == 'tuple':
        return tuple(items)
    if name == 'generator':
        return (x for x in items)
    if name == 'iter':
        return iter(items)
    if name == 'map':
        return map(lambda x: x, items)
    if name == 'filter':
        return filter(lambda x: True, items)
    if name == 'dict_values':
        # keys in non-sorted (descending) insertion order; the values keep the order of the items
        return {'k%03d' % (len(items) - k): it for k, it in enumerate(items)}.values()
    if name == 'deque':
        return collections.deque(items)
    if name == 'reversed':
        return reversed(items[::-1])
    if name == 'oneshot':
        return _OneShot(items)
    if name == 'zip_gen':
        return (a for a, _ in zip(items, itertools.count()))
    if name == 'chain':
        return itertools.chain(items[:1], items[1:])
    raise ValueError('unknown shape ' + name)


def _check_shapes(inp):
    """A DDY given its design days in any kind of sequence - list, tuple, generator, iter(), map, filter,
    dict view, deque, a one-shot iterable - holds exactly those days, writes the same file as the DDY built
    from the plain list, and the file reads back equal.  Refused inputs (not iterable, an item that is no
    design day) leave the DDY as it was."""
    from ladybug.ddy import DDY
    from ladybug.designday import DesignDay
    loc = _build_loc(inp['loc'])
    descs = inp['days']
    shape, via = inp['shape'], inp['via']
    sig = {'shape': shape, 'via': via, 'one_shot': shape in ONE_SHOT}
    ref_days = [_build(d, _build_loc(inp['loc'])) for d in descs]
    ref = DDY(_build_loc(inp['loc']), list(ref_days))
    objs = [_build(d, loc) for d in descs]
    try:
        if via == 'init':
            y = DDY(loc, _shape(shape, objs))
        elif via == 'setter':
            y = DDY(loc, [_build(_with(name='Placeholder'), loc)])
            y.design_days = _shape(shape, objs)
        elif via == 'setter_twice':
            y = DDY(loc, _shape(shape, [_build(_with(name='First'), loc), _build(_with(name='Second'), loc)]))
            y.design_days = _shape(shape, objs)
        elif via == 'refused':
            y = DDY(loc, _shape(shape, objs))
            for bad, err in ((_shape(shape, objs[:1] + ['not a day']), AssertionError), (5, TypeError),
                             (_shape(shape, [None]), AssertionError)):
                try:
                    y.design_days = bad
                    return {'required': 'design_days = %r is refused' % (bad,), 'observed': 'accepted',
                            'sig': dict(sig, clause='shapes:refusal')}
                except err:
                    pass
        elif via == 'to_file':
            # the text of the file from a DDY whose days came in this shape, asked twice
            y = DDY(loc, _shape(shape, objs))
            if y.to_file_string() != y.to_file_string():
                return {'required': 'to_file_string twice the same', 'observed': 'differs',
                        'sig': dict(sig, clause='shapes:twice')}
        else:
            raise ValueError('unknown via ' + via)
    except (AssertionError, TypeError) as e:
        return {'required': 'a DDY from the %d design days given as %s' % (len(objs), shape),
                'observed': 'raises %s: %s' % (type(e).__name__, e), 'sig': dict(sig, clause='shapes:raises')}
    if len(y) != len(ref_days) or len(y.design_days) != len(ref_days):
        return {'required': 'the DDY holds the %d design days it was given (as %s, via %s)' % (len(ref_days), shape, via),
                'observed': (len(y), len(y.design_days)), 'sig': dict(sig, clause='shapes:count')}
    if list(y.design_days) != ref_days or [d for d in y] != ref_days or [d for d in y] != ref_days:
        return {'required': 'the DDY holds the design days it was given, in order', 'observed':
                [d.name for d in y.design_days], 'sig': dict(sig, clause='shapes:days')}
    if y.to_file_string() != ref.to_file_string() or y != ref or hash(y) != hash(ref):
        return {'required': 'same file text / equal DDY as from the plain list', 'observed': 'differs',
                'sig': dict(sig, clause='shapes:text')}
    if ref_days and (ref_days[0] not in y or y[len(ref_days) - 1] != ref_days[-1]):
        return {'required': 'contains / indexing', 'observed': 'differs', 'sig': dict(sig, clause='shapes:index')}
    kw = ref_days[0].name.split(' ')[0] if ref_days else 'x'
    if y.filter_by_keyword(kw) != [d for d in ref_days if kw in d.name]:
        return {'required': 'filter_by_keyword(%r)' % kw, 'observed': [d.name for d in y.filter_by_keyword(kw)],
                'sig': dict(sig, clause='shapes:filter')}
    dup = y.duplicate()
    if dup != y or list(dup.design_days) != ref_days:
        return {'required': 'duplicate equal', 'observed': 'differs', 'sig': dict(sig, clause='shapes:duplicate')}
    if ref_days and all(_writable(d) and not d.get('leap') for d in descs):
        res = _ddy_rt(y, dict(sig, clause0='shapes'))
        if res:
            return res
        try:
            yd = DDY.from_dict(json.loads(json.dumps(y.to_dict())))
        except Exception as e:
            return {'required': 'DDY.from_dict(to_dict())', 'observed': 'raises %s: %s' % (type(e).__name__, e),
                    'sig': dict(sig, clause='shapes:dict')}
        if yd != ref:
            return {'required': 'DDY.from_dict(to_dict()) equal', 'observed': 'differs', 'sig': dict(sig, clause='shapes:dict')}
    return None


def _obs(dd):
    return [_read(dd, q, dd) for q in ALL_READS[:-1] + [['sdts', 1], ['sdts', 6]]]


def _check_routes(inp):
    """The same design day built through every construction route - constructor, from_design_day_properties
    (sky properties as list and as tuple), to_dict/from_dict (also through JSON and inside a DDY dictionary),
    duplicate, sky condition from an analysis period (built from numbers and from its text form), conditions
    assigned one by one, IDF text - is one design day: equal, same hash, every observable the same; and the
    statement's clauses hold on it."""
    from ladybug.designday import (DesignDay, DryBulbCondition, HumidityCondition, WindCondition, ASHRAEClearSky,
                                   ASHRAETau)
    from ladybug.analysisperiod import AnalysisPeriod
    from ladybug.dt import Date
    from ladybug.ddy import DDY
    import copy
    desc = inp['desc']
    loc = _build_loc(inp['loc'])
    base = _build(desc, loc)
    m, d, leap = desc['month'], desc['day'], bool(desc.get('leap'))
    s = desc['sky']
    sig = {'sky': _sky_sig(desc), 'h_type': desc['h_type'], 'leap': leap}
    routes = [('duplicate', lambda: base.duplicate()), ('copy', lambda: copy.copy(base)),
              ('dict', lambda: DesignDay.from_dict(base.to_dict())),
              ('json', lambda: DesignDay.from_dict(json.loads(json.dumps(base.to_dict())))),
              ('ddy_dict', lambda: DDY.from_dict(json.loads(json.dumps(DDY(loc, (base,)).to_dict()))).design_days[0]),
              ('from_design_day', lambda: DDY.from_design_day(base)[0])]

    def assign():
        o = _build(_with(name=desc['name'], day_type=desc['day_type'],
                         sky=['tau', 0.3, 2.0, True] if s[0] == 'clear' else ['clear', 0.5]), _build_loc(ALT_LOCS[1]))
        o.location = loc
        o.dry_bulb_condition = base.dry_bulb_condition.duplicate()
        o.humidity_condition = base.humidity_condition.duplicate()
        o.wind_condition = base.wind_condition.duplicate()
        o.sky_condition = base.sky_condition.duplicate()
        return o
    routes.append(('assign', assign))
    plain = desc['mod_type'] == 'DefaultMultipliers' and desc['mod_sched'] == '' and not desc['rain'] and \
        not desc['snow'] and desc['sched'] == '' and desc['wbr'] is None and not desc['dst'] and s[0] != 'base'
    if plain:
        model = 'ASHRAEClearSky' if s[0] == 'clear' else ('ASHRAETau2017' if s[3] else 'ASHRAETau')
        for nm, seq in (('props_list', list), ('props_tuple', tuple)):
            routes.append((nm, lambda seq=seq: DesignDay.from_design_day_properties(
                desc['name'], desc['day_type'], loc, Date(m, d, leap), desc['db_max'], desc['db_range'],
                desc['h_type'], desc['h_value'], desc['pressure'], desc['ws'], desc['wd'], model,
                seq(s[1:2] if s[0] == 'clear' else s[1:3]))))
    if s[0] != 'base':
        def with_sky(ap):
            sky = ASHRAEClearSky.from_analysis_period(ap, s[1], desc['dst']) if s[0] == 'clear' else \
                ASHRAETau.from_analysis_period(ap, s[1], s[2], s[3], desc['dst'])
            o = base.duplicate()
            o.sky_condition = sky
            return o
        routes.append(('analysis_period', lambda: with_sky(AnalysisPeriod(m, d, 0, m, d, 23, 1, leap))))
        routes.append(('analysis_period_text', lambda: with_sky(AnalysisPeriod.from_string(
            '%d/%d to %d/%d between 0 and 23 @1%s' % (m, d, m, d, '*' if leap else '')))))
        routes.append(('analysis_period_strings', lambda: with_sky(AnalysisPeriod(
            str(m), '%02d' % d, '0', '%02d' % m, str(d), '23', 1, leap))))
    if _writable(desc) and not leap:
        routes.append(('idf', lambda: DesignDay.from_idf(base.to_idf(), loc)))
    want = _obs(base)
    for nm, fn in routes:
        rs = dict(sig, route=nm)
        try:
            o = fn()
        except Exception as e:
            return {'required': 'the design day through route %s' % nm, 'observed': 'raises %s: %s' % (type(e).__name__, e),
                    'sig': dict(rs, clause='routes:raises', raises=type(e).__name__)}
        if not (o == base and base == o and hash(o) == hash(base) and not (o != base)):
            a, b = _canon('ok ' + _show_dd(base)).split(' '), _canon('ok ' + _show_dd(o)).split(' ')
            return {'required': 'route %s gives an equal design day' % nm,
                    'observed': 'unequal; canonical tokens differing: %s' % [i for i, (x, y) in enumerate(zip(a, b)) if x != y],
                    'sig': dict(rs, clause='routes:equal')}
        got = _obs(o)
        if nm == 'idf':
            # numbers given as int come back as float (20 -> 20.0): an equal design day whose text differs
            k = ALL_READS.index('idf')
            got = got[:k] + [want[k]] + got[k + 1:]
        if got != want:
            return {'required': 'route %s: every observable as from the constructor' % nm,
                    'observed': 'differs at %s' % _first_diff(got, want), 'sig': dict(rs, clause='routes:observables')}
    # answers already handed out stay what they were when a SECOND design day (other numbers, other date,
    # other sky class) is built and asked in the same process, and vice versa
    held = _held_answers(base)
    snap = [_plain(h) for h in held]
    other_desc = _with(db_max=float(desc['db_max']) - 3.25, db_range=float(desc['db_range']) + 1.5,
                       h_type='Dewpoint', h_value=float(desc['db_max']) - 20.0, pressure=float(desc['pressure']) - 777.0,
                       ws=float(desc['ws']) + 1.25, wd=(float(desc['wd']) + 33.0) % 360, month=(m % 12) + 1, day=min(d, 28),
                       dst=not desc['dst'], sky=['tau', 0.33, 2.22, True] if s[0] == 'clear' else ['clear', 0.77])
    other = _build(other_desc, _build_loc(ALT_LOCS[0]))
    held2 = _held_answers(other)
    snap2 = [_plain(h) for h in held2]
    again = [_plain(h) for h in _held_answers(base)]
    for k, (h, sn) in enumerate(zip(held, snap)):
        if _plain(h) != sn or again[k] != sn:
            return {'required': 'answer %d of the first design day is unchanged after a second design day was built '
                                'and asked' % k, 'observed': 'differs at %s' % _first_diff(_plain(h), sn),
                    'sig': dict(sig, clause='routes:aliasing', answer=k)}
    for k, (h, sn) in enumerate(zip(held2, snap2)):
        if _plain(h) != sn:
            return {'required': 'answer %d of the second design day is unchanged after the first one was asked again' % k,
                    'observed': 'differs at %s' % _first_diff(_plain(h), sn),
                    'sig': dict(sig, clause='routes:aliasing', answer=k)}
    res = _profile_clauses(base, desc) if inp.get('consistent', True) else None
    if res is None and not (desc['dst'] and (m, d) == (1, 1)):
        res = _dates_clauses(base, desc, loc, [1])
    if res:
        res['sig'] = dict(res['sig'], clause='routes:' + str(res['sig'].get('clause')))
    return res


def _held_answers(dd):
    """The containers a design day hands out (kept by the caller, not copied)."""
    out = [dd.dry_bulb_condition.hourly_values, dd.humidity_condition.hourly_dew_point_values(dd.dry_bulb_condition),
           dd.humidity_condition.hourly_pressure, dd.wind_condition.hourly_values, dd.wind_condition.hourly_wind_dirs,
           dd.sky_condition.hourly_sky_cover, dd.hourly_dry_bulb, dd.hourly_dew_point, dd.hourly_relative_humidity,
           dd.hourly_barometric_pressure, dd.hourly_wind_speed, dd.hourly_wind_direction, dd.hourly_sky_cover,
           dd.hourly_horizontal_infrared, dd.hourly_datetimes, dd.sky_condition._get_datetimes(2), dd.to_dict()]
    try:
        out += list(dd.sky_condition.radiation_values(dd.location)) + list(dd.hourly_solar_radiation)
    except AttributeError:
        pass
    return out


def _plain(v):
    """A deep plain copy of an answer (floats by repr)."""
    if hasattr(v, 'header') and hasattr(v, 'values'):
        return ['collection', [repr(x) for x in v.values], [(t.month, t.day, t.hour, t.minute, bool(t.leap_year)) for t in v.datetimes],
                sorted((str(k), str(x)) for k, x in v.header.metadata.items()), str(v.header.unit)]
    if isinstance(v, dict):
        return ['dict', sorted((str(k), _plain(x)) for k, x in v.items())]
    if isinstance(v, (list, tuple)):
        return ['seq', [_plain(x) for x in v]]
    if hasattr(v, 'moy'):
        return ['dt', v.moy, bool(v.leap_year)]
    return repr(v)


def _check_ashrae_shapes(inp):
    """from_ashrae_dict_heating / cooling: the header values as a dictionary in any insertion order, as an
    OrderedDict, with surplus keys, numbers in any text spelling (blanks, leading zero, exponent) or as
    numbers; tau as list or tuple.  The design day carries the stated values whatever the shape."""
    import collections
    from ladybug.designday import DesignDay, ASHRAETau, ASHRAEClearSky
    from ladybug.location import Location
    vals = inp['values']            # key -> number
    kind, use2, tau = inp['kind'], inp['use_second'], inp.get('tau')
    loc = Location(inp.get('city', 'Shape City'))
    sig = {'kind': kind, 'spelling': inp['spelling'], 'container': inp['container']}

    def spell(k, v):
        sp = inp['spelling']
        if k == 'Month':
            return {'plain': str(int(v)), 'blank': ' %d ' % v, 'zero': '%02d' % v, 'number': int(v),
                    'exp': str(int(v))}[sp]
        return {'plain': str(v), 'blank': '  %s ' % v, 'zero': ('0%s' % v) if v >= 0 else str(v), 'number': v,
                'exp': '%.6E' % v}[sp]
    items = [(k, spell(k, v)) for k, v in vals.items()]
    c = inp['container']
    if c == 'reversed':
        data = dict(reversed(items))
    elif c == 'ordered':
        data = collections.OrderedDict(sorted(items))
    elif c == 'surplus':
        data = dict([('ZZ_extra', 'x')] + items + [('Extra', '1')])
    else:
        data = dict(items)
    try:
        if kind == 'heating':
            dd = DesignDay.from_ashrae_dict_heating(data, loc, use2, inp.get('pressure'))
            want = (vals['DB990' if use2 else 'DB996'], 0, vals['DB990' if use2 else 'DB996'], vals['WS_DB996'],
                    vals['WD_DB996'])
        else:
            t = None if tau is None else (tuple(tau) if inp.get('tau_shape') == 'tuple' else list(tau))
            dd = DesignDay.from_ashrae_dict_cooling(data, loc, use2, inp.get('pressure'), t)
            want = (vals['DB010' if use2 else 'DB004'], vals['DBR'], vals['WB_DB010' if use2 else 'WB_DB004'],
                    vals['WS_DB004'], vals['WD_DB004'])
    except Exception as e:
        return {'required': 'a design day from the stated values', 'observed': 'raises %s: %s' % (type(e).__name__, e),
                'sig': dict(sig, clause='ashrae_shapes:raises')}
    got = (dd.dry_bulb_condition.dry_bulb_max, dd.dry_bulb_condition.dry_bulb_range, dd.humidity_condition.humidity_value,
           dd.wind_condition.wind_speed, dd.wind_condition.wind_direction)
    if got != want or (dd.sky_condition.date.month, dd.sky_condition.date.day) != (int(vals['Month']), 21) or \
            dd.humidity_condition.barometric_pressure != (101325 if inp.get('pressure') is None else inp['pressure']):
        return {'required': (want, int(vals['Month']), 21), 'observed': (got, str(dd.sky_condition.date),
                dd.humidity_condition.barometric_pressure), 'sig': dict(sig, clause='ashrae_shapes:values')}
    sc = dd.sky_condition
    if kind == 'cooling' and tau is not None:
        ok = type(sc) is ASHRAETau and (sc.tau_b, sc.tau_d) == (tau[0], tau[1])
    else:
        ok = type(sc) is ASHRAEClearSky and sc.clearness == (0 if kind == 'heating' else 1)
    if not ok:
        return {'required': 'sky of the stated kind', 'observed': str(sc), 'sig': dict(sig, clause='ashrae_shapes:sky')}
    return None


def _gen_idf_text(rng, no_sky=False):
    """An EnergyPlus-style design-day object written by the harness (numbers in any legal spelling, any
    layout) together with the values it states, read off the spelled fields with float() / int() here."""
    d = _rand_desc(rng, sky=rng.choice(['clear', 'tau']))
    d['wbr'] = None
    vals = _good_idf_text(rng, d)
    vals = [_respell(rng, i, v) if rng.random() < 0.6 else v for i, v in enumerate(vals)]
    if rng.random() < 0.3:
        vals = [('YES' if v == 'Yes' else 'no' if v == 'No' else v) for v in vals]
    if no_sky:
        vals = vals[:20]
    style = 'unterminated' if no_sky else rng.choice(['lines', 'compact', 'nocomment', 'crlf', 'tabs', 'unterminated'])
    text = _render(rng, vals, style, plain=True)
    num = lambda v: float(str(v).strip())
    stated = dict(d, month=int(str(vals[1]).strip()), day=int(str(vals[2]).strip()), db_max=num(vals[4]),
                  db_range=num(vals[5]), pressure=num(vals[14]), ws=num(vals[15]), wd=num(vals[16]))
    hv = {'Wetbulb': 9, 'Dewpoint': 9, 'HumidityRatio': 11, 'Enthalpy': 12}[d['h_type']]
    stated['h_value'] = num(vals[hv])
    if no_sky:
        stated['sky'] = ['clear', 0]
    elif d['sky'][0] == 'clear':
        stated['sky'] = ['clear', num(vals[25])]
    else:
        stated['sky'] = ['tau', num(vals[23]), num(vals[24]), d['sky'][3]]
    return {'text': text, 'stated': stated, 'style': style, 'no_sky': no_sky}


def _check_idf_text(inp):
    """An IDF design-day object in EnergyPlus syntax parses to a design day that carries the values the text
    states (every field; flags in any case; numbers in any spelling float() / int() accept; an object without
    the optional solar fields is an ASHRAE clear sky of clearness 0 that keeps the daylight-saving flag)."""
    from ladybug.designday import DesignDay
    from ladybug.location import Location
    loc = Location()
    sig = {'style': inp['style'], 'no_sky': bool(inp.get('no_sky'))}
    try:
        got = DesignDay.from_idf(inp['text'], loc)
    except Exception as e:
        return {'required': 'from_idf parses the object', 'observed': 'raises %s: %s' % (type(e).__name__, e),
                'sig': dict(sig, clause='idf_text:raises', raises=type(e).__name__)}
    want = _build(inp['stated'], loc)
    if got != want or type(got.sky_condition) is not type(want.sky_condition):
        a, b = _canon('ok ' + _show_dd(want)).split(' '), _canon('ok ' + _show_dd(got)).split(' ')
        diff = [i for i, (x, y) in enumerate(zip(a, b)) if x != y]
        return {'required': 'the design day the text states: %s' % ' '.join(a[1:]), 'observed':
                'differs at canonical tokens %s: %s' % (diff, ' '.join(b[1:])),
                'sig': dict(sig, clause='idf_text:values', differs=','.join(str(i) for i in diff))}
    return None


_STAT_MONTHLY = (('0.4', 'Drybulb 0.4%', 'Coincident Wetbulb 0.4%', 'monthly_cooling_design_days_004', 0.4),
                 ('2', 'Drybulb 2.0%', 'Coincident Wetbulb 2.0%', 'monthly_cooling_design_days_020', 2),
                 ('5', 'Drybulb 5.0%', 'Coincident Wetbulb 5.0%', 'monthly_cooling_design_days_050', 5),
                 ('10', 'Drybulb 10.%', 'Coincident Wetbulb 10.%', 'monthly_cooling_design_days_100', 10))


def _stat_row(lines, label):
    """The 12 monthly numbers of the first table row of a STAT file with this label (stdlib only)."""
    for ln in lines:
        st = [t.strip() for t in ln.split('\t')]
        if len(st) > 13 and st[1] == label:
            try:
                return [float(v) for v in st[2:14]]
            except ValueError:
                continue
    return None


def _check_stat_monthly(inp):
    """The sibling families of a STAT file: the four lists of monthly cooling design days (0.4 / 2 / 5 / 10 %)
    carry the dry bulb and coincident wet bulb of THEIR row of the monthly table, and share the daily range of
    the 5 % row, the date (21st of the month), the standard pressure, the wind and the sky (the month's
    taub / taud where stated); to_ddy / to_ddy_monthly_cooling write files that read back as those days."""
    from ladybug.stat import STAT
    from ladybug.ddy import DDY
    from ladybug.designday import ASHRAETau, ASHRAEClearSky
    fn = inp['file']
    sig = {'file': fn}
    path = os.path.join(_assets(), 'stat', fn)
    with open(path, encoding='utf-8', errors='ignore') as f:
        lines = f.read().splitlines()
    st = STAT(path)
    _, _, press, tb, td = _raw_header('stat', fn)
    rng_row = _stat_row(lines, 'Drybulb range - DB 5%')
    fams = {}
    for tag, dbl, wbl, attr, pct in _STAT_MONTHLY:
        s = dict(sig, family=tag)
        db, wb = _stat_row(lines, dbl), _stat_row(lines, wbl)
        days = getattr(st, attr)
        if db is None or wb is None or rng_row is None:
            if list(days) != []:
                return {'required': 'no %s without the rows of the monthly table' % attr, 'observed': len(days),
                        'sig': dict(s, clause='stat_monthly:absent')}
            continue
        if len(days) != 12:
            return {'required': '12 monthly days', 'observed': len(days), 'sig': dict(s, clause='stat_monthly:count')}
        fams[tag] = days
        for i, dd in enumerate(days):
            h, sc = dd.humidity_condition, dd.sky_condition
            got = (dd.dry_bulb_condition.dry_bulb_max, h.humidity_type, h.humidity_value,
                   dd.dry_bulb_condition.dry_bulb_range, sc.date.month, sc.date.day, dd.day_type,
                   h.barometric_pressure)
            want = (db[i], 'Wetbulb', wb[i], rng_row[i], i + 1, 21, 'SummerDesignDay',
                    101325 if press is None else press)
            if got != want:
                return {'required': '%s month %d = %r (rows %r / %r of the file)' % (attr, i + 1, want, dbl, wbl),
                        'observed': got, 'sig': dict(s, clause='stat_monthly:values', month=i + 1)}
            if tb and td and len(tb) > i and tb[i] is not None and td[i] is not None:
                ok = type(sc) is ASHRAETau and (sc.tau_b, sc.tau_d, sc.use_2017) == (tb[i], td[i], False)
            else:
                ok = type(sc) is ASHRAEClearSky and sc.clearness == 1
            if not ok or dd.location != st.location:
                return {'required': 'sky of month %d from taub / taud of the file, location of the file' % (i + 1),
                        'observed': str(sc), 'sig': dict(s, clause='stat_monthly:sky', month=i + 1)}
    ref = fams.get('5')
    for tag, days in fams.items():
        for i, (a, b) in enumerate(zip(days, ref or [])):
            if a.wind_condition != b.wind_condition or a.sky_condition != b.sky_condition:
                return {'required': 'the same wind and sky in every percentile family (month %d)' % (i + 1),
                        'observed': (str(a.wind_condition), str(b.wind_condition)),
                        'sig': dict(sig, family=tag, clause='stat_monthly:siblings')}
    tmp = tempfile.mkdtemp(prefix='c16_')
    try:
        for pct, ha, ca in ((0.4, 'annual_heating_design_day_996', 'annual_cooling_design_day_004'),
                            (1, 'annual_heating_design_day_990', 'annual_cooling_design_day_010')):
            want = [getattr(st, ha), getattr(st, ca)]
            p = os.path.join(tmp, 'a%s.ddy' % pct)
            try:
                st.to_ddy(p, pct)
            except ValueError:
                if None in want:
                    continue
                return {'required': 'to_ddy(%s)' % pct, 'observed': 'ValueError', 'sig': dict(sig, clause='stat_monthly:to_ddy')}
            back = DDY.from_ddy_file(p)
            if None in want or [_canon('ok ' + _show_dd(d)) for d in back.design_days] != \
                    [_canon('ok ' + _show_dd(d)) for d in want]:
                return {'required': 'to_ddy(%s) reads back as the two annual days' % pct,
                        'observed': [d.name for d in back.design_days], 'sig': dict(sig, clause='stat_monthly:to_ddy')}
            for tag, days in fams.items():
                mp = [f[4] for f in _STAT_MONTHLY if f[0] == tag][0]
                p2 = os.path.join(tmp, 'm%s_%s.ddy' % (pct, tag))
                st.to_ddy_monthly_cooling(p2, pct, mp)
                back = DDY.from_ddy_file(p2)
                w = [want[0]] + list(days)
                if [_canon('ok ' + _show_dd(d)).split(' ')[2:] for d in back.design_days] != \
                        [_canon('ok ' + _show_dd(d)).split(' ')[2:] for d in w] or \
                        not all(b.name.startswith(d.name) for b, d in zip(back.design_days, w)):
                    return {'required': 'to_ddy_monthly_cooling(%s, %s) reads back as heating day + 12 monthly days'
                                        % (pct, mp), 'observed': [d.name for d in back.design_days][:3],
                            'sig': dict(sig, family=tag, clause='stat_monthly:to_ddy_monthly')}
        try:
            st.to_ddy(os.path.join(tmp, 'x.ddy'), 2)
            return {'required': 'to_ddy(2) is refused (no such days in a STAT file)', 'observed': 'accepted',
                    'sig': dict(sig, clause='stat_monthly:refusal')}
        except ValueError:
            pass
    finally:
        shutil.rmtree(tmp, ignore_errors=True)
    return None


FIXED_DESC = {'name': 'Fixed Day', 'day_type': 'SummerDesignDay', 'db_max': 33.3, 'db_range': 10.5,
              'mod_type': 'DefaultMultipliers', 'mod_sched': '', 'h_type': 'Wetbulb', 'h_value': 23.6,
              'pressure': 99063, 'rain': False, 'snow': False, 'sched': '', 'wbr': None, 'ws': 5.2, 'wd': 230,
              'month': 7, 'day': 21, 'dst': False, 'sky': ['clear', 1.0]}
FIXED_LOC = {'city': 'Chicago Ohare Intl Ap', 'lat': 41.98, 'lon': -87.92, 'tz': -6.0, 'elev': 201.0}


def _with(**kw):
    d = dict(FIXED_DESC)
    d.update(kw)
    return d


def _oracle_cases(ctx):
    rng = ctx.rng
    big = ctx.searching or not ctx.quick
    # fixed corpus (includes the example inputs of the known findings)
    yield 'dates', {'desc': _with(), 'loc': FIXED_LOC, 'timesteps': [1, 4]}
    yield 'dates', {'desc': _with(month=12, day=31), 'loc': FIXED_LOC, 'timesteps': [1, 2]}
    yield 'dates', {'desc': _with(month=1, day=1, dst=True, sky=['tau', 0.45, 2.1, True]), 'loc': FIXED_LOC,
                    'timesteps': [1, 3]}
    yield 'idf_roundtrip', {'desc': _with(sky=['base', 'BeamSch', 'DiffSch'])}
    yield 'idf_roundtrip', {'desc': _with(wbr=5.0)}
    for ht in HUM_TYPES:
        for sky in (['clear', 0.9], ['tau', 0.45, 2.1, False], ['tau', 0.45, 2.1, True]):
            for flags in ((False, False, False), (True, False, True), (False, True, False), (True, True, True)):
                hv = _humidity_value(rng, ht, 33.3, 99063.0)
                yield 'idf_roundtrip', {'desc': _with(h_type=ht, h_value=hv, sky=sky, rain=flags[0], snow=flags[1],
                                                      dst=flags[2]), 'loc': FIXED_LOC}
    yield 'profile', {'desc': _with()}
    yield 'profile', {'desc': _with(db_range=0)}
    for fn in sorted(os.listdir(os.path.join(_assets(), 'ddy'))):
        if fn.lower().endswith('.ddy'):
            yield 'ddy_file', {'file': fn}
    for fn in sorted(os.listdir(os.path.join(_assets(), 'epw'))):
        if fn.lower().endswith('.epw'):
            yield 'header_days', {'source': 'epw', 'file': fn}
    for fn in sorted(os.listdir(os.path.join(_assets(), 'stat'))):
        if fn.lower().endswith('.stat'):
            yield 'header_days', {'source': 'stat', 'file': fn}
    for fn in sorted(os.listdir(os.path.join(_assets(), 'stat'))):
        if fn.lower().endswith('.stat'):
            yield 'stat_monthly', {'file': fn}
    epws = sorted(f for f in os.listdir(os.path.join(_assets(), 'epw')) if f.lower().endswith('.epw'))
    pcts = (0.4, 1, 2, 5) if big else (rng.choice([0.4, 1]), rng.choice([2, 5]))
    for fn in (epws if big else [epws[ctx.seed % len(epws)], epws[(ctx.seed + 2) % len(epws)]]):
        for p in pcts:
            yield 'approx_days', {'file': fn, 'percentile': p, 'monthly': 5 if p in (0.4, 2) else None}
    # round 4: EPW variants written by the harness (leap year with 29 Feb, missing pressure, no design
    # conditions in the header): days from the hourly data, header days, histories
    variants = ['gen:leap:chicago.epw', 'gen:leapnohdr:tokyo.epw', 'gen:nopress:tokyo.epw', 'gen:nohdr:chicago.epw',
                'gen:leap:long_beach_2021.epw', 'gen:leap:tokyo.epw']
    vsel = variants if big else [variants[0], variants[1 + ctx.seed % (len(variants) - 1)]]
    for fn in vsel:
        yield 'header_days', {'source': 'epw', 'file': fn}
        for p in ((0.4, 1, 2.5, 5) if big else (rng.choice([0.4, 1]),)):
            yield 'approx_days', {'file': fn, 'percentile': p, 'monthly': rng.choice([5, 10, 2, 0.4])}
    yield 'epw_history', {'file': vsel[0], 'ops': [['approx', 1.0, 5.0], ['to_ddy_monthly', 0.4, 5], ['to_ddy', 2],
                                                   ['header'], ['to_ddy_monthly', 1, 10]]}
    yield 'epw_history', {'file': vsel[-1], 'ops': [['to_ddy', 0.4], ['header'], ['approx', 5, 2], ['to_ddy_monthly', 2, 2]]}
    # round 4: the design days of a DDY handed over in every kind of sequence (one-shot iterables included)
    for i, shape in enumerate(SHAPES):
        for via in (('init', 'setter', 'setter_twice', 'refused', 'to_file') if big else
                    ('init', ('setter', 'setter_twice', 'refused', 'to_file')[(i + ctx.seed) % 4])):
            n = rng.choice([1, 2, 3, 4])
            days = []
            for _ in range(n):
                d = _rand_desc(rng, sky=rng.choice(['clear', 'tau']))
                d['wbr'] = None
                days.append(d)
            yield 'shapes', {'loc': _rand_loc(rng), 'days': days, 'shape': shape, 'via': via}
    yield 'shapes', {'loc': FIXED_LOC, 'days': [], 'shape': 'generator', 'via': 'init'}
    # round 4: every construction route gives the same design day (leap dates, sibling sky classes, twins)
    for k in range(40 if not big else 400):
        sky = ('clear', 'tau', 'tau', 'base')[k % 4]
        d = _rand_desc(rng, sky=sky)
        if k % 3 == 0:
            d['leap'] = True
            d['month'], d['day'] = rng.choice([(2, 29), (3, 1), (12, 31), (1, 1), (2, 28), (8, 21)])
        if k % 5 == 0:
            d.update(mod_type='DefaultMultipliers', mod_sched='', rain=False, snow=False, sched='', wbr=None, dst=False)
        loc = rng.choice([FIXED_LOC] + ALT_LOCS) if k % 2 else _rand_loc(rng)
        if d['dst'] and (d['month'], d['day']) == (1, 1):
            d['dst'] = False
        yield 'routes', {'desc': d, 'loc': loc}
    # round 4: leap-year dates x every sky class x daylight saving (hourly series, sun date-times, radiation)
    for (m, day) in ((2, 29), (3, 1), (12, 31), (2, 28), (1, 1), (7, 21)):
        for sky in (['clear', 1], ['tau', 0.436, 2.106, False], ['tau', 0.45, 2.1, True], ['base', '', '']):
            for dst in (False, True):
                if dst and (m, day) == (1, 1):
                    continue
                yield 'dates', {'desc': _with(month=m, day=day, leap=True, dst=dst, sky=sky),
                                'loc': rng.choice([FIXED_LOC] + ALT_LOCS[:2]),
                                'timesteps': [1, rng.choice(TIMESTEPS)]}
    # round 4: header dictionaries in every container / spelling
    hv = {'Month': 1, 'DB996': -20.0, 'DB990': -16.6, 'WS_DB996': 4.9, 'WD_DB996': 270}
    cv = {'Month': 7, 'DBR': 10.5, 'DB004': 33.3, 'WB_DB004': 23.7, 'DB010': 31.6, 'WB_DB010': 23.0,
          'WS_DB004': 5.2, 'WD_DB004': 230}
    for sp in ('plain', 'blank', 'zero', 'number', 'exp'):
        for cont in ('dict', 'reversed', 'ordered', 'surplus'):
            if not big and rng.random() < 0.5:
                continue
            hv2 = dict(hv, Month=rng.randrange(1, 13), DB996=round(rng.uniform(-30, 10), 1))
            cv2 = dict(cv, Month=rng.randrange(1, 13), DBR=round(rng.uniform(0, 20), 1))
            yield 'ashrae_shapes', {'kind': 'heating', 'values': hv2, 'use_second': rng.random() < 0.5,
                                    'spelling': sp, 'container': cont, 'pressure': rng.choice([None, 98000.0])}
            yield 'ashrae_shapes', {'kind': 'cooling', 'values': cv2, 'use_second': rng.random() < 0.5,
                                    'spelling': sp, 'container': cont, 'pressure': rng.choice([None, 99063]),
                                    'tau': rng.choice([None, [0.45, 2.1]]), 'tau_shape': rng.choice(['list', 'tuple'])}
    # round 4: EnergyPlus-style texts written by the harness state their values (spellings, layouts, no solar fields)
    for k in range(120 if not big else 1500):
        yield 'idf_text', _gen_idf_text(rng, no_sky=(k % 6 == 0))
    # rare classes as strata of their own
    for ht in HUM_TYPES:
        for _ in range(3 if not big else 30):
            yield 'profile', {'desc': _saturating_desc(rng, ht)}
    for m in range(1, 13):                      # first / last day of every month x daylight saving x sky model
        for day in (1, MONTH_LEN[m - 1]):
            for sky in (['clear', rng.choice([1, 0.9, 1.2, 0.35])], ['tau', 0.45, 2.1, rng.random() < 0.5]):
                loc = rng.choice([FIXED_LOC] + ALT_LOCS)
                if (m, day) == (1, 1) and abs(loc['lat']) > 60:
                    loc = FIXED_LOC
                yield 'dates', {'desc': _with(month=m, day=day, dst=True, sky=sky), 'loc': loc,
                                'timesteps': [1, rng.choice([2, 4, rng.choice(TIMESTEPS)])]}
    for z in (dict(ws=0, wd=0), dict(ws=0.0, wd=360), dict(db_range=0.0, db_max=0), dict(sky=['clear', 0]),
              dict(sky=['clear', 1.2]), dict(sky=['tau', 0, 0, False]), dict(h_type='Dewpoint', h_value=0),
              dict(h_type='HumidityRatio', h_value=0.0005, db_max=0.0)):
        yield 'profile', {'desc': _with(**z)}
        yield 'idf_roundtrip', {'desc': _with(**z), 'loc': FIXED_LOC}
        yield 'dates', {'desc': _with(**z), 'loc': ALT_LOCS[0], 'timesteps': [1, 60]}
    # the same design day with ONE input changed, one after the other (a memo keyed on too few inputs)
    for _ in range(12 if not big else 120):
        for op, inp in _one_changed(rng):
            yield op, inp
    # histories on one object
    for i in range(120 if not big else 1500):
        yield 'history', _gen_history(rng, refused_first=(i % 4 == 0))
    for _ in range(25 if not big else 300):
        yield 'ddy_history', _gen_ddy_history(rng)
    # round 6: days whose location differs from the DDY's in ONE attribute / in metadata only / in nothing,
    # through every route into a DDY (fixed part: each attribute x the three setters; then a generated stream)
    for j, attr in enumerate(LOC_ATTRS):
        for route in (('ctor', 'setter', 'loc_setter') if big else
                      (('ctor', 'setter', 'loc_setter')[(j + ctx.seed) % 3],)):
            yield 'ddy_station', _gen_ddy_station(rng, which=[attr], route=route)
    yield 'ddy_station', _gen_ddy_station(rng, which=['state', 'country', 'station_id', 'source'], route='ctor')
    yield 'ddy_station', _gen_ddy_station(rng, which=[], route='loc_setter')
    # recorded finding: DDY.__setitem__ keeps the location the new day came with
    yield 'ddy_station', {'loc': FIXED_LOC, 'var': {'state': 'IL', 'country': 'USA', 'station_id': '725300', 'source': 'TMY3'},
                          'route': 'setitem', 'days': [_with()]}
    yield 'ddy_station', _gen_ddy_station(rng, which=[], route='setitem')
    for _ in range(40 if not big else 600):
        yield 'ddy_station', _gen_ddy_station(rng)
    for k, fn in enumerate(epws if big else [epws[(ctx.seed + 3) % len(epws)]]):
        yield 'ddy_station', {'epw': fn, 'route': ('ctor', 'setter', 'loc_setter')[(k + ctx.seed) % 3],
                              'percentile': (0.4, 1)[k % 2]}
    ehist = epws if big else [epws[(ctx.seed + 1) % len(epws)]]
    for fn in ehist:
        yield 'epw_history', _gen_epw_history(rng, fn)
    # recorded findings: an EPW converted to IP units hands out design days with F / mph / inHg numbers
    yield 'epw_history', {'file': 'chicago.epw', 'ops': [['ip'], ['approx', 0.4, None]]}
    yield 'epw_history', {'file': 'chicago.epw', 'ops': [['ip'], ['header']]}
    yield 'epw_history', {'file': 'chicago.epw', 'ops': [['ip'], ['si'], ['header'], ['approx', 0.4, 5]]}
    # generated stream
    for _ in range(600 if not big else 6000):
        yield 'profile', {'desc': _rand_desc(rng)}
    for _ in range(150 if not big else 1500):
        d = _rand_desc(rng, sky=rng.choice(['clear', 'tau', 'tau', 'base']))
        loc = _rand_loc(rng)
        if d['dst'] and (d['month'], d['day']) == (1, 1) and abs(loc['lat']) > 60:
            loc['lat'] = 45.0
        if rng.random() < 0.2:
            d['leap'] = True
        yield 'dates', {'desc': d, 'loc': loc, 'timesteps': [1, rng.choice(TIMESTEPS)]}
    for _ in range(500 if not big else 6000):
        d = _rand_desc(rng, sky=rng.choice(['clear', 'tau']))
        d['wbr'] = None
        yield 'idf_roundtrip', {'desc': d}
    for _ in range(25 if not big else 250):
        n = rng.choice([1, 1, 2, 3, 6])
        days = []
        for _ in range(n):
            d = _rand_desc(rng, sky=rng.choice(['clear', 'tau']))
            d['wbr'] = None
            days.append(d)
        yield 'ddy_roundtrip', {'loc': _rand_loc(rng), 'days': days}


def _case_branches(op, inp):
    """Branches of the anchored functions an oracle case reaches, read off its input."""
    out = []
    d = inp.get('desc') if isinstance(inp, dict) else None
    if d and op in ('profile', 'dates', 'routes', 'idf_roundtrip'):
        out.append('dew_point:' + d['h_type'])
        out.append('to_idf:sky:' + d['sky'][0])
        if op in ('profile', 'routes'):
            w = _stated_dew_point(d)
            if w is not None:
                out.append('hourly_dew_point:' + ('saturated_hours' if w > d['db_max'] - d['db_range'] else 'never_saturated'))
        if d['sky'][0] == 'clear':
            out.append('sky_cover:' + ('clearness>1' if d['sky'][1] > 1 else 'clearness<=1'))
        if op in ('dates', 'routes'):
            out.append('get_datetimes:' + ('dst' if d['dst'] else 'standard'))
            for ts in inp.get('timesteps', [1]):
                out.append('get_datetimes:' + ('timestep1' if ts == 1 else 'subhourly'))
            if d.get('leap'):
                out.append('date:leap_year:' + d['sky'][0])
    elif op in ('approx_days', 'header_days', 'epw_history') and inp.get('source', 'epw') == 'epw':
        fn = inp['file']
        v = fn.split(':')[1] if fn.startswith('gen:') else 'shipped'
        out.append('epw:' + {'leap': 'leap_year_file', 'nopress': 'missing_pressure', 'nohdr': 'no_design_conditions',
                             'leapnohdr': 'leap_year_file+no_design_conditions'}.get(v, 'shipped'))
        if op == 'approx_days':
            out.append('epw:percentile_name:' + ('int' if int(inp['percentile']) == inp['percentile'] else 'float'))
        if op == 'epw_history':
            for o in inp['ops']:
                if o[0] in ('to_ddy', 'to_ddy_monthly'):
                    out.append('epw:best_available:%s' % ('0.4' if o[1] == 0.4 else '1' if o[1] == 1 else 'other'))
                if o[0] == 'bad':
                    out.append('epw:unknown_day_type')
    elif op == 'shapes':
        out.append('ddy_setter:' + ('list' if inp['shape'] == 'list' else 'other_iterable'))
        if inp['via'] == 'refused':
            out += ['ddy_setter:not_iterable', 'ddy_setter:wrong_item']
    elif op == 'ddy_station':
        if 'epw' in inp:
            out.append('ddy_update:metadata_only:epw')
        else:
            v = sorted(inp['var'])
            out.append('ddy_update:via:' + inp['route'])
            if not v:
                out.append('ddy_update:equal_location' + (':same_object' if inp.get('same_object') else ''))
            elif len(v) == 1:
                out.append('ddy_update:one_attribute:' + v[0])
            elif not set(v) & {'lat', 'lon', 'tz'}:
                out.append('ddy_update:metadata_only')
            elif set(v) <= {'lat', 'lon', 'tz'}:
                out.append('ddy_update:position_only')
            else:
                out.append('ddy_update:several')
    elif op == 'ashrae_shapes':
        out.append('ashrae_%s:%s' % (inp['kind'], 'second_percentile' if inp['use_second'] else 'first_percentile'))
        out.append('ashrae:pressure_' + ('default' if inp.get('pressure') is None else 'given'))
        if inp['kind'] == 'cooling':
            out.append('ashrae_cooling:tau_' + ('none' if inp.get('tau') is None else 'given'))
    elif op == 'header_days' and inp.get('source') == 'stat':
        out.append('stat:header_days')
    return out


_LIGHT_OPS = ('profile', 'dates', 'idf_roundtrip', 'history', 'ddy_roundtrip', 'ddy_history', 'shapes', 'routes',
              'ashrae_shapes', 'idf_text', 'ddy_station')


def _run_stream(ctx, cases):
    """`core.run_oracle_cases`, plus: a case that fails here but holds when it is the first thing a fresh
    interpreter does fails because of what ran before it in this process; it is then reported together with
    the cases before it as a replayable process order (`order` replay)."""
    window = []
    conversions = 0
    known = core.load_known(PROP)
    for op, inp in cases:
        if len(ctx.failures) >= 200:
            break
        try:
            res = check_case(op, inp)
        except Exception as e:
            res = {'required': 'oracle evaluates', 'observed': 'exception %s: %s' % (type(e).__name__, e),
                   'sig': {'exception': type(e).__name__}}
        ctx.count('oracle:' + op)
        ctx.case((op, json.dumps(inp, sort_keys=True, default=str)))
        try:
            for b in _case_branches(op, inp):
                ctx.count('branch:' + b)
        except Exception:
            pass
        if res and op in _LIGHT_OPS and conversions < 3 and \
                not any(core.matches(dict(res.get('sig') or {}, op=op), k) for k in known):
            conversions += 1
            alone = _run_orders([[op, inp]], [[0]])[0]['0']['res']
            if alone is None:
                cs = window[-6:] + [[op, inp]]
                n = len(cs)
                o_inp = {'cases': cs, 'order': list(range(n)), 'ref_order': [n - 1] + list(range(n - 1))}
                r2 = _check_order(o_inp)
                if r2:
                    ctx.count('order_dependent_failures')
                    ctx.fail('order', o_inp, r2['required'], r2['observed'], r2['sig'])
                    continue
        if res and op in ('approx_days', 'header_days') and inp.get('source', 'epw') == 'epw' and conversions < 3 \
                and not any(core.matches(dict(res.get('sig') or {}, op=op), k) for k in known):
            # the shared EPW object has a history: replay it on a new object (self-contained replay)
            conversions += 1
            h_inp = {'file': inp['file'], 'ops': list(_EPW_CALLS.get(inp['file'], []))}
            r2 = check_case('epw_history', h_inp)
            if r2 and len(h_inp['ops']) > 1 and check_case('epw_history', {'file': inp['file'], 'ops': h_inp['ops'][-1:]}) is None:
                ctx.count('order_dependent_failures')
                ctx.fail('epw_history', h_inp, r2['required'], r2['observed'], r2['sig'])
                continue
        if res:
            ctx.fail(op, inp, res.get('required'), res.get('observed'), res.get('sig'))
        elif ctx.evaluations % 997 == 1:
            ctx.sample({'oracle': op, 'input': inp}, limit=12)
        if op in _LIGHT_OPS:
            window.append([op, inp])
            if len(window) > 8:
                window.pop(0)


def oracle(ctx):
    _run_stream(ctx, _oracle_cases(ctx))
    if len(ctx.failures) < 200:
        _order_layer(ctx)


LEVEL_TEXT = ('Machine-checked Lean 4 theorems over an executable model of designday.py / ddy.py / '
              'location.py: the 24 dry-bulb values peak at the stated maximum and bottom out at maximum minus '
              'range for every range >= 0 (needs 0 and 1 among the regenerated multipliers, all in [0,1]); hourly '
              'dew point <= dry bulb; relative humidity > 0 always and <= 100 wherever saturation pressure is '
              'monotone between dew point and dry bulb (C09 gives this on the ice and on the water branch); every '
              'hourly date-time and every date-time the sky condition evaluates (timestep 1 and sub-hourly, with '
              'and without daylight saving) lies on the stated date, for every date of the year incl. 31 Dec '
              '(after the repair (doy - 1) * 1440; the day offset is regenerated from the source and the theorem '
              'breaks on the unrepaired tree); from_idf(to_idf(d)) = d at field level (abstract tokens obeying float(str(x)) == x etc.; value-level theorem C16_idf_roundtrip_value plus the slot-level layout theorem) for 4 humidity types x '
              '{ASHRAEClearSky, ASHRAETau, ASHRAETau2017} x rain/snow/daylight-saving flags with numbers as opaque '
              'tokens, lifted to DDY files as lists; from_ashrae_dict_* carry the header values. For ONE object '
              'under any history of setter / replaced-condition / refused operations and reads (object state '
              'machine): the final object is one the constructors accept and equals the design day built from '
              'scratch from its public state (every observable agrees), a refused operation changes nothing, reads '
              'are pure and their order and number cannot matter, and the IDF round trip holds after any history. '
              'Round 4: the days a DDY holds are the items of the argument for every container kind, one-shot '
              'iterators included (statement order of the setter regenerated from ddy.py; a refused assignment keeps '
              'the old days); both branches of the hourly dew point (saturated hours have relative humidity exactly '
              '100) and of the sky cover; all 24 hourly relative humidities in (0, 100] on frost days and on days '
              'with dew point above freezing; sibling sky classes evaluate the sun at the same date-times; the '
              'date theorems cover dates of the leap year (collection headers carry the year kind of the date). '
              'The IDF field '
              'layout used by the model is regenerated from to_idf/from_idf on every run. Radiation values, '
              'EPW percentile days and the character level of the text are checked on the real code only.')
LEVEL_NOTE = ('Trusted: Lean kernel; axioms propext/Classical.choice/Quot.sound only; the extractor; the '
              'correspondence run; float(str(x)) == x; exact-vs-IEEE arithmetic; C09 model of the psychrometric '
              'functions. Recorded findings: to_idf of a plain _SkyCondition (Schedule model) is not parseable; '
              'from_idf drops wet_bulb_range.')
TECHNIQUE = ('Lean 4 proof (list induction, case split on enums, omega on minutes of the year on top of the C08 '
             'calendar theorems, real-field algebra with C09 lemmas) about a model tied to designday.py by a '
             'regenerated field layout/tables and differential correspondence')
