"""C19 — Collections read from EnergyPlus SQLite results equal the rows in the database.

Model: lean/Ladybug/Model/Sql.lean (pure queries) + Model/SqlObj.lean (object state machine of
SQLiteResult: lazily filled slots, requests as `Op`, `step`); theorems: lean/Ladybug/Props/C19.lean;
driver: drv_c19.
Tie: correspondence (model vs ladybug/sql.py) on synthetic SQLite databases written by this module
with the EnergyPlus schema, on the shipped result files, on the static partition helpers, and on
request HISTORIES on one object (driver op `hist`, executed by `Sql.step`, compared step by step).
Oracle: the property statement evaluated with direct SELECTs per key and run period; histories on
one object (queries, property reads, refused requests, the same question twice), and slices of the
stream re-run in fresh Python subprocesses in other orders (op `process`).

Producers and their consumers in sql.py (every consumer is exercised by correspondence AND oracle):
  _extract_run_period        <- data_collections_by_output_name (ops qall/collections),
                                data_collections_by_output_name_run_period (qrp/run_period), op period
  _extract_all_run_period    <- data_collections_by_output_name with several environments
                                (single-frequency AND mixed-frequency Time tables, families mixedN)
  _data_type_from_unit       <- both collection queries (header data type/unit), and
                                _extract_available_outputs -> available_outputs_info (op read), op dtype
  _partition_timeseries      <- all-periods query with one environment; run-period query, non-J units
  _partition_and_convert_timeseries        <- run-period query of J outputs
  _partition_timeseries_chunks             <- all-periods query with several environments
  _partition_and_convert_timeseries_chunks <- no caller inside sql.py (public static helper): ops partcconv
  _accumulate                <- both chunk partitions, op accum
  dictionary query + frequency filter (three copies) <- values_by_output_name (vals/values), both
                                collection queries; name as str, 1-tuple, list, list object (unchanged after)
  _extract_available_outputs <- available_outputs, available_outputs_info, reporting_frequency (op read)
  _extract_timestep          <- reporting_frequency of 'Zone Timestep' files
  _extract_full_run_period_indices <- run_period_indices (op read)
  lazily filled slots (_reporting_frequency, _available_outputs(_info), _run_period_indices) <- every
                                property read; histories interleave them with queries and refused requests

Round 4 (classes e-j of ROUND4_BRIEF.md):
  (h) numeric edges   - Year 0 (design days): the oracle no longer leaves the leap flag of a Year-0 environment
                        open: it must be a common year, or (all-periods query only) the flag of a year the
                        request's rows name (`leap_flag`); fixed databases: design days only (hourly+daily), design
                        day before a LEAP run period; stored values on a half / negative / 1e-12..1e+16
                        (`valmode`: the model moves ids, the harness maps ids to the stored doubles), J divided
                        exactly (correspondence, bits) and within 1e-12 relative (oracle).
  (f) aliasing        - op `alias`: one request asked twice on one object and once on a second object of the same
                        file, the first answer edited in place (labels, note, values, the list), then: the other
                        collections of that answer, the kept answers and a new answer are unchanged and still the
                        database rows.  One-shot iterables (generator, iter, map) and set / dict / dict-keys as name
                        argument: refused or answered right, never wrong data.
  (i) input shapes    - names as tuple / list / another sequence type / str subclass (strict), run-period index as
                        text / float / padded text (refused or right); name lists reversed against the dictionary
                        order, with duplicates, with the literal 'Surface'; output names and keys with accents,
                        degree sign, apostrophe, comma, brackets, percent, CJK, trailing / double blanks, other
                        case (near-duplicates of another output of the same file).
  (j) rare branches   - BRANCHES (below) lists the branches of the anchored functions; `_branches` predicts them per
                        request and every one is a counted stratum (`branch:*` in evidence).
  (e) override gap    - SQLiteResult has no subclasses; the sibling copies (three dictionary queries, two+two
                        partition helpers, all-periods vs one-period) are each compared with the model and with
                        direct SELECTs, and one-period == slice of all; every collection class the queries build
                        (HourlyContinuous for hourly and sub-hourly, Daily, Monthly, plain values) is a stratum.
  (g) conventions     - callee conventions that can be confused are told apart by the generated inputs: month != day,
                        timestep != minutes per step (multi-environment sub-hourly files), len(period) vs days vs
                        months as chunk sizes, leap vs common year across 29 Feb with several environments, J vs kWh
                        per column; the oracle shares no code with sql.py (direct SELECTs + stdlib calendar).
Round 5 (class: a test on a text field that is WIDER or NARROWER than the statement's, applied at one site only -
here the unit: "joules converted to kWh, everything else untouched" means exactly the database unit `J`):
  sites that decide by the unit: header label of data_collections_by_output_name (per row), of
    data_collections_by_output_name_run_period (first row), of available_outputs_info; the conversion flags
    `to_kwh` (all-periods query, per column) and the `units == 'kWh'` choice between the two partition helpers
    (run-period query); _data_type_from_unit (empty unit, table membership, generic fall-back).
  generator: the unit universe (`pick_unit`): plain J; the units EnergyPlus writes; EVERY unit of the ladybug table
    (TABLE_UNITS, written down by hand; 'kWh' itself stays outside by the stated assumption); the joule / kWh family of
    the table (J/kg, J/kg-K, J/m3-K, kJ, MJ, GJ, Wh, kWh/m2, kWh/kg, ...: caught by a prefix, substring, suffix or
    "is energy" test); units ladybug does not know, with look-alikes of J, kWh, '' and of table units (J/m2, 'J ', ' J',
    j, mJ, kwh, KWH, kWh/m3, ' ', '-', c, w, PA, 'W/', ...: caught by prefix / strip / case-insensitive tests).
    `unit_class` names the classes; each class x method is a counted stratum (branch:unitclass:<method>:<class>,
    oracle:unitclass:<op>:<class>).  Fixed databases 16-18 hold the family next to plain J (hourly with design day,
    daily+monthly in a leap year with stored halves, sub-hourly under the label 'HVAC System Timestep').
  oracle: label == database unit unless it is exactly J; values bit-equal unless exactly J; the data type is the
    table type of the DATABASE unit (`unit_type`), a generic type named after the output for an unknown unit - in
    both queries and in available_outputs_info; one run period == slice of all now also on class, name, unit and
    data type; the frequency label 'HVAC System Timestep' (spec key `tslabel`) for the text tests on the label.
  Lean: C19_relabel_iff, C19_label_untouched, C19_dtype_by_database_unit, C19_converted_iff (an iff: no wider, no
    narrower class), C19_joule_prefix_untouched (every "J" ++ s), C19_joule_family_untouched, C19_unit_sites_agree.
Genuine defect found by op `alias`: known_findings.d/C19.json (C19-metadata-shared-across-run-periods), repair
proposed as fixes/C19_metadata_per_collection.patch (quiet with and without it).
"""
import atexit
import calendar
import json
import os
import re
import shutil
import sqlite3
import tempfile
from datetime import date, timedelta

from harness import core
from harness.core import compare_batch, err_name, run_oracle_cases

PROP = 'C19'
PROOF_MODULES = ['Ladybug.Props.C19']
GREP_MODULES = ['Ladybug.Py', 'Ladybug.Model.Cal', 'Ladybug.Model.Sql', 'Ladybug.Model.SqlObj',
                'Ladybug.Proofs.C19Lemmas', 'Ladybug.Proofs.C19Struct', 'Ladybug.Proofs.C19Time',
                'Ladybug.Proofs.C19Obj', 'Ladybug.Proofs.C19Shapes', 'Ladybug.Drv.C19', 'Ladybug.DrvCore']
RULE = ('synthetic EnergyPlus databases (tables ReportDataDictionary, ReportData, Time, EnvironmentPeriods, '
        'Simulations; schema copied from the shipped files): 1..3 outputs x 1..5 keys x 1..4 environments '
        '(design days with Year 0, run periods, leap years incl. 29 Feb, periods wrapping the year end) x '
        '{zone timestep 1..60 steps/hour, hourly, daily, monthly, run period/annual}, single-frequency and '
        'mixed-frequency Time tables, units J and 14 others, rows written in EnergyPlus order (Time rows in '
        'simulation order, ReportData rows per time index in dictionary-index order), values = distinct '
        'integer ids; queries: every output name as string, 1-tuple, name lists, absent names, every run-period '
        'index; request histories on ONE SQLiteResult (3-8 steps in random order and repetition: the three '
        'queries over names / name lists (tuple and list objects) / run-period indices, reads of '
        'available_outputs, available_outputs_info, reporting_frequency, run_period_indices, and refused '
        'requests - absent run period, argument of the wrong type, a name that breaks the SQL text, summary '
        'tables the file lacks - each followed by further steps; strata: refused-first, read-first, '
        'same-question-twice; oracle op `history`, correspondence ops `hist` (object state machine, step by '
        'step) and `qhist`); process-order independence: slices of the oracle stream re-run in 3-4 fresh '
        'Python subprocesses in other seeded orders (leap first, sub-hourly first, refused/history first, '
        'reversed; op `process`); values = distinct integer ids, a quarter of the databases with an exact '
        '0 among them; plus the shipped files and the static partition helpers on boundary lengths '
        '(n*T, n*T+-1, 0). Round 4: design-day-only files and design days before a leap run period (Year 0: no '
        'leap flag out of nothing); stored values on a half, negative, 1e-12..1e+16; op `alias` (answers kept, '
        'edited in place, asked again, second object of the same file); names as tuple / list / other sequence / '
        'str subclass / generator / iterator / map / set / dict (the undocumented ones: refused or right), run-period '
        'index as text / float; name lists reversed, duplicated, with the literal Surface; unusual but legal text '
        'in names and keys; every branch of the anchored functions is a counted stratum (branch:*). '
        'Round 5: units drawn from the whole unit universe - plain J, every unit of the ladybug table, the joule / '
        'kWh family (J/kg, J/kg-K, J/m3-K, kJ, MJ, Wh, kWh/m2 ...), units ladybug does not know and look-alikes of '
        'J, kWh and the empty unit (prefix, suffix, case, blanks) - each class x method a counted stratum; the '
        'sub-hourly label HVAC System Timestep next to Zone Timestep. '
        'A case is non-trivial when the implementation returns a value; distinct = distinct (op, input).')
TRUSTED_BASE = [
    'modelled, not verified: sqlite3 (WHERE = filter in rowid order, ORDER BY TimeIndex = stable sort, '
    'JOIN Time = primary-key lookup, scan order = rowid order); exercised by every database op',
    'modelled, not verified: DateTime/AnalysisPeriod constructors, len(), doys_int, months_int for the '
    'periods sql.py builds (start hour 0, end hour 23); compared by ops period/qall',
    'ladybug.datatype.UNITS is copied by hand into Model/Sql.lean (unitsTable); op dtype compares every entry',
    'EnergyPlus row order (per time index one row per key in dictionary-index order) is the generator\'s '
    'assumption, taken from the shipped files; SQL itself fixes no order inside one time index',
    'Time.Interval > 60 for interval types <= 1 is outside the model (driver answers `unmodelled`; never generated)',
    'available_outputs(_info) are iterations of a Python set: compared as multisets; reporting_frequency of a file '
    'with several frequency labels follows that iteration order: the model says `ambiguous`, the check then '
    'demands a label of the file (or its steps per hour) and the same answer along a history',
    'run_periods / run_period_names come from the summary-report tables (shipped files only): oracle only, not modelled',
    'requests the code refuses for reasons outside the model (argument of the wrong type, a name that breaks the '
    'formatted SQL text, a missing summary table) are the model\'s `malformed` request: compared only as '
    '"refused", the steps after them are compared in full',
]
ASSUMPTIONS = ['EnergyPlus writes ReportData in time order and, inside one time index, in dictionary-index order',
               'monthly Time rows carry the last day of their month (as in the shipped eplusout_openstudio.sql)',
               'energy is reported in J (an output already in kWh is not generated)',
               'the repairs fixes/C19_*.patch are part of the code under test (the model describes the '
               'repaired behaviour)']

SCHEMA = [
    'CREATE TABLE Simulations (SimulationIndex INTEGER PRIMARY KEY, EnergyPlusVersion TEXT, TimeStamp TEXT, '
    'NumTimestepsPerHour INTEGER, Completed BOOL, CompletedSuccessfully BOOL)',
    'CREATE TABLE EnvironmentPeriods ( EnvironmentPeriodIndex INTEGER PRIMARY KEY, SimulationIndex INTEGER, '
    'EnvironmentName TEXT, EnvironmentType INTEGER, FOREIGN KEY(SimulationIndex) REFERENCES '
    'Simulations(SimulationIndex) ON DELETE CASCADE ON UPDATE CASCADE )',
    'CREATE TABLE Time (TimeIndex INTEGER PRIMARY KEY, Year INTEGER, Month INTEGER, Day INTEGER, Hour INTEGER, '
    'Minute INTEGER, Dst INTEGER, Interval INTEGER, IntervalType INTEGER, SimulationDays INTEGER, DayType TEXT, '
    'EnvironmentPeriodIndex INTEGER, WarmupFlag INTEGER)',
    'CREATE TABLE ReportDataDictionary(ReportDataDictionaryIndex INTEGER PRIMARY KEY, IsMeter INTEGER, Type TEXT, '
    'IndexGroup TEXT, TimestepType TEXT, KeyValue TEXT, Name TEXT, ReportingFrequency TEXT, ScheduleName TEXT, '
    'Units TEXT)',
    'CREATE TABLE ReportData (ReportDataIndex INTEGER PRIMARY KEY, TimeIndex INTEGER, ReportDataDictionaryIndex '
    'INTEGER, Value REAL, FOREIGN KEY(TimeIndex) REFERENCES Time(TimeIndex) ON DELETE CASCADE ON UPDATE CASCADE '
    'FOREIGN KEY(ReportDataDictionaryIndex) REFERENCES ReportDataDictionary(ReportDataDictionaryIndex) '
    'ON DELETE CASCADE ON UPDATE CASCADE )',
    'CREATE INDEX rddMTR ON ReportDataDictionary (IsMeter)',
]

FREQ_LABEL = {'ts': 'Zone Timestep', 'hourly': 'Hourly', 'daily': 'Daily', 'monthly': 'Monthly',
              'run': 'Run Period', 'annual': 'Annual'}
FREQ_TYPE = {'ts': -1, 'hourly': 1, 'daily': 2, 'monthly': 3, 'run': 4, 'annual': 5}
STEPS = [1, 2, 3, 4, 5, 6, 10, 12, 15, 20, 30, 60]
UNITS_POOL = ['J', 'J', 'J', 'C', 'W', '%', '', 'ach', 'W/m2', 'm3/s', 'kg/s', 'Pa', 'lux', 'hr', 'ppm', 'W/m2-K']
# Round 5: the unit universe.  The base data types of ladybug and their unit abbreviations, written down by
# hand (the oracle's table; independent of ladybug.datatype.UNITS at run time - the correspondence op `dtype`
# compares the real table with the model's copy on every run).
TABLE_UNITS = {
    'VolumetricHeatCapacity': ['J/m3-K', 'Btu/ft3-F', 'kWh/m3-K', 'kBtu/ft3-F', 'kJ/m3-K', 'MJ/m3-K'],
    'Time': ['hr', 'min', 'sec', 'day'],
    'Conductivity': ['W/m-K', 'Btu/h-ft-F', 'cal/s-cm-C'],
    'Fraction': ['fraction', '%', 'tenths', 'thousandths', 'okta'],
    'SpecificHeatCapacity': ['J/kg-K', 'Btu/lb-F', 'kWh/kg-K', 'kBtu/lb-F', 'kJ/kg-K'],
    'TemperatureTime': ['degC-days', 'degF-days', 'degC-hours', 'degF-hours'],
    'TemperatureDelta': ['dC', 'dF', 'dK'],
    'EnergyIntensity': ['kWh/m2', 'kBtu/ft2', 'Wh/m2', 'Btu/ft2', 'kWh/ft2', 'kBtu/m2'],
    'Energy': ['kWh', 'kBtu', 'Wh', 'Btu', 'MMBtu', 'J', 'kJ', 'MJ', 'GJ', 'therm', 'cal', 'kcal'],
    'Conductance': ['W/K', 'Btu/h-F'],
    'Temperature': ['C', 'F', 'K'],
    'Luminance': ['cd/m2', 'cd/ft2'],
    'Density': ['kg/m3', 'lb/ft3', 'g/cm3', 'oz/in3'],
    'Distance': ['m', 'ft', 'mm', 'in', 'km', 'mi', 'cm'],
    'Speed': ['m/s', 'mph', 'km/h', 'knot', 'ft/s', 'ft/min'],
    'SpecificEnergy': ['kWh/kg', 'kBtu/lb', 'Wh/kg', 'Btu/lb', 'J/kg', 'kJ/kg'],
    'UValue': ['W/m2-K', 'Btu/h-ft2-F'],
    'Mass': ['kg', 'lb', 'g', 'tonne', 'ton', 'oz'],
    'MassFlowRate': ['kg/s', 'lb/s', 'g/s', 'oz/s'],
    'Volume': ['m3', 'ft3', 'mm3', 'in3', 'km3', 'mi3', 'L', 'mL', 'gal', 'fl oz'],
    'ThermalCondition': ['condition', 'PMV'],
    'EnergyFlux': ['W/m2', 'Btu/h-ft2', 'kW/m2', 'kBtu/h-ft2', 'W/ft2', 'met'],
    'Power': ['W', 'Btu/h', 'kW', 'kBtu/h', 'TR', 'hp'],
    'VolumeFlowRateIntensity': ['m3/s-m2', 'ft3/s-ft2', 'L/s-m2', 'cfm/ft2', 'L/h-m2', 'gph/ft2'],
    'Resistance': ['K/W', 'F-h/Btu'],
    'Current': ['A', 'mA'],
    'Pressure': ['Pa', 'inHg', 'atm', 'bar', 'Torr', 'psi', 'inH2O'],
    'Illuminance': ['lux', 'fc'],
    'Resistivity': ['K-m/W', 'F-ft-h/Btu'],
    'VolumeFlowRate': ['m3/s', 'ft3/s', 'L/s', 'cfm', 'gpm', 'mL/s', 'fl oz/s', 'L/h', 'gph'],
    'Voltage': ['V', 'kV'],
    'RValue': ['K-m2/W', 'F-ft2-h/Btu', 'clo', 'm2-K/W', 'h-ft2-F/Btu'],
    'Angle': ['degrees', 'radians'],
    'Area': ['m2', 'ft2', 'mm2', 'in2', 'km2', 'mi2', 'cm2', 'ha', 'acre'],
}
# 'kWh' as a DATABASE unit is outside the stated assumptions (EnergyPlus reports energy in J; see ASSUMPTIONS)
KNOWN_UNITS = sorted(u for us in TABLE_UNITS.values() for u in us if u != 'kWh')
# the joule / kWh family of the table: units that a test wider than `== 'J'` (prefix, substring, suffix, case,
# "is an energy unit") would catch as well
JOULE_FAMILY = ['J/kg', 'J/kg-K', 'J/m3-K', 'kJ', 'MJ', 'GJ', 'kJ/kg', 'kJ/kg-K', 'kJ/m3-K', 'MJ/m3-K',
                'Wh', 'kWh/m2', 'kWh/kg', 'kWh/kg-K', 'kWh/m3-K', 'kWh/ft2', 'Wh/m2', 'Wh/kg', 'cal', 'kcal', 'Btu']
# units ladybug does not know (GenericType named after the output, label and values untouched): what EnergyPlus
# writes besides the table, and look-alikes of 'J', 'kWh', '' and of table units (extended, cut, other case, blanks)
ENERGYPLUS_UNKNOWN = ['ach', 'ppm', 'kgWater/kgDryAir', 'deltaC', 'W/W', 'rad', 'deg', 'lum/W', 'kg/kg', 'kgWater/s',
                      'kg/m2', 'W/m3', 'm3/m3', 'rev/min', 'N-s/m2', '$', 'kg-H2O/kg-air', 'ohms']
LOOKALIKE_UNITS = ['J/m2', 'J/s', 'J/K', 'J/kgWater', 'J/m3', 'J/J', 'Jx', 'J ', ' J', 'j', 'JJ', 'mJ', 'W-J', 'm3/J',
                   'kwh', 'KWH', 'kWh ', 'kWh/m3', 'kWh/K', 'kWhx', 'xkWh', 'Joule', 'joules',
                   ' ', '-', 'None', 'unitless', 'Fraction', 'c', 'w', 'Cx', 'C ', 'W/', 'k', 'deg C', 'PA', 'Hr']
NAMES_POOL = ['Zone Lights Electric Energy', 'Zone Mean Radiant Temperature', 'Surface Inside Face Temperature',
              'Zone Air Relative Humidity', 'Electricity:Facility', 'Zone Infiltration Current Density Volume Flow Rate',
              'Site Outdoor Air Drybulb Temperature', 'Surface Window Heat Gain Energy', 'Zone People Occupant Count']
GROUPS_POOL = ['Zone', 'System', 'Facility:Electricity', 'HVAC System', 'Surface']
# legal but unusual output names (no '~', '^', '|': separators of the line protocol; no backslash and not
# both quote characters: a name LIST is formatted into the SQL text by tuple repr, which such names break)
EXOTIC_NAMES = ['Zone Température Opérative (°C), moyenne', "Zone Occupant's Lighting Energy 100%",
                'Größe:Facility [kWh] 区域', 'Surface Außen Face Temperature', 'zone lights electric energy',
                'Zone Lights Electric Energy ', 'Zone  Lights Electric Energy', 'Zone Lights Electric Energy;--']
SHIPPED = ['eplusout_daily.sql', 'eplusout_dday_runper.sql', 'eplusout_design_days.sql', 'eplusout_hourly.sql',
           'eplusout_monthly.sql', 'eplusout_odd_zonesize.sql', 'eplusout_openstudio.sql', 'eplusout_timestep.sql']

_TMP = None
_DBS = {}


def _tmpdir():
    global _TMP
    if _TMP is None:
        _TMP = tempfile.mkdtemp(prefix='verif_c19_')
        atexit.register(shutil.rmtree, _TMP, True)
    return _TMP


# ---------------------------------------------------------------------------------------------
# synthetic databases: spec -> rows -> sqlite file


def _month_len(year, month):
    return calendar.monthrange(year if year else 2017, month)[1]


def freq_label(spec, freq):
    """ReportingFrequency text of a dictionary row: EnergyPlus has two labels for sub-hourly data."""
    if freq == 'ts' and spec.get('tslabel'):
        return spec['tslabel']
    return FREQ_LABEL[freq]


def build_rows(spec):
    """Rows of a database described by `spec` (EnergyPlus order).  Pure stdlib."""
    year = spec['year']
    steps = spec['steps']
    freqs = spec['freqs']
    dict_rows = []
    for name, group, units, freq, keys in spec['outputs']:
        for idx, key in keys:
            dict_rows.append((idx, group, key, name, freq_label(spec, freq), units, freq))
    dict_rows.sort()
    time_rows = []      # (idx, year, month, day, hour, minute, interval, itype, simdays, env)
    data_rows = []      # (timeidx, dictidx, value)
    base = spec.get('idbase', 1)        # 0: one of the values is an exact zero (falsy)
    ids = list(range(base, base + 4 * max(1, spec.get('nvals', 1))))
    import random
    rnd = random.Random(spec.get('idseed', 0))
    rnd.shuffle(ids)
    pos = [0]

    def emit(y, m, d, h, mi, interval, fr, simdays, env):
        ti = len(time_rows) + 1
        time_rows.append((ti, y, m, d, h, mi, interval, FREQ_TYPE[fr], simdays, env))
        for r in dict_rows:
            if r[6] == fr:
                if pos[0] >= len(ids):
                    ids.extend(range(len(ids) + 1, 2 * len(ids) + 2))
                data_rows.append((ti, r[0], ids[pos[0]]))
                pos[0] += 1

    for env, kind, m0, d0, ndays in spec['envs']:
        base_year = year if kind == 'rp' else 2017
        cur = date(base_year, m0, d0)
        for k in range(ndays):
            yy = cur.year if kind == 'rp' else 0
            for h in range(24):
                if 'ts' in freqs:
                    for s in range(1, steps + 1):
                        mi = s * 60 // steps
                        emit(yy, cur.month, cur.day, h + (1 if mi == 60 else 0), mi % 60, 60 // steps, 'ts',
                             k + 1, env)
                if 'hourly' in freqs:
                    emit(yy, cur.month, cur.day, h + 1, 0, 60, 'hourly', k + 1, env)
            if 'daily' in freqs:
                emit(yy, cur.month, cur.day, 24, 0, 1440, 'daily', k + 1, env)
            nxt = cur + timedelta(days=1)
            last = k == ndays - 1
            if 'monthly' in freqs and (last or nxt.month != cur.month):
                ml = _month_len(cur.year, cur.month)
                emit(yy, cur.month, ml, 24, 0, ml * 1440, 'monthly', k + 1, env)
            if last:
                for fr in ('run', 'annual'):
                    if fr in freqs:
                        emit(yy, cur.month, cur.day, 24, 0, ndays * 1440, fr, k + 1, env)
            cur = nxt
    return dict_rows, time_rows, data_rows


def value_of(mode, i):
    """The stored value of data id `i` (the model moves the ids; the harness maps them back).
    None: the id itself.  'frac': values exactly on a half, negative for odd ids.  'wide': magnitudes
    1e-12 .. 1e+16, every third negative, non-integral mantissas."""
    if not mode:
        return float(i)
    if mode == 'frac':
        return (i + 0.5) * (-1.0 if i % 2 else 1.0)
    k = (i * 7) % 29 - 12
    return (i + (i % 5) / 8.0) * (10.0 ** k) * (-1.0 if i % 3 == 0 else 1.0) + 0.0     # id 0: +0.0, not -0.0


def write_db(path, dict_rows, time_rows, data_rows, envs, valmode=None):
    conn = sqlite3.connect(path)
    c = conn.cursor()
    c.execute('PRAGMA synchronous=OFF')         # scratch files: no fsync per database
    c.execute('PRAGMA journal_mode=OFF')
    for s in SCHEMA:
        c.execute(s)
    c.execute("INSERT INTO Simulations VALUES (1, 'EnergyPlus, Version 9.0', '2020.01.01 00:00', 6, 1, 1)")
    for env, kind, m0, d0, ndays in envs:
        c.execute('INSERT INTO EnvironmentPeriods VALUES (?,?,?,?)',
                  (env, 1, 'ENV %d' % env, 1 if kind == 'dd' else 3))
    c.executemany('INSERT INTO Time VALUES (?,?,?,?,?,?,0,?,?,?,NULL,?,NULL)',
                  [(t[0], t[1], t[2], t[3], t[4], t[5], t[6], t[7], t[8], t[9]) for t in time_rows])
    c.executemany('INSERT INTO ReportDataDictionary VALUES (?,0,?,?,?,?,?,?,NULL,?)',
                  [(r[0], 'Sum' if r[5] == 'J' else 'Avg', r[1], 'Zone', r[2], r[3], r[4], r[5]) for r in dict_rows])
    c.executemany('INSERT INTO ReportData VALUES (?,?,?,?)',
                  [(i + 1, d[0], d[1], value_of(valmode, d[2])) for i, d in enumerate(data_rows)])
    conn.commit()
    conn.close()


def db_for(src):
    """{'path', 'dict', 'time', 'data'} for a database source: a spec dict or {'file': shipped name}."""
    key = json.dumps(src, sort_keys=True)
    if key in _DBS:
        return _DBS[key]
    if 'file' in src:
        path = os.path.join(core.REPO, 'tests', 'assets', 'sql', src['file'])
        conn = sqlite3.connect(path)
        c = conn.cursor()
        c.execute('SELECT ReportDataDictionaryIndex, IndexGroup, KeyValue, Name, ReportingFrequency, Units '
                  'FROM ReportDataDictionary ORDER BY ReportDataDictionaryIndex')
        drows = [tuple(r) for r in c.fetchall()]
        c.execute('SELECT TimeIndex, Year, Month, Day, Hour, Minute, Interval, IntervalType, SimulationDays, '
                  'EnvironmentPeriodIndex FROM Time ORDER BY TimeIndex')
        trows = [tuple(r) for r in c.fetchall()]
        conn.close()
        info = {'path': path, 'dict': drows, 'time': trows, 'data': None, 'shipped': True}
    else:
        drows, trows, rrows = build_rows(src)
        path = os.path.join(_tmpdir(), 'db%05d.sql' % len(_DBS))
        write_db(path, drows, trows, rrows, src['envs'], src.get('valmode'))
        info = {'path': path, 'dict': drows, 'time': trows, 'data': rrows, 'shipped': False}
        if src.get('valmode'):
            info['vmap'] = {d[2]: value_of(src['valmode'], d[2]) for d in rrows}
    _DBS[key] = info
    return info


def _shipped_data(info, names):
    """ReportData rows of a shipped file restricted to the dictionary rows of `names` plus one more output
    (rowid order); values are replaced by their rowid (distinct ids) on the model side only."""
    conn = sqlite3.connect(info['path'])
    c = conn.cursor()
    idx = [r[0] for r in info['dict'] if r[3] in names]
    other = [r[0] for r in info['dict'] if r[3] not in names][:3]
    sel = idx + other
    if not sel:
        conn.close()
        return []
    c.execute('SELECT TimeIndex, ReportDataDictionaryIndex, Value, ReportDataIndex FROM ReportData WHERE '
              'ReportDataDictionaryIndex IN (%s) ORDER BY ReportDataIndex' % ','.join(str(i) for i in sel))
    rows = c.fetchall()
    conn.close()
    return rows


# ---------------------------------------------------------------------------------------------
# protocol helpers


def enc(s):
    if s is None:
        return '^'
    return '^' if s == '' else s.replace(' ', '~')


def _db_tokens(drows, trows, rrows):
    out = ['D', str(len(drows))]
    for r in drows:
        out += [str(r[0]), enc(r[1]), enc(r[2]), enc(r[3]), enc(r[4]), enc(r[5])]
    out += ['T', str(len(trows))]
    for t in trows:
        out += [str(t[0]), str(t[1] or 0), str(t[2]), str(t[3]), str(t[6]), str(t[7]), str(t[9])]
    out += ['R', str(len(rrows))]
    for d in rrows:
        out += [str(d[0]), str(d[1]), str(d[2])]
    return ' '.join(out)


def _query_tokens(q):
    if isinstance(q, str):
        return 's ' + enc(q)
    return 'l %d %s' % (len(q), ' '.join(enc(n) for n in q))


def _fval(x):
    return 'f' + float(x).hex()


_VTOK = re.compile(r'\bv(-?\d+)(?:/(\d+))?\b')


def canon(s):
    """Model values are exact rationals (`v7/3600000`); map them to the nearest double like the float
    division of the implementation (int/int true division in CPython is correctly rounded)."""
    def rep(m):
        num = int(m.group(1))
        den = int(m.group(2)) if m.group(2) else 1
        return _fval(num / den)
    return _VTOK.sub(rep, s)


def _show_cols(cols):
    cols = [list(c) for c in cols]
    return ' '.join(['ok'] + ['| %d %s' % (len(c), ' '.join(_fval(v) for v in c)) for c in cols]).replace('  ', ' ').strip()


def _show_dtype(dt):
    cls = type(dt).__name__
    if cls == 'GenericType':
        return 'generic ' + enc(dt.name)
    return 'base ' + enc(cls)


def _show_period(a):
    return '%d %d %d %d %d %d %d %d' % (a.st_month, a.st_day, a.st_hour, a.end_month, a.end_day, a.end_hour,
                                        a.timestep, 1 if a.is_leap_year else 0)


def _show_coll(c):
    kind = type(c).__name__.replace('Collection', '')
    h = c.header
    md = h.metadata
    rest = [(k, v) for k, v in md.items() if k != 'type']
    if 'type' in md and len(rest) == 1:
        mtok = 'M %s %s %s' % (enc(md['type']), enc(rest[0][0]), enc(rest[0][1]))
    else:
        mtok = 'M? ' + enc(json.dumps(md, sort_keys=True))
    vals = list(c.values)
    dts = [] if kind == 'HourlyContinuous' else [int(d) for d in c.datetimes]
    return ' '.join(x for x in ['C', kind, _show_dtype(h.data_type), enc(h.unit), 'P', _show_period(h.analysis_period),
                                mtok, 'V', str(len(vals)), ' '.join(_fval(v) for v in vals),
                                'T', str(len(dts)), ' '.join(str(d) for d in dts)] if x != '')


def _show_result(res):
    if isinstance(res, list) and all(hasattr(x, 'header') for x in res):
        return ' '.join(x for x in ['ok colls', str(len(res))] + [_show_coll(c) for c in res] if x != '')
    if isinstance(res, list):
        return ' '.join(x for x in ['ok annual', str(len(res)), ' '.join(_fval(v) for v in res)] if x != '')
    cols = [list(c) for c in res]
    return ' '.join(['ok annualcols'] + ['| %d %s' % (len(c), ' '.join(_fval(v) for v in c)) for c in cols])


def _norm_ws(s):
    return ' '.join(s.split())


# ---------------------------------------------------------------------------------------------
# generators


_UNIT_TO_TYPE = {u: t for t, us in TABLE_UNITS.items() for u in us}
assert not [u for u in ENERGYPLUS_UNKNOWN + LOOKALIKE_UNITS if u in _UNIT_TO_TYPE or u == '']


def unit_type(u):
    """Name of the ladybug base data type the statement's `data type from unit` gives the DATABASE unit `u`
    (J is energy, '' a fraction, a table unit its type), or None: a unit ladybug does not know."""
    return 'Fraction' if u == '' else _UNIT_TO_TYPE.get(u)


def unit_class(u):
    """The class of a database unit with respect to the one unit-dependent rule of the statement (`J` is
    converted and relabelled, everything else untouched)."""
    if u == 'J':
        return 'J'
    if u == '':
        return 'empty'
    known = u in _UNIT_TO_TYPE
    if u.startswith('J'):
        return 'joule_prefix_known' if known else 'joule_prefix_unknown'
    if 'J' in u or 'j' in u.lower():
        return 'joule_inside_known' if known else 'joule_inside_unknown'
    if 'kwh' in u.lower() or u.startswith('Wh'):
        return 'kwh_family_known' if known else 'kwh_family_unknown'
    if known:
        return 'energy_other' if _UNIT_TO_TYPE[u] in ('Energy', 'SpecificEnergy', 'EnergyIntensity') else 'table'
    return 'unknown'


def pick_unit(rng):
    """A database unit: plain J often; the units EnergyPlus writes; every table unit; the joule / kWh family;
    units ladybug does not know, look-alikes of the special ones included."""
    r = rng.random()
    if r < 0.22:
        return 'J'
    if r < 0.47:
        return rng.choice(UNITS_POOL[3:])
    if r < 0.62:
        return rng.choice(JOULE_FAMILY)
    if r < 0.77:
        return rng.choice(KNOWN_UNITS)
    if r < 0.9:
        return rng.choice(LOOKALIKE_UNITS)
    return rng.choice(ENERGYPLUS_UNKNOWN)


def gen_spec(rng, family=None, big=False):
    """A random database description.  family: 'single' (one frequency in the Time table), 'mixed1'
    (several frequencies, one environment), 'mixedN' (several frequencies, several environments)."""
    if family is None:
        family = rng.choice(['single'] * 6 + ['mixed1'] * 2 + ['mixedN'])
    leap = rng.random() < 0.4
    year = rng.choice([2016, 2020, 2024, 2004]) if leap else rng.choice([2017, 2006, 2019, 2021, 2002])
    steps = rng.choice([1, 2, 4, 6, 6, 4, 3, 12, 10, 5, 15, 20, 30, 60])
    allf = ['ts', 'hourly', 'daily', 'monthly', 'run', 'annual']
    if family == 'single':
        freqs = [rng.choice(['ts', 'hourly', 'hourly', 'daily', 'monthly', 'run', 'annual'])]
    else:
        freqs = sorted(set(rng.sample(allf[:5], rng.randint(2, 4))), key=allf.index)
    nenv = 1 if family == 'mixed1' else rng.choice([1, 1, 2, 3, 4])
    if family == 'mixedN':
        nenv = rng.choice([2, 3])
    sub = any(f in ('ts', 'hourly') for f in freqs)
    heavy = ('ts' in freqs and steps > 6)
    envs = []
    env_idx = rng.choice([1, 1, 3, 8])
    monthly_only = freqs == ['monthly']
    used = []
    for e in range(nenv):
        last = e == nenv - 1
        kind = 'rp' if (last and rng.random() < 0.8) or rng.random() < 0.25 else 'dd'
        if monthly_only:
            kind = 'rp'
        if kind == 'dd':
            m0, d0 = rng.choice([(7, 21), (1, 21), (8, 21), (12, 21), (2, 28), (6, 30), (12, 31), (1, 1)])
            ndays = 1
        else:
            r = rng.random()
            if monthly_only or ('monthly' in freqs and rng.random() < 0.5):
                m0 = rng.randint(1, 12)
                d0 = 1
                nm = rng.choice([1, 1, 2, 3, 12]) if not sub else 1
                nm = min(nm, 13 - m0)
                ndays = sum(_month_len(year, m) for m in range(m0, m0 + nm))
                if sub and not big:
                    ndays = min(ndays, 3) if monthly_only is False and rng.random() < 0.5 else ndays
            elif leap and r < 0.35:
                # around 29 Feb
                m0, d0 = rng.choice([(2, 27), (2, 28), (2, 29), (2, 25), (1, 30)])
                ndays = rng.choice([1, 2, 3, 4, 5])
            elif r < 0.5:
                m0, d0 = rng.choice([(1, 1), (12, 25), (12, 31), (2, 26), (6, 29), (3, 1)])
                ndays = rng.choice([1, 2, 5, 7])
            else:
                m0 = rng.randint(1, 12)
                d0 = rng.randint(1, _month_len(year, m0))
                ndays = rng.choice([1, 2, 3, 7, 10, 31, 40])
            if heavy:
                ndays = min(ndays, 2)
            elif sub and not big:
                ndays = min(ndays, 10)
            # keep the run period inside its year unless both years have the same leap-ness
            end = date(year, m0, d0) + timedelta(days=ndays - 1)
            if end.year != year and (leap or calendar.isleap(year + 1)):
                ndays = (date(year, 12, 31) - date(year, m0, d0)).days + 1
        if not sub and kind == 'rp' and 'daily' in freqs and rng.random() < 0.3:
            ndays = rng.choice([59, 60, 90, 365 if not leap else 366])
            m0, d0 = (1, 1)
        envs.append([env_idx, kind, m0, d0, ndays])
        env_idx += rng.choice([1, 1, 1, 2])
    # EnergyPlus simulates the sizing periods (design days) first, then the run periods
    order_idx = [e[0] for e in envs]
    envs.sort(key=lambda e: 0 if e[1] == 'dd' else 1)
    for e, i in zip(envs, order_idx):
        e[0] = i
    nout = rng.choice([1, 2, 2, 3])
    names = rng.sample(NAMES_POOL, nout)
    if rng.random() < 0.15:         # unusual text in names (near-duplicates of a pool name included)
        for i in range(rng.randint(1, nout)):
            names[i] = rng.choice([n for n in EXOTIC_NAMES if n not in names])
    outputs = []
    next_idx = rng.choice([1, 7, 80])
    slots = []
    for name in names:
        freq = rng.choice(freqs)
        units = pick_unit(rng)
        group = rng.choice(GROUPS_POOL)
        nkeys = rng.choice([1, 1, 2, 3, 3, 5, 7 if big else 4])
        slots.append([name, group, units, freq, nkeys])
    if len(freqs) > 1 and rng.random() < 0.3:
        # the same name reported at two frequencies (like Electricity:Facility in the shipped file)
        s = slots[0]
        other = [f for f in freqs if f != s[3]]
        slots.append([s[0], s[1], s[2], rng.choice(other), 1])
    # dictionary indices: increasing, gaps, outputs interleaved in blocks or round-robin
    pend = [[s, s[4]] for s in slots]
    keysets = [[] for _ in slots]
    rr = rng.random() < 0.4
    kcount = 0
    while any(p[1] > 0 for p in pend):
        for i, p in enumerate(pend):
            take = 1 if rr else p[1]
            for _ in range(min(take, p[1])):
                kcount += 1
                keysets[i].append([next_idx, rng.choice(['ZONE_%d' % kcount, 'RESIDENCE %d' % kcount,
                                                         'Environment' if p[0][4] == 1 else 'SRF_%d' % kcount,
                                                         '' if p[0][4] == 1 else 'K%d' % kcount,
                                                         'ZONE_%d' % kcount, 'RESIDENCE %d' % kcount,
                                                         'ZÖNE ÉTAGE %d' % kcount, "O'BRIEN (%d), 区" % kcount])])
                next_idx += rng.choice([1, 1, 2, 14])
                p[1] -= 1
    for s, ks in zip(slots, keysets):
        outputs.append([s[0], s[1], s[2], s[3], ks])
    spec = {'year': year, 'steps': steps, 'freqs': freqs, 'envs': envs, 'outputs': outputs,
            'idseed': rng.randrange(10 ** 6), 'family': family}
    if 'ts' in freqs and rng.random() < 0.2:
        spec['tslabel'] = 'HVAC System Timestep'       # the other sub-hourly label EnergyPlus writes
    if rng.random() < 0.25:
        spec['idbase'] = 0
    r = rng.random()
    if r < 0.12:
        spec['valmode'] = 'frac'
    elif r < 0.3:
        spec['valmode'] = 'wide'
    if spec.get('valmode'):
        # id 0 in a J column: the model's `v0` (0/3600000 in lowest terms) cannot be told from an unconverted
        # id 0 when the ids are mapped back to the stored doubles; the exact-zero stratum stays with plain ids
        spec.pop('idbase', None)
    # number of data rows (for the id pool)
    d, t, _ = build_rows(dict(spec, nvals=1, outputs=[]))
    per = {}
    for r in t:
        per[r[7]] = per.get(r[7], 0) + 1
    n = 0
    for o in outputs:
        n += per.get(FREQ_TYPE[o[3]], 0) * len(o[4])
    spec['nvals'] = n
    return spec


def spec_queries(rng, spec):
    """Queries for a database: each name as str and 1-tuple, name lists, absent names."""
    names = []
    for o in spec['outputs']:
        if o[0] not in names:
            names.append(o[0])
    qs = []
    for n in names:
        qs.append(n)
        if rng.random() < 0.3:
            qs.append([n])
    if len(names) > 1:
        k = rng.randint(2, len(names))
        pick = rng.sample(names, k)
        qs.append(pick)
        if rng.random() < 0.3:
            qs.append(pick + ['No Such Output'])
        if rng.random() < 0.15:
            qs.append(['No Such Output'] + pick)
    if rng.random() < 0.1:
        qs.append([names[0], names[0]])
    if len(names) > 1 and rng.random() < 0.35:
        qs.append(list(reversed(names)))        # request order against the dictionary order
    if len(names) > 1 and rng.random() < 0.15:
        qs.append([names[-1]] + names + [names[0]])     # duplicates around the full list
    if rng.random() < 0.12:
        qs.append([names[0], 'Surface'])        # the literal 'Surface' in a name LIST (membership test)
    r = rng.random()
    if r < 0.3:
        qs.append('No Such Output')
    elif r < 0.4:
        qs.append(['No Such Output', 'Neither This'])
    elif r < 0.45:
        qs.append([])
    return qs


def fixed_specs():
    """Fixed corpus of database descriptions (always run first)."""
    def out(name, units, freq, keys, group='Zone'):
        return [name, group, units, freq, keys]
    k2 = [[7, 'ZONE_1'], [9, 'ZONE_2']]
    k3 = [[80, 'RESIDENCE 1'], [106, 'RESIDENCE 2'], [132, 'RESIDENCE 3']]
    S = []
    # one run period, hourly, J, three keys
    S.append({'year': 2017, 'steps': 6, 'freqs': ['hourly'], 'envs': [[8, 'rp', 1, 6, 7]],
              'outputs': [out('Zone Lights Electric Energy', 'J', 'hourly', k3)]})
    # two design days + run period, hourly, two outputs interleaved
    S.append({'year': 2006, 'steps': 6, 'freqs': ['hourly'],
              'envs': [[1, 'dd', 7, 21, 1], [2, 'dd', 1, 21, 1], [3, 'rp', 1, 1, 5]],
              'outputs': [out('Zone Lights Electric Energy', 'J', 'hourly', [[7, 'Z1'], [9, 'Z2']]),
                          out('Zone Mean Radiant Temperature', 'C', 'hourly', [[8, 'Z1'], [10, 'Z2']])]})
    # timestep data, 4 steps/hour, design days only
    S.append({'year': 2017, 'steps': 4, 'freqs': ['ts'], 'envs': [[1, 'dd', 7, 21, 1], [2, 'dd', 1, 21, 1]],
              'outputs': [out('Zone Mean Radiant Temperature', 'C', 'ts', k2)]})
    # daily, leap year over 29 Feb, two run periods
    S.append({'year': 2016, 'steps': 6, 'freqs': ['daily'], 'envs': [[1, 'rp', 2, 25, 10], [2, 'rp', 7, 1, 3]],
              'outputs': [out('Zone Lights Electric Energy', 'J', 'daily', k2)]})
    # monthly, full leap year
    S.append({'year': 2020, 'steps': 6, 'freqs': ['monthly'], 'envs': [[8, 'rp', 1, 1, 366]],
              'outputs': [out('Zone Lights Electric Energy', 'J', 'monthly', k3),
                          out('Zone Air Relative Humidity', '%', 'monthly', [[200, 'RESIDENCE 1']])]})
    # monthly, two run periods
    S.append({'year': 2017, 'steps': 6, 'freqs': ['monthly'], 'envs': [[1, 'rp', 1, 1, 59], [2, 'rp', 6, 1, 92]],
              'outputs': [out('Zone Mean Radiant Temperature', 'C', 'monthly', k2)]})
    # run-period frequency, one environment
    S.append({'year': 2017, 'steps': 6, 'freqs': ['run'], 'envs': [[8, 'rp', 1, 1, 365]],
              'outputs': [out('Zone Lights Electric Energy', 'J', 'run', k3)]})
    # mixed frequencies, one environment (like the shipped OpenStudio file)
    S.append({'year': 2006, 'steps': 6, 'freqs': ['ts', 'hourly', 'daily', 'monthly'], 'envs': [[8, 'rp', 1, 1, 2]],
              'outputs': [out('Site Outdoor Air Drybulb Temperature', 'C', 'monthly', [[7, 'Environment']]),
                          out('Electricity:Facility', 'J', 'ts', [[17, '']], 'Facility:Electricity'),
                          out('Electricity:Facility', 'J', 'daily', [[19, '']], 'Facility:Electricity'),
                          out('Zone Lights Electric Energy', 'J', 'hourly', [[89, 'R1'], [115, 'R2']])]})
    # surface output (metadata key 'Surface'), unknown unit, dimensionless unit
    S.append({'year': 2019, 'steps': 2, 'freqs': ['ts'], 'envs': [[1, 'rp', 12, 30, 2]],
              'outputs': [out('Surface Inside Face Temperature', 'C', 'ts', k2, 'Surface'),
                          out('Zone Infiltration Current Density Volume Flow Rate', 'ach', 'ts', [[8, 'Z1']]),
                          out('Zone People Occupant Count', '', 'ts', [[20, 'Z1'], [21, 'Z2']])]})
    # run period wrapping the year end (non-leap to non-leap)
    S.append({'year': 2017, 'steps': 1, 'freqs': ['hourly'], 'envs': [[1, 'rp', 12, 30, 4]],
              'outputs': [out('Zone Mean Radiant Temperature', 'C', 'hourly', k2)]})
    # --- round 4 ---
    # design days only (Year 0 in every Time row), daily + hourly: no leap year out of nothing
    S.append({'year': 2017, 'steps': 6, 'freqs': ['hourly', 'daily'],
              'envs': [[1, 'dd', 7, 21, 1], [2, 'dd', 1, 21, 1], [3, 'dd', 12, 21, 1]],
              'outputs': [out('Zone Lights Electric Energy', 'J', 'hourly', k2),
                          out('Zone Mean Radiant Temperature', 'C', 'daily', [[8, 'ZONE_1'], [10, 'ZONE_2']])]})
    # design days (Year 0) before a LEAP run period: the run-period query of a design day stays a common year
    S.append({'year': 2016, 'steps': 2, 'freqs': ['ts'], 'envs': [[1, 'dd', 8, 21, 1], [2, 'rp', 2, 28, 3]],
              'outputs': [out('Zone Mean Radiant Temperature', 'C', 'ts', k2)]})
    # values on a half / negative, and of magnitudes 1e-12 .. 1e+16 (J converted, other units untouched)
    S.append({'year': 2017, 'steps': 6, 'freqs': ['hourly'], 'envs': [[1, 'dd', 7, 21, 1], [2, 'rp', 3, 30, 3]],
              'valmode': 'wide',
              'outputs': [out('Zone Lights Electric Energy', 'J', 'hourly', k3),
                          out('Zone Air Relative Humidity', '%', 'hourly', [[81, 'RESIDENCE 1'], [107, 'RESIDENCE 2']])]})
    S.append({'year': 2020, 'steps': 6, 'freqs': ['daily', 'monthly'], 'envs': [[4, 'rp', 2, 1, 60]], 'valmode': 'frac',
              'outputs': [out('Zone Lights Electric Energy', 'J', 'daily', k2),
                          out('Electricity:Facility', 'J', 'monthly', [[30, '']], 'Facility:Electricity')]})
    # legal but unusual text: accents, degree sign, comma, parentheses, apostrophe, percent, CJK; keys too
    S.append({'year': 2019, 'steps': 4, 'freqs': ['hourly'], 'envs': [[1, 'dd', 1, 21, 1], [5, 'rp', 6, 29, 3]],
              'outputs': [out(EXOTIC_NAMES[0], 'C', 'hourly', [[3, 'ZÖNE ÉTAGE_1'], [5, "O'BRIEN ROOM"]]),
                          out(EXOTIC_NAMES[1], 'J', 'hourly', [[4, 'ZÖNE ÉTAGE_1'], [6, '区域 2']]),
                          out(EXOTIC_NAMES[2], 'W', 'hourly', [[9, 'K (1,2)']])]})
    # near-duplicate names in ONE file: trailing blank, other case, double blank (text is compared as it is)
    S.append({'year': 2021, 'steps': 6, 'freqs': ['hourly'], 'envs': [[1, 'dd', 7, 21, 1], [2, 'rp', 12, 31, 1]],
              'outputs': [out('Zone Lights Electric Energy', 'J', 'hourly', k2),
                          out('Zone Lights Electric Energy ', 'W', 'hourly', [[8, 'ZONE_1'], [10, 'ZONE_2']]),
                          out('zone lights electric energy', 'C', 'hourly', [[11, 'ZONE_1']]),
                          out('Zone  Lights Electric Energy', 'J', 'hourly', [[12, 'zone_1'], [13, 'ZONE_1 ']])]})
    # --- round 5: the unit universe.  Compound joule units, joule multiples and kWh-based units of the table,
    # and joule look-alikes ladybug does not know, next to plain J: only plain J is converted and relabelled
    S.append({'year': 2017, 'steps': 6, 'freqs': ['hourly'], 'envs': [[1, 'dd', 7, 21, 1], [2, 'rp', 1, 5, 2]],
              'outputs': [out('System Node Specific Enthalpy', 'J/kg', 'hourly', [[5, 'NODE_1'], [6, 'NODE_2']], 'System'),
                          out('Zone Lights Electric Energy', 'J', 'hourly', k2),
                          out('System Node Specific Heat', 'J/kg-K', 'hourly', [[11, 'NODE_1']], 'System'),
                          out('Material Volumetric Heat Capacity', 'J/m3-K', 'hourly', [[12, 'WALL_1'], [13, 'WALL_2']]),
                          out('Zone Heat Gain Density', 'J/m2', 'hourly', [[14, 'ZONE_1'], [15, 'ZONE_2']]),
                          out('Plant Loop Energy', 'kJ', 'hourly', [[16, 'PLANT']], 'System'),
                          out('Site Energy Intensity', 'kWh/m2', 'hourly', [[17, 'SITE'], [18, 'SITE 2']])]})
    S.append({'year': 2016, 'steps': 6, 'freqs': ['daily', 'monthly'], 'envs': [[3, 'rp', 2, 27, 4], [4, 'rp', 7, 1, 3]],
              'valmode': 'frac',
              'outputs': [out('System Node Specific Enthalpy', 'J/kg', 'daily', k2, 'System'),
                          out('Zone Blank Joule', 'J ', 'daily', [[8, 'ZONE_1'], [10, 'ZONE_2']]),
                          out('Zone Small Joule', 'j', 'monthly', [[11, 'ZONE_1'], [12, 'ZONE_2']]),
                          out('Plant Watt Hours', 'Wh', 'monthly', [[13, 'PLANT']], 'System'),
                          out('Node Specific Energy', 'kWh/kg', 'daily', [[14, 'NODE_1']], 'System'),
                          out('Zone Lights Electric Energy', 'J', 'daily', [[15, 'ZONE_1'], [16, 'ZONE_2']]),
                          out('Plant Mega Joules', 'MJ', 'monthly', [[17, 'PLANT'], [18, 'PLANT 2']], 'System')]})
    # the other sub-hourly label of EnergyPlus ('HVAC System Timestep'): every text test on the frequency label
    # must treat it like 'Zone Timestep'
    S.append({'year': 2019, 'steps': 4, 'freqs': ['ts'], 'envs': [[1, 'dd', 1, 21, 1], [2, 'rp', 3, 1, 1]],
              'tslabel': 'HVAC System Timestep',
              'outputs': [out('System Node Specific Enthalpy', 'J/kg', 'ts', [[5, 'NODE_1'], [6, 'NODE_2']], 'System'),
                          out('Zone Lights Electric Energy', 'J', 'ts', k2)]})
    # BOTH sub-daily interval types (-1 zone timestep, 1 hourly) in one file with several environments: the Time
    # rows of types <= 1 that _extract_all_run_period scans belong to two frequencies (counting them is wrong,
    # their first / last days are right)
    S.append({'year': 2017, 'steps': 4, 'freqs': ['ts', 'hourly'],
              'envs': [[1, 'dd', 7, 21, 1], [2, 'dd', 1, 21, 1], [3, 'rp', 2, 27, 3]],
              'outputs': [out('Zone Lights Electric Energy', 'J', 'hourly', k2),
                          out('Zone Mean Radiant Temperature', 'C', 'ts', [[8, 'ZONE_1'], [10, 'ZONE_2'], [11, 'ZONE_3']]),
                          out('Site Outdoor Air Drybulb Temperature', 'C', 'hourly', [[12, 'Environment']])]})
    # a run period over the New Year NEXT TO other environments (the all-periods query rebuilds every period from
    # the Time rows in time order: first and last row, not the calendar-first and calendar-last day)
    S.append({'year': 2017, 'steps': 2, 'freqs': ['hourly', 'daily'], 'envs': [[1, 'dd', 7, 21, 1], [2, 'rp', 12, 30, 4]],
              'outputs': [out('Zone Lights Electric Energy', 'J', 'hourly', k2),
                          out('Zone Mean Radiant Temperature', 'C', 'daily', [[8, 'ZONE_1'], [10, 'ZONE_2']])]})
    S.append({'year': 2018, 'steps': 6, 'freqs': ['daily', 'monthly'], 'envs': [[1, 'rp', 12, 1, 62], [2, 'rp', 7, 1, 3]],
              'outputs': [out('Zone Lights Electric Energy', 'J', 'monthly', k2),
                          out('Zone Mean Radiant Temperature', 'C', 'daily', [[8, 'ZONE_1'], [10, 'ZONE_2']])]})
    for i, s in enumerate(S):
        s['idseed'] = 100 + i
        s['family'] = 'fixed'
        n = 0
        d, t, _ = build_rows(dict(s, nvals=1, outputs=[]))
        per = {}
        for r in t:
            per[r[7]] = per.get(r[7], 0) + 1
        for o in s['outputs']:
            n += per.get(FREQ_TYPE[o[3]], 0) * len(o[4])
        s['nvals'] = n
    return S


def finding_specs():
    """Database descriptions of the defects found by this check: all were repaired (fixes/C19_*.patch,
    committed in /repo) and stay as regression cases."""
    def out(name, units, freq, keys, group='Zone'):
        return [name, group, units, freq, keys]
    k2 = [[7, 'ZONE_1'], [9, 'ZONE_2']]
    S = {}
    S['mixed-units'] = {'year': 2017, 'steps': 6, 'freqs': ['hourly'], 'envs': [[8, 'rp', 1, 6, 2]],
                        'outputs': [out('Zone Lights Electric Energy', 'J', 'hourly', k2),
                                    out('Zone Mean Radiant Temperature', 'C', 'hourly', [[20, 'ZONE_1'], [21, 'ZONE_2']])]}
    S['single-key'] = {'year': 2017, 'steps': 6, 'freqs': ['hourly'], 'envs': [[8, 'rp', 1, 6, 2]],
                       'outputs': [out('Site Outdoor Air Drybulb Temperature', 'C', 'hourly', [[7, 'Environment']])]}
    S['feb29'] = {'year': 2016, 'steps': 6, 'freqs': ['daily'], 'envs': [[8, 'rp', 2, 1, 29]],
                  'outputs': [out('Zone Lights Electric Energy', 'J', 'daily', k2)]}
    S['annual-multi'] = {'year': 2017, 'steps': 6, 'freqs': ['run'],
                         'envs': [[1, 'dd', 7, 21, 1], [2, 'rp', 1, 1, 365]],
                         'outputs': [out('Zone Lights Electric Energy', 'J', 'run', k2)]}
    S['mixed-multi'] = {'year': 2017, 'steps': 6, 'freqs': ['hourly', 'monthly'],
                        'envs': [[1, 'rp', 1, 1, 3], [2, 'rp', 7, 1, 2]],
                        'outputs': [out('Zone Lights Electric Energy', 'J', 'hourly', k2),
                                    out('Zone Mean Radiant Temperature', 'C', 'monthly', [[20, 'ZONE_1']])]}
    for i, (k, s) in enumerate(sorted(S.items())):
        s['idseed'] = 500 + i
        s['family'] = 'finding'
        d, t, _ = build_rows(dict(s, nvals=1, outputs=[]))
        per = {}
        for r in t:
            per[r[7]] = per.get(r[7], 0) + 1
        s['nvals'] = sum(per.get(FREQ_TYPE[o[3]], 0) * len(o[4]) for o in s['outputs'])
    return S


# ---------------------------------------------------------------------------------------------
# correspondence


BRANCHES = """Branches of the anchored functions of sql.py (counted per run as `branch:<name>`, predicted from the
database description and the request; see _branches):
  dictionary query (3 copies; 2 take lists): query:str | query:list1 | query:listN;  header_rows:empty;
    freqfilter:drops | freqfilter:keeps;  rel_indices:1 | rel_indices:N (values/all; the run-period query formats any n)
  data_collections_by_output_name: all:annual | all:mult->extract_all | all:single_period;
    surface:substring_of_str | surface:member_of_list | surface:no;
    chunks:monthly | chunks:daily | chunks:len (only under all:mult);  tokwh:column | tokwh:none | tokwh:mixed;
    class:int_timestep | class:daily | class:monthly | class:annual  (`report_frequency == 'Hourly'` is
    unreachable: _extract_run_period answers interval types <= 1 with the integer steps per hour)
  data_collections_by_output_name_run_period: rp:kwh_convert | rp:plain; rp:annual; rp:absent_env (data[0] IndexError)
  _extract_run_period: extract_rp:itype<=1 | extract_rp:named_freq; extract_rp:annual_return;
    extract_rp:monthly_start; extract_rp:leap | extract_rp:year0 | extract_rp:common_year
    (interval type 0 / 6+ and Interval 0: reached by correspondence op `period` only - EnergyPlus writes no such row)
  _extract_all_run_period: extract_all:monthly | extract_all:daily | extract_all:subdaily;
    extract_all:new_period_monthly_reset | extract_all:new_period_reset (always with all:mult)
  _data_type_from_unit: dtype:fraction | dtype:table | dtype:generic
  unit tests (`!= 'J'` x3, `== 'kWh'` x3): unitclass:<method>:<J | empty | joule_prefix_(un)known |
    joule_inside_(un)known | kwh_family_(un)known | energy_other | table | unknown>
  _partition_*_chunks / _accumulate / _partition_timeseries: straight-line loops; empty data, ragged tails and
    zero chunks are op part/partc strata (`part:ragged`, `partc:periods=0`).
Unreachable through the public API: `_partition_and_convert_timeseries_chunks` (no caller; compared as a static
helper), `except Exception as e: conn.close(); raise` of the queries needs a failing SQL statement: reached by the
refused request `quote_list` (name list that breaks the formatted text) and by `bad_type`."""


def _branches(spec, q, method, env=None):
    """Names of the branches the request takes (from the description alone)."""
    names = [q] if isinstance(q, str) else list(q)
    out = ['query:str' if isinstance(q, str) else 'query:list1' if len(names) == 1 else 'query:listN']
    rows = sorted((k[0], o) for o in spec['outputs'] if o[0] in names for k in o[4])
    if not rows:
        return out + ['header_rows:empty']
    f0 = rows[0][1][3]
    sel = [r for r in rows if r[1][3] == f0]
    out.append('freqfilter:drops' if len(sel) < len(rows) else 'freqfilter:keeps')
    if method != 'run_period':
        out.append('rel_indices:1' if len(sel) == 1 else 'rel_indices:N')
    if method == 'values':
        return out
    envs = spec['envs']
    if method == 'run_period':
        if env not in [e[0] for e in envs]:
            return out + ['rp:absent_env']
        envs = [e for e in envs if e[0] == env]
    last = envs[-1]
    annual = f0 in ('run', 'annual')
    out.append('extract_rp:itype<=1' if f0 in ('ts', 'hourly') else 'extract_rp:named_freq')
    if annual:
        out.append('extract_rp:annual_return')
    else:
        if f0 == 'monthly':
            out.append('extract_rp:monthly_start')
        out.append('extract_rp:year0' if last[1] == 'dd' else
                   'extract_rp:leap' if calendar.isleap(spec['year']) else 'extract_rp:common_year')
    units = [r[1][2] for r in sel]
    for u in set(units):
        out.append('dtype:fraction' if u == '' else 'dtype:table' if unit_type(u) else 'dtype:generic')
        out.append('unitclass:%s:%s' % (method, unit_class(u)))
    cls = {'ts': 'int_timestep', 'hourly': 'int_timestep', 'daily': 'daily', 'monthly': 'monthly'}.get(f0, 'annual')
    out.append('class:' + cls)
    if isinstance(q, str):
        out.append('surface:substring_of_str' if 'Surface' in q else 'surface:no')
    else:
        out.append('surface:member_of_list' if 'Surface' in names else 'surface:no')
    if method == 'run_period':
        out.append('rp:annual' if annual else 'rp:kwh_convert' if units[0] == 'J' else 'rp:plain')
        return out
    if annual:
        out.append('all:annual')
    elif len(envs) > 1:
        out.append('all:mult->extract_all')
        out.append('extract_all:' + {'monthly': 'monthly', 'daily': 'daily'}.get(f0, 'subdaily'))
        out.append('extract_all:new_period_monthly_reset' if f0 == 'monthly' else 'extract_all:new_period_reset')
        out.append('chunks:' + {'monthly': 'monthly', 'daily': 'daily'}.get(f0, 'len'))
    else:
        out.append('all:single_period')
    nj = sum(1 for u in units if u == 'J')
    out.append('tokwh:none' if nj == 0 else 'tokwh:column' if nj == len(units) else 'tokwh:mixed')
    return out


def _model_db_line(src, names_for_shipped=None):
    info = db_for(src)
    if info['shipped']:
        rows = _shipped_data(info, names_for_shipped or [])
        rrows = [(r[0], r[1], r[3]) for r in rows]          # value := rowid (distinct id)
        return _db_tokens(info['dict'], info['time'], rrows), {r[3]: r[2] for r in rows}
    return _db_tokens(info['dict'], info['time'], info['data']), info.get('vmap')


def correspondence(ctx):
    from ladybug.sql import SQLiteResult
    import ladybug.datatype
    rng = ctx.rng

    # --- static helpers: _partition_timeseries(_chunks), with and without conversion
    cases = []
    for n in range(0, 8):
        for T in (0, 1, 2, 3, 24):
            for delta in (0, 1, -1):
                ln = n * T + delta
                if ln >= 0:
                    cases.append((n, ln))
    for _ in range(ctx.n(150, 3000)):
        n = rng.choice([1, 1, 2, 3, 5, 7, 28])
        T = rng.choice([1, 2, 24, 48, 168, rng.randint(1, 400)])
        cases.append((n, max(0, n * T + rng.choice([0, 0, 0, 0, 1, -1, rng.randint(-n, n)]))))

    def data_of(ln, seed):
        import random
        ids = list(range(1, ln + 1))
        random.Random(seed).shuffle(ids)
        return ids

    pc = [(n, data_of(ln, 17 * n + ln)) for n, ln in cases]
    for c in pc:
        ctx.count('part:n=%d' % c[0] if c[0] < 8 else 'part:n>=8')
        ctx.count('part:len%%n==0' if c[0] and len(c[1]) % c[0] == 0 else 'part:ragged')
    compare_batch(ctx, 'part', pc, lambda c: 'part %d %s' % (c[0], ' '.join(map(str, c[1]))),
                  lambda c: _show_cols(SQLiteResult._partition_timeseries(
                      (tuple if len(c[1]) % 2 else list)([(float(v), i) for i, v in enumerate(c[1])]), c[0])),
                  canon=lambda s: _norm_ws(canon(s)), key=lambda c: (c[0], len(c[1]), tuple(c[1][:3])))
    compare_batch(ctx, 'partconv', pc, lambda c: 'partconv %d %s' % (c[0], ' '.join(map(str, c[1]))),
                  lambda c: _show_cols(SQLiteResult._partition_and_convert_timeseries(
                      [(float(v), i) for i, v in enumerate(c[1])], c[0])),
                  canon=lambda s: _norm_ws(canon(s)), key=lambda c: (c[0], len(c[1]), tuple(c[1][:3])))
    cc = []
    for _ in range(ctx.n(200, 4000)):
        m = rng.choice([0, 1, 1, 2, 3, 4])
        cs = [rng.choice([0, 1, 2, 3, 24, 24, 12, 48, rng.randint(1, 60)]) for _ in range(m)]
        n = rng.choice([0, 1, 2, 3, 7])
        ln = max(0, n * sum(cs) + rng.choice([0, 0, 0, 0, 1, -1, rng.randint(-3, 3)]))
        cc.append((cs, data_of(ln, 31 * n + ln + m)))
    for c in cc:
        ctx.count('partc:periods=%d' % len(c[0]))
    compare_batch(ctx, 'partc', cc,
                  lambda c: 'partc %d %s %s' % (len(c[0]), ' '.join(map(str, c[0])), ' '.join(map(str, c[1]))),
                  lambda c: _show_cols(SQLiteResult._partition_timeseries_chunks(
                      (tuple if len(c[1]) % 2 else list)([(float(v), i) for i, v in enumerate(c[1])]),
                      (tuple if len(c[0]) % 2 else list)(c[0]))),
                  canon=lambda s: _norm_ws(canon(s)), key=lambda c: (tuple(c[0]), len(c[1])))
    compare_batch(ctx, 'partcconv', cc,
                  lambda c: 'partcconv %d %s %s' % (len(c[0]), ' '.join(map(str, c[0])), ' '.join(map(str, c[1]))),
                  lambda c: _show_cols(SQLiteResult._partition_and_convert_timeseries_chunks(
                      [(float(v), i) for i, v in enumerate(c[1])], list(c[0]))),
                  canon=lambda s: _norm_ws(canon(s)), key=lambda c: (tuple(c[0]), len(c[1])))
    ac = [[rng.choice([0, 1, 24, 8760, rng.randint(0, 100)]) for _ in range(rng.randint(0, 6))] for _ in range(100)]
    compare_batch(ctx, 'accum', ac, lambda c: _norm_ws('accum ' + ' '.join(map(str, c))),
                  lambda c: _norm_ws('ok ' + ' '.join(map(str, SQLiteResult._accumulate(list(c))))),
                  canon=_norm_ws, key=tuple)

    # --- _data_type_from_unit: every unit of the real table, '' and unknown units
    units = ['']
    for k in sorted(ladybug.datatype.UNITS):
        units += list(ladybug.datatype.UNITS[k])
    units += ['ach', 'ppm', 'J ', 'j', 'kwh', 'W/m3', 'Unknown Unit', 'deltaC', 'kgWater/kgDryAir']
    units += [u for u in ENERGYPLUS_UNKNOWN + LOOKALIKE_UNITS + KNOWN_UNITS if u not in units]
    uc = [(u, rng.choice(NAMES_POOL)) for u in units]

    def impl_dtype(c):
        dt, u = SQLiteResult._data_type_from_unit(c[0], c[1])
        return 'ok %s %s' % (_show_dtype(dt), enc(u))

    compare_batch(ctx, 'dtype', uc, lambda c: 'dtype %s %s' % (enc(c[0]), enc(c[1])), impl_dtype, key=lambda c: c[0])
    ctx.count('dtype:table_types', len(ladybug.datatype.UNITS))

    # --- _extract_run_period on pairs of Time rows (boundary dates, malformed rows)
    pr = []
    for _ in range(ctx.n(400, 8000)):
        it = rng.choice([-1, -1, 0, 1, 1, 2, 2, 3, 3, 4, 5, 6, 7])
        iv = rng.choice(STEPS + [7, 8, 9, 60, 60, 0]) if it <= 1 else rng.choice([1440, 44640, 60, 0])
        y = rng.choice([0, 2016, 2017, 2020, 2100, 2006, 1900, 4])
        y2 = y if rng.random() < 0.8 else rng.choice([0, 2016, 2017])
        m1, d1 = rng.choice([(1, 1), (2, 28), (2, 29), (12, 31), (7, 21), (rng.randint(0, 13), rng.randint(0, 32))])
        m2, d2 = rng.choice([(12, 31), (2, 28), (2, 29), (1, 1), (3, 1), (rng.randint(0, 13), rng.randint(0, 32))])
        e1 = rng.choice([1, 8])
        e2 = e1 if rng.random() < 0.7 else e1 + 1
        pr.append((y, m1, d1, iv, it, e1, y2, m2, d2, e2))
    ppath = os.path.join(_tmpdir(), 'pairs_%d.sql' % ctx.seed)
    if os.path.exists(ppath):
        os.remove(ppath)
    conn = sqlite3.connect(ppath)
    conn.execute(SCHEMA[2])
    conn.executemany('INSERT INTO Time VALUES (?,?,?,?,1,0,0,?,?,1,NULL,?,NULL)',
                     [(2 * i + 1, c[0], c[1], c[2], c[3], c[4], c[5]) for i, c in enumerate(pr)] +
                     [(2 * i + 2, c[6], c[7], c[8], c[3], c[4], c[9]) for i, c in enumerate(pr)])
    conn.commit()
    conn.close()
    sres = SQLiteResult(ppath)
    pidx = {c: i for i, c in enumerate(pr)}

    def impl_period(c):
        i = pidx[c]
        p, f, mult = sres._extract_run_period(2 * i + 1, 2 * i + 2)
        if p is None:
            ps = 'none'
        else:
            ps = '%s len %d doys %d months %d' % (_show_period(p), len(p), len(p.doys_int), len(p.months_int))
        return 'ok %s %d %s' % (f, 1 if mult else 0, ps)

    keep = []
    lines = ['period ' + ' '.join(map(str, c)) for c in pr]
    outs = ctx.driver().run(lines)
    for c, o in zip(pr, outs):
        if o != 'unmodelled':
            keep.append(c)
        else:
            ctx.count('period:unmodelled_skipped')
    for c in keep:
        ctx.count('period:itype=%d' % c[4])
    compare_batch(ctx, 'period', keep, lambda c: 'period ' + ' '.join(map(str, c)), impl_period)

    # --- whole queries on synthetic databases
    specs = fixed_specs() + [s for _, s in sorted(finding_specs().items())]
    for _ in range(ctx.n(40, 750)):
        specs.append(gen_spec(rng, big=not ctx.quick and rng.random() < 0.1))
    qall, qrp, qvals = [], [], []
    for s in specs:
        ctx.count('db:family=%s' % s['family'])
        ctx.count('db:envs=%d' % len(s['envs']))
        ctx.count('db:freqs=%s' % '+'.join(s['freqs']))
        ctx.count('db:leap' if calendar.isleap(s['year']) else 'db:nonleap')
        for o in s['outputs']:
            ctx.count('out:keys=%d' % len(o[4]))
            ctx.count('out:units=%s' % (o[2] or "''"))
            ctx.count('out:freq=%s' % o[3])
        for q in spec_queries(rng, s):
            qall.append({'db': s, 'q': q})
            for b in _branches(s, q, 'all'):
                ctx.count('branch:' + b)
            if rng.random() < 0.4:
                qvals.append({'db': s, 'q': q})
                for b in _branches(s, q, 'values'):
                    ctx.count('branch:' + b)
            if isinstance(q, str):
                envs = [e[0] for e in s['envs']]
                for e in envs + ([99] if rng.random() < 0.2 else []):
                    qrp.append({'db': s, 'q': q, 'env': e})
                    for b in _branches(s, q, 'run_period', e):
                        ctx.count('branch:' + b)
    # shipped files
    for f in SHIPPED:
        src = {'file': f}
        try:
            info = db_for(src)
        except Exception:
            ctx.count('shipped:unreadable')
            continue
        names = []
        for r in info['dict']:
            if r[3] not in names:
                names.append(r[3])
        pick = names if len(names) <= 4 else rng.sample(names, ctx.n(2, 6))
        for n in pick:
            qall.append({'db': src, 'q': n})
            ctx.count('shipped:queries')
        if len(names) > 1:
            same = [n for n in names if n != names[0]][:1]
            qall.append({'db': src, 'q': [names[0]] + same})
        envs = sorted(set(t[9] for t in info['time']))
        qrp.append({'db': src, 'q': pick[0], 'env': envs[-1]})
        qvals.append({'db': src, 'q': pick[0]})

    valmaps = {}

    def names_of(q):
        return [q] if isinstance(q, str) else list(q)

    def line_of(op):
        def f(c):
            dbl, vmap = _model_db_line(c['db'], names_of(c['q']))
            if vmap is not None:
                valmaps[id(c)] = vmap
            if op == 'qrp':
                return 'qrp %s %d %s' % (enc(c['q']), c['env'], dbl)
            return '%s %s %s' % (op, _query_tokens(c['q']), dbl)
        return f

    shape_turn = [0]

    def q_arg(q):
        # the model takes a list of names; the code is fed the same names as tuple, list, another
        # sequence type, and - a single name - as str subclass
        shape_turn[0] += 1
        shape = (['strsub', None, None] if isinstance(q, str) else STRICT_SHAPES)[shape_turn[0] % 3]
        ctx.count('shape:corr=%s' % (shape or 'str'))
        return _name_arg(q, {'as': shape})[0]

    def impl_qall(c):
        info = db_for(c['db'])
        res = SQLiteResult(info['path']).data_collections_by_output_name(q_arg(c['q']))
        return _show_result(res)

    def impl_qrp(c):
        info = db_for(c['db'])
        res = SQLiteResult(info['path']).data_collections_by_output_name_run_period(c['q'], c['env'])
        return _show_result(res)

    def impl_vals(c):
        info = db_for(c['db'])
        res = SQLiteResult(info['path']).values_by_output_name(q_arg(c['q']))
        return _norm_ws('ok ' + ' '.join(_fval(v) for v in res))

    shared_objs = {}

    def shared(c):
        path = db_for(c['db'])['path']
        if path not in shared_objs:
            shared_objs[path] = SQLiteResult(path)
        return shared_objs[path]

    def impl_hist(c):
        # the same requests, all sent to ONE SQLiteResult per database (the model is stateless)
        obj = shared(c)
        if 'env' in c:
            return _show_result(obj.data_collections_by_output_name_run_period(c['q'], c['env']))
        return _show_result(obj.data_collections_by_output_name(q_arg(c['q'])))

    def run_db_op(op, cases, impl):
        """Like compare_batch, but values of shipped files are mapped from rowids back to the stored
        floats on the model side (the model moved distinct ids; `J` columns are divided)."""
        lines = [line_of('qrp' if 'env' in c else 'qall' if op == 'qhist' else op)(c) for c in cases]
        outs = ctx.driver().run(lines)
        for c, line, mo in zip(cases, lines, outs):
            try:
                io = impl(c)
            except Exception as e:
                io = 'err:' + err_name(e)
            vmap = valmaps.get(id(c))
            if vmap is not None:
                def rep(m, vmap=vmap):
                    num = int(m.group(1))
                    den = int(m.group(2)) if m.group(2) else 1
                    if den == 1:
                        return _fval(vmap[num])
                    # id / 3600000 in lowest terms: recover the id, then divide the stored float
                    rid = num * (3600000 // den) if 3600000 % den == 0 else None
                    if rid is None or rid not in vmap:
                        return 'f?'
                    return _fval(vmap[rid] / 3600000.)
                mo2 = _norm_ws(_VTOK.sub(rep, mo))
            else:
                mo2 = _norm_ws(canon(mo))
            io2 = _norm_ws(io)
            ctx.compared += 1
            ctx.count('op:' + op)
            short = {'db': c['db'], 'q': c['q'], 'env': c.get('env')}
            ctx.case((op, json.dumps(short, sort_keys=True)), nontrivial=not io2.startswith('err:'))
            if io2.startswith('err:'):
                ctx.count('err_results')
                ctx.count('%s:%s' % (op, io2))
            elif io2.startswith('ok colls 0'):
                ctx.count('%s:empty' % op)
            if mo2 != io2:
                ctx.disagree(op, short, mo2[:600], io2[:600])
        if cases:
            ctx.sample({'op': op, 'request': lines[0][:300], 'model': outs[0][:300]})

    run_db_op('qall', qall, impl_qall)
    run_db_op('qrp', qrp, impl_qrp)
    run_db_op('vals', qvals, impl_vals)
    # request histories: the requests of the mixed-frequency databases again, shuffled, on one object each
    hist = [c for c in qall + qrp if ('file' in c['db'] and c['db']['file'] == 'eplusout_openstudio.sql') or
            (c['db'].get('family') in ('mixed1', 'mixedN', 'fixed') and len(c['db']['freqs']) > 1)]
    rng.shuffle(hist)
    hist = hist[:ctx.n(80, 2500)]
    run_db_op('qhist', hist, impl_hist)
    _hist_correspondence(ctx, [s for s in specs if s.get('nvals', 0) <= 4000 and not s.get('valmode')])


def _hist_line_and_steps(rng, spec):
    """A request history for the object state machine: driver tokens and the steps for the real object."""
    names = []
    for o in spec['outputs']:
        if o[0] not in names:
            names.append(o[0])
    envs = [e[0] for e in spec['envs']]
    stratum = rng.choice([None, None, 'refused-first', 'read-first', 'twice', 'frequency-twice', 'each-name'])
    steps = _history_steps(rng, names, envs, rng.randint(3, 8), stratum)
    toks = []
    for st in steps:
        i = st['inp']
        if st['op'] == 'collections':
            toks.append('qa ' + _query_tokens(i['q']))
        elif st['op'] == 'values':
            toks.append('qv ' + _query_tokens(i['q']))
        elif st['op'] == 'run_period':
            toks.append('qr %s %d' % (enc(i['q']), i['env']))
        elif st['op'] == 'read':
            toks.append({'available_outputs': 'ao', 'available_outputs_info': 'ai', 'reporting_frequency': 'rf',
                         'run_period_indices': 'ri'}[i['attr']])
        elif i['call'] == 'rp_absent_env':
            toks.append('qr %s %d' % (enc(i['q']), i['env']))
        else:
            toks.append('bad')
    return steps, 'hist %d %s' % (len(steps), ' '.join(toks))


def _canon_hist_step(tok_str):
    """Order-free parts (set iterations) are sorted; values become doubles."""
    t = tok_str.split()
    if t[:2] == ['ok', 'names'] or t[:2] == ['ok', 'infos']:
        return ' '.join(t[:3] + sorted(t[3:]))
    return _norm_ws(canon(tok_str))


def _impl_hist_step(obj, st):
    i = st['inp']
    if st['op'] == 'collections':
        q = i['q']
        arg = _name_arg(q, i)[0]
        r = _show_result(obj.data_collections_by_output_name(arg))
        return r if isinstance(arg, str) or list(arg) == list(q) else 'argument-changed %s' % arg
    if st['op'] == 'values':
        q = i['q']
        arg = _name_arg(q, i)[0]
        r = _norm_ws('ok ' + ' '.join(_fval(v) for v in obj.values_by_output_name(arg)))
        return r if isinstance(arg, str) or list(arg) == list(q) else 'argument-changed %s' % arg
    if st['op'] == 'run_period':
        return _show_result(obj.data_collections_by_output_name_run_period(i['q'], i['env']))
    if st['op'] == 'read':
        v = getattr(obj, i['attr'])
        if i['attr'] == 'available_outputs':
            return 'ok names %d %s' % (len(v), ' '.join(enc(x) for x in v))
        if i['attr'] == 'run_period_indices':
            return _norm_ws('ok ri %d %s' % (len(v), ' '.join(str(x) for x in v)))
        if i['attr'] == 'reporting_frequency':
            if v is None:
                return 'ok rf none'
            return 'ok rf steps %d' % v if isinstance(v, int) else 'ok rf label ' + enc(v)
        toks = []
        for d in v:
            dt = d['data_type']
            dtok = ('generic:' + enc(dt.name)) if type(dt).__name__ == 'GenericType' else 'base:' + enc(type(dt).__name__)
            toks.append('%s|%s|%s|%s' % (enc(d['output_name']), enc(d['object_type']), enc(d['units']), dtok))
        return 'ok infos %d %s' % (len(v), ' '.join(toks))
    # refused requests
    if i['call'] == 'rp_absent_env':
        return _show_result(obj.data_collections_by_output_name_run_period(i['q'], i['env']))
    if i['call'] == 'bad_type':
        r = getattr(obj, i.get('method', 'data_collections_by_output_name'))(i.get('arg', 5))
    elif i['call'] == 'quote_list':
        r = obj.data_collections_by_output_name(tuple(list(i['q']) + [BREAKING_NAME]))
    else:
        r = getattr(obj, i.get('attr', 'run_periods'))
    return 'accepted ' + str(r)[:80]


def _hist_correspondence(ctx, specs):
    """Object state machine vs one real SQLiteResult, step by step (driver op `hist`)."""
    from ladybug.sql import SQLiteResult
    rng = ctx.rng
    pick = list(specs)
    rng.shuffle(pick)
    fixed = [s for s in specs if s.get('family') in ('fixed', 'finding')]
    pick = fixed + [s for s in pick if s not in fixed][:ctx.n(36, 1200)]
    cases = []
    for s in pick:
        steps, head = _hist_line_and_steps(rng, s)
        cases.append((s, steps, head))
    lines = [head + ' ' + _model_db_line(s)[0] for s, steps, head in cases]
    outs = ctx.driver().run(lines)
    for (s, steps, head), mo in zip(cases, outs):
        msteps = mo.split(' ;; ')
        obj = SQLiteResult(db_for(s)['path'])
        labels = sorted(set(freq_label(s, o[3]) for o in s['outputs']))
        allowed = ['ok rf steps %d' % s['steps'] if 'Timestep' in l else 'ok rf label ' + enc(l) for l in labels]
        ctx.compared += 1
        ctx.count('op:hist')
        ctx.count('hist:steps', len(steps))
        short = {'db': s, 'steps': steps}
        bad = None
        if len(msteps) != len(steps):
            bad = (-1, mo[:300], 'history of %d steps' % len(steps))
        for k, (st, m) in enumerate(zip(steps, msteps)):
            if bad:
                break
            try:
                io = _impl_hist_step(obj, st)
            except Exception as e:
                io = 'err:' + err_name(e)
            refused_kind = st['op'] == 'refused' and st['inp']['call'] != 'rp_absent_env'
            if refused_kind:
                # the model's `malformed` request: all that matters is that the code refuses it too
                m2, io2 = ('refused', 'refused') if io.startswith('err:') else ('refused', io)
            else:
                m2, io2 = _canon_hist_step(m), _canon_hist_step(io)
                if m2.endswith(' ambiguous'):
                    # several frequency labels: the answer follows a set iteration; any label of the file
                    m2 = io2 if io2 in allowed else 'one of ' + ' / '.join(allowed)
            ctx.count('hist:step=' + (st['inp'].get('attr') or st['inp'].get('call') or st['op']))
            if m2 != io2:
                bad = (k, m2[:400], io2[:400])
        ctx.case(('hist', json.dumps(short, sort_keys=True)), nontrivial=True)
        if bad:
            ctx.disagree('hist', dict(short, step=bad[0]), bad[1], bad[2])
    if cases:
        ctx.sample({'op': 'hist', 'request': lines[0][:300], 'model': outs[0][:300]})


# ---------------------------------------------------------------------------------------------
# property oracle: direct SELECTs per key and run period, independent of the model


def _leap_rule(year):
    return bool(year) and year % 4 == 0


def _doy(leap, month, day):
    return date(2016 if leap else 2017, month, day).timetuple().tm_yday


def _expected_groups(path, names):
    """{frequency label: [descriptor]} from direct SELECTs.  A descriptor describes the collection the
    property demands for one (run period, key); annual/run-period frequencies give ('annual', values)."""
    conn = sqlite3.connect(path)
    c = conn.cursor()
    if not names:
        conn.close()
        return {}, []
    c.execute('SELECT ReportDataDictionaryIndex, IndexGroup, KeyValue, Name, ReportingFrequency, Units FROM '
              'ReportDataDictionary WHERE Name IN (%s) ORDER BY ReportDataDictionaryIndex'
              % ','.join('?' * len(names)), list(names))
    hdr = c.fetchall()
    groups = {}
    order = []
    for h in hdr:
        if h[4] not in groups:
            groups[h[4]] = []
            order.append(h[4])
        c.execute('SELECT rd.Value, t.Year, t.Month, t.Day, t.Interval, t.IntervalType, t.EnvironmentPeriodIndex '
                  'FROM ReportData rd INNER JOIN Time t ON rd.TimeIndex = t.TimeIndex '
                  'WHERE rd.ReportDataDictionaryIndex = ? ORDER BY rd.TimeIndex', (h[0],))
        rows = c.fetchall()
        envs = []
        for r in rows:
            if not envs or envs[-1][0] != r[6]:
                envs.append([r[6], []])
            envs[-1][1].append(r)
        for env, rs in envs:
            first, last = rs[0], rs[-1]
            itype = first[5]
            vals = [r[0] for r in rs]
            d = {'env': env, 'name': h[3], 'key': h[2], 'units': h[5], 'raw': vals, 'itype': itype,
                 'dict': h[0], 'leap_known': bool(last[1]),
                 # leap flags the years of ALL rows of this key stand for (Year 0 = design day: no year)
                 'leap_file': sorted(set(_leap_rule(r[1]) for r in rows if r[1]))}
            if h[5] == 'J':
                d['unit'] = 'kWh'
                d['values'] = [v / 3600000. for v in vals]
            else:
                d['unit'] = h[5]
                d['values'] = vals
            if itype >= 4:
                d['cls'] = 'annual'
            else:
                leap = _leap_rule(last[1])
                if itype <= 1:
                    d['cls'] = 'HourlyContinuous'
                    ts = 60 // first[4]
                    d['period'] = (first[2], first[3], 0, last[2], last[3], 23, ts, leap)
                    d['dts'] = None
                elif itype == 2:
                    d['cls'] = 'Daily'
                    d['period'] = (first[2], first[3], 0, last[2], last[3], 23, 1, leap)
                    d['dts'] = [_doy(leap, r[2], r[3]) for r in rs]
                    d['md'] = [(r[2], r[3]) for r in rs]
                else:
                    d['cls'] = 'Monthly'
                    d['period'] = (first[2], 1, 0, last[2], last[3], 23, 1, leap)
                    d['dts'] = [r[2] for r in rs]
            groups[h[4]].append(d)
    conn.close()
    return groups, order


def _describe(coll):
    h = coll.header
    a = h.analysis_period
    md = h.metadata
    keys = [v for k, v in md.items() if k != 'type']
    kind = type(coll).__name__.replace('Collection', '')
    return {'cls': kind, 'unit': h.unit, 'name': md.get('type'), 'key': keys[0] if len(keys) == 1 else keys,
            'period': (a.st_month, a.st_day, a.st_hour, a.end_month, a.end_day, a.end_hour, a.timestep,
                       bool(a.is_leap_year)),
            'values': list(coll.values),
            'dts': None if kind == 'HourlyContinuous' else [int(x) for x in coll.datetimes],
            'dtype': type(h.data_type).__name__, 'dtype_name': getattr(h.data_type, 'name', None)}


def _close(a, b, exact):
    if len(a) != len(b):
        return False
    for x, y in zip(a, b):
        if x != y and (exact or abs(x - y) > 1e-12 * max(abs(x), abs(y))):
            return False
    return True


def _cmp_colls(got, want, single_env=False):
    """None if the collection lists agree (as sets of (period, name, key) -> data), else (kind, detail).
    Leap flag: an environment with a year carries that year's flag.  A design day (Year 0) names no year:
    its period is a common-year period, or - when the request spans environments that do name a year
    (`single_env` false) - a period of that year (the all-periods query gives every period of one file
    the same flag).  Never a leap period out of nothing."""
    if len(got) != len(want):
        return 'count', 'collections: got %d, want %d' % (len(got), len(want))
    gk = sorted(got, key=lambda d: (d['period'][:7], str(d['name']), str(d['key'])))
    wk = sorted(want, key=lambda d: (d['period'][:7], str(d['name']), str(d['key'])))
    for g, w in zip(gk, wk):
        if g['period'][:7] != w['period'][:7] or (w['leap_known'] and g['period'] != w['period']):
            return 'period', 'period %s, want %s (key %s)' % (g['period'], w['period'], w['key'])
        if not w['leap_known']:
            allowed = {False} | (set() if single_env else set(w.get('leap_file', [])))
            if g['period'][7] not in allowed:
                return 'leap_flag', ('period %s of a design day (Year 0 in the Time table) is flagged leap=%s; the '
                                     'years of the rows allow %s (key %s)'
                                     % (g['period'][:7], g['period'][7], sorted(allowed), w['key']))
        if (g['name'], g['key']) != (w['name'], w['key']):
            return 'label', 'label %s/%s, want %s/%s' % (g['name'], g['key'], w['name'], w['key'])
        if g['cls'] != w['cls']:
            return 'class', 'class %s, want %s' % (g['cls'], w['cls'])
        if w['units'] != '' and g['unit'] != w['unit']:
            return 'unit', 'unit %r, want %r (%s/%s)' % (g['unit'], w['unit'], w['name'], w['key'])
        if w['units'] == 'J' and g['dtype'] != 'Energy':
            return 'unit', 'data type %s for J' % g['dtype']
        if w['units'] == '' and g['unit'] not in ('', 'fraction'):
            return 'unit', 'unit %r for an output without unit (%s/%s)' % (g['unit'], w['name'], w['key'])
        # the data type follows the DATABASE unit alone (only plain J becomes another unit): a table unit has
        # its base type, a unit ladybug does not know a generic type named after the output
        t = unit_type(w['units'])
        if t is not None and g['dtype'] != t:
            return 'unit', 'data type %s for unit %r, want %s (%s/%s)' % (g['dtype'], w['units'], t, w['name'], w['key'])
        if t is None and (g['dtype'] != 'GenericType' or g.get('dtype_name') != w['name']):
            return 'unit', 'data type %s (%s) for the unknown unit %r, want a generic type named %r' % (
                g['dtype'], g.get('dtype_name'), w['units'], w['name'])
        if not _close(g['values'], w['values'], exact=w['units'] != 'J'):
            return 'values', 'values of %s/%s env %s: got %s..., want %s...' % (
                w['name'], w['key'], w['env'], g['values'][:4], w['values'][:4])
        wd = w['dts']
        if wd is not None and not w['leap_known'] and w['cls'] == 'Daily':
            wd = [_doy(g['period'][7], r[0], r[1]) for r in w['md']]
        if wd is not None and g['dts'] != wd:
            return 'datetimes', 'datetimes %s..., want %s...' % (g['dts'][:5], w['dts'][:5])
    return None


def _facts(src, groups, order, names):
    """Facts that characterise the input (for failure signatures)."""
    nenv = 0
    nkeys = 0
    units = set()
    freqs = set()
    for f in order:
        for d in groups[f]:
            units.add(d['units'])
        nenv = max(nenv, len(set(d['env'] for d in groups[f])))
        nkeys = max(nkeys, len(set(d['dict'] for d in groups[f])))
        freqs.add(f)
    conn = sqlite3.connect(db_for(src)['path'])
    c = conn.cursor()
    c.execute('SELECT COUNT(DISTINCT IntervalType) FROM Time')
    ntypes = c.fetchone()[0]
    c.execute('SELECT EnvironmentPeriodIndex, IntervalType, Month, Day FROM Time ORDER BY TimeIndex')
    rows = c.fetchall()
    conn.close()
    # 29 Feb as the first or last day of an environment's rows (what the code builds dates from)
    ends = {}
    for r in rows:
        for k in ((r[0], None), (r[0], r[1])):
            if k not in ends:
                ends[k] = [r, r]
            ends[k][1] = r
    feb29 = any((a[2], a[3]) == (2, 29) or (b[2], b[3]) == (2, 29) for a, b in ends.values())
    annual = any(d['itype'] >= 4 for f in order[:1] for d in groups[f])
    differ = False
    for f in order[:1]:
        for it in set(d['itype'] for d in groups[f]):
            for (env, typ), (a, b) in ends.items():
                if typ == it:
                    a0, b0 = ends[(env, None)]
                    if (a0[2] != a[2]) or (it != 3 and a0[3] != a[3]) or (b0[2], b0[3]) != (b[2], b[3]):
                        differ = True
    return {'multi_env': nenv > 1, 'single_key': nkeys == 1, 'mixed_units': len(units) > 1,
            'unit_classes': '+'.join(sorted(set(unit_class(u) for u in units))),
            'mixed_time_table': ntypes > 1, 'feb29_boundary': feb29, 'annual': annual,
            'env_ends_differ_by_frequency': differ}


class _Seq(object):
    """A sequence that is neither list nor tuple (len, index, iteration): `array of output names`."""

    def __init__(self, items):
        self._items = tuple(items)

    def __len__(self):
        return len(self._items)

    def __getitem__(self, i):
        return self._items[i]

    def __iter__(self):
        return iter(self._items)

    def __eq__(self, other):
        return isinstance(other, _Seq) and other._items == self._items

    def __repr__(self):         # formatted into SQL text only through tuple(...)
        return '_Seq%r' % (self._items,)


class _Str(str):
    """A str subclass (what GUI layers hand over)."""


STRICT_SHAPES = ['tuple', 'list', 'seq']            # documented: a name or an array of names
LENIENT_SHAPES = ['gen', 'iter', 'map', 'set', 'dictkeys', 'dict']     # refuse, or answer right
ENV_SHAPES = ['str', 'float', 'strpad']             # a run-period index as text / float: refuse, or answer right


def _name_arg(q, inp):
    """(argument handed to the code, lenient?) for the request shape `inp['as']`."""
    shape = inp.get('as') or ('list' if inp.get('as_list') else None)
    if isinstance(q, str):
        return (_Str(q) if shape == 'strsub' else q), False
    q = list(q or [])
    if shape in (None, 'tuple'):
        return tuple(q), False
    if shape == 'list':
        return list(q), False
    if shape == 'seq':
        return _Seq(q), False
    if shape == 'gen':
        return (n for n in q), True
    if shape == 'iter':
        return iter(q), True
    if shape == 'map':
        return map(str, q), True
    if shape == 'set':
        return set(q), True
    if shape == 'dictkeys':
        return dict((n, i) for i, n in enumerate(reversed(q))).keys(), True
    if shape == 'dict':
        return dict((n, i) for i, n in enumerate(reversed(q))), True
    raise ValueError('unknown shape %r' % shape)


def _env_arg(inp):
    env, shape = inp['env'], inp.get('env_as')
    if shape == 'str':
        return str(env), True
    if shape == 'float':
        return float(env), True
    if shape == 'strpad':
        return ' %d' % env, True
    return env, False


_SHARED = {}        # path -> SQLiteResult used by every request of the history under evaluation
_HIST_READS = {}    # (path, attr) -> first answer of that property read in the history under evaluation

# unit -> ladybug base data type, written down from the EnergyPlus units this module generates
# (independent of ladybug.datatype.UNITS; None = a unit ladybug does not know: GenericType, unit kept)
UNIT_TYPE = {'J': 'Energy', 'kWh': 'Energy', 'C': 'Temperature', 'W': 'Power', '%': 'Fraction', '': 'Fraction',
             'W/m2': 'EnergyFlux', 'm3/s': 'VolumeFlowRate', 'kg/s': 'MassFlowRate', 'Pa': 'Pressure',
             'lux': 'Illuminance', 'hr': 'Time', 'W/m2-K': 'UValue', 'ach': None, 'ppm': None}
BREAKING_NAME = 'a\'b"c'     # formatted into the IN (...) text it breaks the statement: sqlite refuses
SUMMARY_ATTRS = ['run_periods', 'run_period_names']     # from the summary reports (shipped files only)
READ_ATTRS = ['available_outputs', 'available_outputs_info', 'reporting_frequency', 'run_period_indices']


def _freeze(x):
    """A comparable, printable image of a property value."""
    if isinstance(x, dict):
        return sorted((k, type(v).__name__ if hasattr(v, 'units') and not isinstance(v, str) else _freeze(v))
                      for k, v in x.items())
    if isinstance(x, (list, tuple)):
        return sorted((_freeze(v) for v in x), key=repr)
    return x


def _check_read(path, attr, fail):
    """A property read against direct SELECTs."""
    conn = sqlite3.connect(path)
    c = conn.cursor()
    c.execute('SELECT DISTINCT Name, IndexGroup, Units, ReportingFrequency FROM ReportDataDictionary')
    tuples = c.fetchall()
    c.execute('SELECT DISTINCT EnvironmentPeriodIndex FROM Time ORDER BY 1')
    envs = [r[0] for r in c.fetchall()]
    c.execute('SELECT Interval FROM Time ORDER BY TimeIndex LIMIT 1')
    first = c.fetchone()
    summary = None
    if attr in SUMMARY_ATTRS:
        try:        # the 'Environment' table of the summary reports, read by column name
            c.execute("SELECT RowName, ColumnName, Value FROM TabularDataWithStrings WHERE TableName='Environment'")
            rows = {}
            for rn, cn, v in c.fetchall():
                rows.setdefault(rn, {})[cn] = v
            summary = []
            for rn, cols in rows.items():
                st = [int(x) for x in cols['Start Date'].split('/')]
                en = [int(x) for x in cols['End Date'].split('/')]
                summary.append((cols.get('Environment Name'),
                                (st[0], st[1], 0, en[0], en[1], 23, len(st) == 3 and st[2] % 4 == 0)))
        except Exception:
            summary = None
    conn.close()
    obj = _sql(path)
    try:
        got = getattr(obj, attr)
    except Exception as e:
        if attr in SUMMARY_ATTRS and not summary:
            return None         # the file has no such summary table: nothing to read
        return fail('exception', attr, '%s raises %s: %s' % (attr, type(e).__name__, e), exc=type(e).__name__,
                    attr=attr)
    res = None
    if attr in SUMMARY_ATTRS:
        if summary:
            if attr == 'run_period_names':
                want, gl = [x[0] for x in summary], list(got)
            else:
                want = [x[1] for x in summary]
                gl = [(a.st_month, a.st_day, a.st_hour, a.end_month, a.end_day, a.end_hour, bool(a.is_leap_year))
                      for a in got]
            if gl != want:
                res = fail('read', 'the environments of the summary table: %s' % want[:4], 'got %s' % gl[:4], attr=attr)
        got = [str(x) for x in got]
    elif attr == 'available_outputs':
        want = sorted(t[0] for t in tuples)
        if sorted(got) != want:
            res = fail('read', 'one name per distinct dictionary output: %s' % want[:6], 'got %s' % sorted(got)[:6],
                       attr=attr)
    elif attr == 'run_period_indices':
        if list(got) != envs:
            res = fail('read', 'environment indices of the Time table %s' % envs, 'got %s' % (list(got),), attr=attr)
    elif attr == 'reporting_frequency':
        allowed = []
        for t in tuples:
            if 'Timestep' in t[3]:
                allowed.append(int(60 // first[0]) if first and first[0] else None)
            else:
                allowed.append(t[3])
        if not tuples:
            allowed = [None]
        if got not in allowed or isinstance(got, bool):
            res = fail('read', 'a reporting frequency of the dictionary: one of %s' % sorted(set(map(str, allowed))),
                       'got %r' % (got,), attr=attr)
    else:
        want = []
        for t in tuples:
            unit = 'kWh' if t[2] == 'J' else ('fraction' if t[2] == '' else t[2])
            want.append((t[0], t[1], unit, unit_type(t[2])))
        gl = []
        for d in got:
            dt = d.get('data_type')
            gl.append((d.get('output_name'), d.get('object_type'), d.get('units'), type(dt).__name__,
                       getattr(dt, 'name', None)))
        if sorted(g[:3] for g in gl) != sorted(w[:3] for w in want):
            res = fail('read', 'name, object type and unit (J as kWh) of every dictionary output: %s'
                       % sorted(w[:3] for w in want)[:4], 'got %s' % sorted(g[:3] for g in gl)[:4], attr=attr)
        else:
            wt = {}
            for w in want:
                wt.setdefault(w[:3], w[3])
            for g in gl:
                t = wt[g[:3]]
                if t == '?':
                    continue
                if (t is None and (g[3] != 'GenericType' or g[4] != g[0])) or (t is not None and g[3] != t):
                    res = fail('unit', 'data type %s for unit %r of %s' % (t or 'GenericType named after the output',
                                                                            g[2], g[0]),
                               'got %s (%s)' % (g[3], g[4]), attr=attr)
                    break
    if res is None and path in _SHARED:
        img = _freeze(got)
        first_img = _HIST_READS.setdefault((path, attr), img)
        if first_img != img:
            res = fail('read_changed', '%s answers the same along a history on one object' % attr,
                       'first %s, now %s' % (str(first_img)[:120], str(img)[:120]), attr=attr)
    return res


def _check_refused(path, inp, fail):
    """A request the code refuses (or answers with nothing).  Whatever it does, it must not hand out
    data the database does not hold for that request; the steps that follow it in a history are
    checked by the ordinary oracle."""
    call = inp['call']
    if call not in ('rp_absent_env', 'bad_type', 'quote_list', 'summary_table'):
        raise ValueError('unknown refused call ' + call)
    obj = _sql(path)
    q = inp.get('q')
    try:
        if call == 'rp_absent_env':
            r = obj.data_collections_by_output_name_run_period(q, inp['env'])
        elif call == 'bad_type':
            r = getattr(obj, inp.get('method', 'data_collections_by_output_name'))(inp.get('arg', 5))
        elif call == 'quote_list':
            r = obj.data_collections_by_output_name(tuple(list(q) + [BREAKING_NAME]))
        else:
            getattr(obj, inp.get('attr', 'run_periods'))
            return None     # summary tables are not part of the property: only the later steps matter
    except Exception:
        return None         # refused: fine
    if call == 'quote_list':
        return check_case('collections', {'db': inp['db'], 'q': list(q) + [BREAKING_NAME]})
    if r is None or list(r) == []:
        return None
    return fail('refused', 'nothing (or an error) for %s' % call,
                '%s returned %d items: %s' % (call, len(r), str(r)[:100]), call=call)


def _sql(path):
    """The object a request is sent to: a fresh SQLiteResult, or the shared one of a request history."""
    from ladybug.sql import SQLiteResult
    if path in _SHARED:
        return _SHARED[path]
    return SQLiteResult(path)


def _snap(res):
    """A comparable image of an answer (collections described field by field; value lists copied)."""
    if isinstance(res, list) and res and all(hasattr(x, 'header') for x in res):
        out = []
        for x in res:
            d = _describe(x)
            d['meta'] = sorted((str(k), str(v)) for k, v in x.header.metadata.items())
            out.append(d)
        return out
    return [float(v) for v in res]


def _check_alias(inp, fail):
    """The answers belong to the caller.  One request is asked twice on one object and once on a second
    object of the same file (three answers are kept); then the FIRST answer is edited in place - the label
    and a note in the metadata of its first collection, that collection's values, finally the list
    itself.  Required: every OTHER collection of that answer, the answer kept from before, the other
    object's answer and a new answer are still what they were - and the new answer is still the
    database rows (ordinary oracle on the same object)."""
    from ladybug.sql import SQLiteResult
    src = inp['db']
    path = db_for(src)['path']
    q = inp['q']
    method = inp.get('method', 'all')
    env = inp.get('env')

    def call(o):
        if method == 'run_period':
            return o.data_collections_by_output_name_run_period(q, env)
        arg = _name_arg(q, inp)[0]
        return o.values_by_output_name(arg) if method == 'values' else o.data_collections_by_output_name(arg)

    obj, obj2 = SQLiteResult(path), SQLiteResult(path)
    try:
        r1, r2, r3 = call(obj), call(obj), call(obj2)
        s1, s2, s3 = _snap(r1), _snap(r2), _snap(r3)
    except Exception:
        return None         # reported by the ordinary ops
    if s1 != s2 or s1 != s3:
        return fail('repeat', 'the same request answered the same twice on one object and on a second object',
                    'answers differ: %s | %s | %s' % (str(s1)[:80], str(s2)[:80], str(s3)[:80]), method=method,
                    what='second_object' if s1 == s2 else 'second_call')
    colls = bool(s1) and isinstance(s1[0], dict)
    if colls:
        c = r1[0]
        md = c.header.metadata
        for k in list(md):
            md[k] = 'EDITED BY THE CALLER'
        md['note'] = 'checked'
        try:
            c.values = [v + 1.5 for v in c.values]
        except Exception:
            pass
        now = _snap(r1[1:])
        victims = [i + 1 for i, (a, b) in enumerate(zip(now, s1[1:])) if a != b]
        if victims:
            v = victims[0]
            shared = 'metadata' if now[v - 1]['meta'] != s1[v]['meta'] else 'values'
            return fail('alias', 'collection %d of the answer keeps label %s and its values after the caller '
                        'edited collection 0' % (v, s1[v]['meta']),
                        'collections %s changed; collection %d is now labelled %s, values %s...'
                        % (victims[:6], v, now[v - 1]['meta'], now[v - 1]['values'][:3]),
                        method=method, what='within_answer', shared=shared,
                        same_key_other_period=all((s1[i]['name'], s1[i]['key']) == (s1[0]['name'], s1[0]['key'])
                                                  for i in victims))
    del r1[:]
    for tag, r, sn in (('earlier_answer', r2, s2), ('other_object', r3, s3)):
        if _snap(r) != sn:
            return fail('alias', 'the %s is unchanged by an edit of another answer' % tag.replace('_', ' '),
                        'it changed to %s' % str(_snap(r))[:160], method=method, what=tag)
    try:
        s4 = _snap(call(obj))
    except Exception as e:
        return fail('alias', 'the request is answered again after an edit of its earlier answer',
                    'raises %s: %s' % (type(e).__name__, e), method=method, what='later_call')
    if s4 != s1:
        return fail('alias', 'a new answer equals the first one (before the caller edited that)',
                    'new answer %s, first %s' % (str(s4)[:100], str(s1)[:100]), method=method, what='later_call')
    # and the object still answers with the database rows
    op = {'all': 'collections', 'run_period': 'run_period', 'values': 'values'}[method]
    _SHARED.clear()
    _SHARED[path] = obj
    try:
        res = check_case(op, dict(inp))
    finally:
        _SHARED.clear()
    if res:
        res = dict(res, sig=dict(res.get('sig') or {}, after_edit=True))
    return res


def _check_history(inp):
    """A sequence of requests on ONE SQLiteResult: every answer must equal the database rows exactly as
    for a fresh object (the single-request oracle is evaluated on the shared object, step by step)."""
    from ladybug.sql import SQLiteResult
    src = inp['db']
    path = db_for(src)['path']
    _SHARED.clear()
    _HIST_READS.clear()
    _SHARED[path] = SQLiteResult(path)
    try:
        for i, st in enumerate(inp['steps']):
            sub = dict(st['inp'], db=src)
            res = check_case(st['op'], sub)
            if res:
                shared = _SHARED.pop(path)
                fresh = check_case(st['op'], sub)          # same request on a fresh object
                _SHARED[path] = shared
                sig = dict(res.get('sig') or {})
                sig.update({'step': i, 'inner_op': st['op'], 'fresh_object_ok': fresh is None})
                return {'required': 'step %d (%s %s): %s' % (i, st['op'], json.dumps(st['inp'])[:120],
                                                            res.get('required')),
                        'observed': '%s  [same request on a fresh object: %s]'
                                    % (res.get('observed'), 'ok' if fresh is None else 'fails too'),
                        'sig': sig}
    finally:
        _SHARED.clear()
        _HIST_READS.clear()
    return None


def check_case(op, inp):
    if op == 'history':
        return _check_history(inp)
    if op == 'process':
        return _check_process(inp)
    src = inp['db']
    info = db_for(src)
    path = info['path']
    q = inp.get('q')
    names = [q] if isinstance(q, str) else list(q or [])
    lenient = False
    if op in ('collections', 'values', 'absent', 'run_period'):
        arg, lenient = _name_arg(q, inp)
    if op in ('read', 'refused'):
        names = []
    groups, order = _expected_groups(path, names)
    facts = _facts(src, groups, order, names)

    def fail(kind, required, observed, **extra):
        sig = {'kind': kind}
        sig.update(facts)
        sig.update(extra)
        if 'exc_obj' in sig:
            sig['msg'] = ' '.join(re.sub(r'[^A-Za-z_ ]+', ' ', str(sig.pop('exc_obj'))).split('Got')[0].split())[:48]
        return {'required': required, 'observed': observed, 'sig': sig}

    if op == 'read':
        return _check_read(path, inp['attr'], fail)
    if op == 'refused':
        return _check_refused(path, inp, fail)
    if op == 'alias':
        return _check_alias(inp, fail)

    if op == 'absent':
        for meth in ('data_collections_by_output_name', 'values_by_output_name'):
            try:
                r = getattr(_sql(path), meth)(_name_arg(q, inp)[0])     # a fresh argument per call
            except Exception as e:
                if lenient:
                    continue
                return fail('exception', '[]', '%s raises %s: %s' % (meth, type(e).__name__, e), exc=type(e).__name__, exc_obj=e)
            if list(r) != []:
                return fail('absent', '[]', '%s returned %d items' % (meth, len(r)))
        if isinstance(q, str):
            try:
                r = _sql(path).data_collections_by_output_name_run_period(q, inp.get('env', 1))
            except Exception as e:
                return fail('exception', '[]', 'run_period raises %s: %s' % (type(e).__name__, e),
                            exc=type(e).__name__, exc_obj=e)
            if list(r) != []:
                return fail('absent', '[]', 'run_period returned %d items' % len(r))
        return None

    if op == 'collections':
        if not order:
            return check_case('absent', inp)
        try:
            res = _sql(path).data_collections_by_output_name(arg)
            if isinstance(arg, list) and arg != names:
                return fail('argument', 'the caller\'s name list stays %s' % names, 'it is now %s' % arg)
        except Exception as e:
            if lenient:
                return None     # an undocumented container is refused: fine (never wrong data)
            freq = order[0]
            return fail('exception', 'collections of %s' % names, 'raises %s: %s' % (type(e).__name__, e),
                        exc=type(e).__name__, exc_obj=e, freq=freq, method='all')
        if lenient and isinstance(res, list) and res == []:
            return None
        problems = []
        for f in order:                 # the frequency policy is the code's: accept any single one
            want = groups[f]
            if want and want[0]['cls'] == 'annual':
                if not (isinstance(res, list) and all(isinstance(v, float) for v in res)):
                    problems.append((f, ('class', 'annual data must come back as values')))
                    continue
                w = [d['values'][0] for d in want]
                if sorted(res) != sorted(w) and not _close(sorted(res), sorted(w), False):
                    # annual results carry no unit label: a unit mistake of a mixed-unit name list can
                    # only show in the values
                    problems.append((f, ('unit' if facts['mixed_units'] else 'values',
                                         'annual values %s, want %s' % (res[:4], w[:4]))))
                    continue
                return None
            if not (isinstance(res, list) and all(hasattr(x, 'header') for x in res)):
                problems.append((f, ('class', 'expected collections')))
                continue
            r = _cmp_colls([_describe(x) for x in res], want)
            if r is None:
                return None
            problems.append((f, r))
        f, (kind, detail) = problems[0]
        return fail(kind, 'per key and run period the rows of the database (frequency %s)' % f, detail,
                    freq=f, method='all')

    if op == 'run_period':
        env = inp['env']
        if not order:
            return check_case('absent', inp)
        envarg, env_lenient = _env_arg(inp)
        try:
            res = _sql(path).data_collections_by_output_name_run_period(arg, envarg)
        except Exception as e:
            if env_lenient:
                return None     # a run-period index that is not an integer is refused: fine
            return fail('exception', 'collections of %s for run period %s' % (q, env),
                        'raises %s: %s' % (type(e).__name__, e), exc=type(e).__name__, exc_obj=e, freq=order[0],
                        method='run_period')
        if env_lenient and isinstance(res, list) and res == []:
            return None
        problems = []
        for f in order:
            want = [d for d in groups[f] if d['env'] == env]
            if want and want[0]['cls'] == 'annual':
                if not (isinstance(res, list) and all(isinstance(v, float) for v in res)):
                    problems.append((f, ('class', 'annual data must come back as values')))
                    continue
                w = [d['values'][0] for d in want]
                if _close(sorted(res), sorted(w), False):
                    return None
                problems.append((f, ('values', 'annual values %s, want %s' % (res[:4], w[:4]))))
                continue
            if not (isinstance(res, list) and all(hasattr(x, 'header') for x in res)):
                problems.append((f, ('class', 'expected collections')))
                continue
            got = [_describe(x) for x in res]
            r = _cmp_colls(got, want, single_env=True)
            if r is None:
                # one run period == the slice of all (when asking for all succeeds)
                try:
                    allres = _sql(path).data_collections_by_output_name(q)
                except Exception:
                    return None     # reported by op `collections`
                if isinstance(allres, list) and all(hasattr(x, 'header') for x in allres):
                    envs_in_order = []
                    for d in groups[f]:
                        if d['env'] not in envs_in_order:
                            envs_in_order.append(d['env'])
                    envs_in_order.sort(key=lambda e: min(i for i, d in enumerate(groups[f]) if d['env'] == e))
                    first_rows = {}
                    conn = sqlite3.connect(path)
                    c = conn.cursor()
                    c.execute('SELECT EnvironmentPeriodIndex, MIN(TimeIndex) FROM Time GROUP BY 1 ORDER BY 2')
                    env_order = [r[0] for r in c.fetchall() if r[0] in envs_in_order]
                    conn.close()
                    nk = len(got)
                    j = env_order.index(env)
                    sl = [_describe(x) for x in allres][j * nk:(j + 1) * nk]
                    if len(allres) == nk * len(env_order):
                        if [(d['key'], d['values'], d['period'][:7]) for d in sl] != \
                                [(d['key'], d['values'], d['period'][:7]) for d in got]:
                            return fail('slice', 'one run period == slice of all',
                                        'slice of all has %d collections, run-period query %d (or other data)'
                                        % (len(sl), len(got)), freq=f, method='run_period')
                        lab = lambda d: (d['key'], d['name'], d['cls'], d['unit'], d['dtype'], d.get('dtype_name'))
                        if [lab(d) for d in sl] != [lab(d) for d in got]:
                            return fail('slice', 'one run period == slice of all (class, unit and data type too)',
                                        'slice of all is labelled %s, the run-period answer %s'
                                        % ([lab(d) for d in sl][:2], [lab(d) for d in got][:2]), freq=f,
                                        method='run_period', unit_class=unit_class(want[0]['units']))
                return None
            problems.append((f, r))
        f, (kind, detail) = problems[0]
        return fail(kind, 'rows of run period %s (frequency %s)' % (env, f), detail, freq=f, method='run_period')

    if op == 'values':
        try:
            res = _sql(path).values_by_output_name(arg)
            if isinstance(arg, list) and arg != names:
                return fail('argument', 'the caller\'s name list stays %s' % names, 'it is now %s' % arg)
        except Exception as e:
            if lenient:
                return None
            return fail('exception', 'values', 'raises %s: %s' % (type(e).__name__, e), exc=type(e).__name__, exc_obj=e)
        if lenient and list(res) == []:
            return None
        for f in order:
            # per time index the rows of all keys of the frequency, any order inside one time index
            conn = sqlite3.connect(path)
            c = conn.cursor()
            idx = sorted(set(d['dict'] for d in groups[f]))
            c.execute('SELECT TimeIndex, Value FROM ReportData WHERE ReportDataDictionaryIndex IN (%s) '
                      'ORDER BY TimeIndex' % ','.join(map(str, idx)))
            rows = c.fetchall()
            conn.close()
            if len(rows) != len(res):
                continue
            pos = 0
            ok = True
            i = 0
            while i < len(rows):
                j = i
                while j < len(rows) and rows[j][0] == rows[i][0]:
                    j += 1
                if sorted(r[1] for r in rows[i:j]) != sorted(res[i:j]):
                    ok = False
                    break
                i = j
            if ok:
                return None
        if not order and list(res) == []:
            return None
        return fail('values', 'all values of the output in time order', '%d values %s...' % (len(res), res[:4]))
    raise ValueError('unknown op ' + op)


replay = check_case


# ---------------------------------------------------------------------------------------------
# process-order independence: the same cases in a fresh Python process, in another order

_WORKER = ('import sys, json; sys.path.insert(0, %r); from harness import core; sys.path.insert(0, core.REPO); '
           'from harness.props import c19; c19._worker_main()')


def _worker_main():
    """Runs in the subprocess: evaluate the (op, input) pairs read from stdin in the given order."""
    import sys
    order = json.load(sys.stdin)
    out = []
    for op, inp in order:
        try:
            r = check_case(op, inp)
        except Exception as e:
            r = {'required': 'oracle evaluates', 'observed': 'exception %s: %s' % (type(e).__name__, e),
                 'sig': {'exception': type(e).__name__}}
        out.append(r)
    sys.stdout.write('\n@@RESULT@@' + json.dumps(out, default=str))


def _run_in_fresh_process(order, hashseed=0):
    import subprocess
    import sys
    env = dict(os.environ, LADYBUG_REPO=core.REPO, PYTHONHASHSEED=str(hashseed))
    p = subprocess.run([sys.executable, '-c', _WORKER % core.ROOT], input=json.dumps(order).encode(),
                       stdout=subprocess.PIPE, stderr=subprocess.PIPE, env=env, timeout=600)
    txt = p.stdout.decode('utf-8', 'replace')
    if '@@RESULT@@' not in txt:
        raise RuntimeError('worker failed: ' + p.stderr.decode('utf-8', 'replace')[-600:])
    return json.loads(txt.split('@@RESULT@@')[1])


def _check_process(inp):
    """`order`: (op, input) pairs evaluated one after the other in ONE fresh Python process.  Every
    case must hold there as it does alone: class- and module-level state must not carry anything from
    one file / request to the next."""
    order = [list(x) for x in inp['order']]
    hs = inp.get('hashseed', 0)
    res = _run_in_fresh_process(order, hs)
    for i, r in enumerate(res):
        if r:
            alone = _run_in_fresh_process([order[i]], hs)[0]
            sig = dict(r.get('sig') or {})
            sig.update({'process_index': i, 'inner_op': order[i][0], 'alone_ok': not alone})
            return {'required': 'case %d of the order (%s) in a fresh process: %s'
                                % (i, order[i][0], r.get('required')),
                    'observed': '%s  [the same case alone in a fresh process: %s]'
                                % (r.get('observed'), 'fails too' if alone else 'ok'),
                    'sig': sig}
    return None


def _shrink_process(order, hs=0):
    """A short order that still fails: the failing case alone, a pair (earlier case, failing case), or
    the prefix up to the failing case."""
    res = _run_in_fresh_process(order, hs)
    bad = [i for i, r in enumerate(res) if r]
    if not bad:
        return order
    i = bad[0]
    if _run_in_fresh_process([order[i]], hs)[0]:
        return [order[i]]
    for j in range(i - 1, max(-1, i - 25), -1):
        if _run_in_fresh_process([order[j], order[i]], hs)[1]:
            return [order[j], order[i]]
    return order[:i + 1]


def finding_cases():
    """(op, input) pairs of the recorded findings: the `example_input`s of known_findings.d/C19.json."""
    lights = 'Zone Lights Electric Energy'
    return [('alias', {'db': fixed_specs()[1], 'q': lights, 'method': 'all'})]


def regression_cases():
    """(op, input) pairs on which the code failed before the repairs fixes/C19_*.patch."""
    S = finding_specs()
    F = fixed_specs()
    lights, mrt = 'Zone Lights Electric Energy', 'Zone Mean Radiant Temperature'
    return [
        ('collections', {'db': S['mixed-units'], 'q': [lights, mrt]}),
        ('collections', {'db': S['mixed-units'], 'q': [mrt, lights]}),
        ('run_period', {'db': S['single-key'], 'q': 'Site Outdoor Air Drybulb Temperature', 'env': 8}),
        ('collections', {'db': S['feb29'], 'q': lights}),
        ('run_period', {'db': S['feb29'], 'q': lights, 'env': 8}),
        ('collections', {'db': S['annual-multi'], 'q': lights}),
        ('run_period', {'db': S['annual-multi'], 'q': lights, 'env': 2}),
        # repaired by fixes/C19_all_run_periods_own_interval_type.patch (/repo c9ccd82)
        ('collections', {'db': S['mixed-multi'], 'q': lights}),
        ('collections', {'db': S['mixed-multi'], 'q': mrt}),
        ('run_period', {'db': S['mixed-multi'], 'q': lights, 'env': 2}),
        # round 4: aliasing (one dictionary per collection), argument shapes, Year 0, unusual text
        ('alias', {'db': S['feb29'], 'q': lights, 'method': 'run_period', 'env': 8}),
        ('alias', {'db': S['mixed-units'], 'q': [lights, mrt], 'method': 'all', 'as_list': True}),
        ('alias', {'db': S['mixed-units'], 'q': lights, 'method': 'values'}),
        ('alias', {'db': S['annual-multi'], 'q': lights, 'method': 'all'}),
        ('collections', {'db': S['mixed-units'], 'q': [mrt, lights], 'as': 'seq'}),
        ('collections', {'db': S['mixed-units'], 'q': [mrt, lights, mrt], 'as': 'gen'}),
        ('values', {'db': S['mixed-units'], 'q': [mrt, lights], 'as': 'dictkeys'}),
        ('collections', {'db': S['mixed-units'], 'q': lights, 'as': 'strsub'}),
        ('run_period', {'db': S['mixed-multi'], 'q': lights, 'env': 2, 'env_as': 'str'}),
        ('run_period', {'db': S['mixed-multi'], 'q': lights, 'env': 1, 'env_as': 'float'}),
        ('collections', {'db': S['mixed-units'], 'q': [lights, 'Surface']}),
    ] + [(op, {'db': F[i], 'q': q, 'env': e}) for i, q, e in (
        (10, lights, 2), (10, mrt, 3), (11, mrt, 1), (11, mrt, 2), (12, lights, 1), (12, lights, 2),
        (13, lights, 4), (13, 'Electricity:Facility', 4), (14, EXOTIC_NAMES[0], 5), (14, EXOTIC_NAMES[1], 1),
        (14, EXOTIC_NAMES[2], 5), (15, 'Zone Lights Electric Energy ', 2), (15, 'zone lights electric energy', 1),
        (15, 'Zone  Lights Electric Energy', 2), (15, lights, 1)) for op in ('collections', 'run_period', 'values')] + [
        ('collections', {'db': F[15], 'q': ['Zone Lights Electric Energy ', 'Zone Lights Electric Energy']}),
        ('collections', {'db': F[14], 'q': [EXOTIC_NAMES[1], EXOTIC_NAMES[0]]}),
        ('values', {'db': F[14], 'q': [EXOTIC_NAMES[2], EXOTIC_NAMES[1], EXOTIC_NAMES[0]], 'as_list': True}),
        # round 5: name lists mixing plain J with compound joule units and joule look-alikes (per-column flags)
        ('collections', {'db': F[16], 'q': [lights, 'System Node Specific Enthalpy']}),
        ('collections', {'db': F[16], 'q': ['Zone Heat Gain Density', lights, 'Plant Loop Energy'], 'as_list': True}),
        ('collections', {'db': F[16], 'q': ['Site Energy Intensity', 'Material Volumetric Heat Capacity',
                                            'System Node Specific Heat']}),
        ('collections', {'db': F[17], 'q': [lights, 'Zone Blank Joule', 'Node Specific Energy',
                                            'System Node Specific Enthalpy']}),
        ('collections', {'db': F[17], 'q': ['Plant Mega Joules', 'Zone Small Joule', 'Plant Watt Hours']}),
        ('alias', {'db': F[16], 'q': 'System Node Specific Enthalpy', 'method': 'run_period', 'env': 2}),
    ]


def _history_steps(rng, names, envs, k, stratum=None, summary=False):
    """k steps on one object, in random order and repetition: queries over output names / name lists
    (tuple or list object) / run-period indices, property reads, refused requests.  Strata:
    'refused-first', 'read-first', 'frequency-twice' (reporting_frequency read, then read again),
    'each-name' (every output of the file for all periods, then two of them per run period),
    'twice' (the same question asked twice in a row)."""
    absent_env = max(envs) + rng.choice([1, 7, 90])

    def query():
        r = rng.random()
        n = rng.choice(names)
        if r < 0.45:
            return {'op': 'collections', 'inp': {'q': n}}
        if r < 0.6 and len(names) > 1:
            st = {'op': 'collections', 'inp': {'q': rng.sample(names, 2)}}
            r2 = rng.random()
            if r2 < 0.4:
                st['inp']['as_list'] = True
            elif r2 < 0.6:
                st['inp']['as'] = 'seq'
            return st
        if r < 0.85:
            return {'op': 'run_period', 'inp': {'q': n, 'env': rng.choice(envs)}}
        if rng.random() < 0.4 and len(names) > 1:
            return {'op': 'values', 'inp': {'q': rng.sample(names, 2), 'as_list': rng.random() < 0.5}}
        return {'op': 'values', 'inp': {'q': n}}

    def read():
        return {'op': 'read', 'inp': {'attr': rng.choice(READ_ATTRS + (SUMMARY_ATTRS if summary else []))}}

    def refused():
        r = rng.random()
        n = rng.choice(names)
        if r < 0.4:
            return {'op': 'refused', 'inp': {'call': 'rp_absent_env', 'q': n, 'env': absent_env}}
        if r < 0.6:
            return {'op': 'refused', 'inp': {'call': 'bad_type', 'arg': rng.choice([5, None, 2.5]),
                                             'method': rng.choice(['data_collections_by_output_name',
                                                                   'values_by_output_name'])}}
        if r < 0.8:
            return {'op': 'refused', 'inp': {'call': 'quote_list', 'q': [n]}}
        return {'op': 'refused', 'inp': {'call': 'summary_table',
                                         'attr': rng.choice(['run_periods', 'run_period_names', 'location'])}}

    steps = []
    if stratum == 'refused-first':
        steps.append(refused())
    elif stratum == 'read-first':
        steps.append(read())
        if rng.random() < 0.5:
            steps.append(read())
    elif stratum == 'each-name':
        # every output of the file asked for all periods, one after the other (different frequencies of a
        # mixed file meet on one object), then per run period
        order = list(names)
        rng.shuffle(order)
        order = order[:5]
        for n in order:
            steps.append({'op': 'collections', 'inp': {'q': n}})
        steps.insert(rng.randint(0, len(steps)), read())
        for n in order[:2]:
            steps.append({'op': 'run_period', 'inp': {'q': n, 'env': rng.choice(envs)}})
        k = max(k, len(steps))
    elif stratum == 'frequency-twice':
        steps.append({'op': 'read', 'inp': {'attr': 'reporting_frequency'}})
        if rng.random() < 0.5:
            steps.append(read())
        steps.append({'op': 'read', 'inp': {'attr': 'reporting_frequency'}})
    while len(steps) < k:
        r = rng.random()
        st = query() if r < 0.55 else read() if r < 0.8 else refused()
        steps.append(st)
        if stratum == 'twice' and len(steps) < k and rng.random() < 0.5:
            steps.append(json.loads(json.dumps(st)))
    if steps[-1]['op'] == 'refused':
        steps.append(query())       # a refused request is always followed by something observable
    return steps


def history_fixed():
    """Fixed request histories: sub-hourly then hourly output (and the reverse) on one object."""
    mixed = [s for s in fixed_specs() if s['freqs'] == ['ts', 'hourly', 'daily', 'monthly']][0]
    out = []
    for order in (['Electricity:Facility', 'Zone Lights Electric Energy', 'Site Outdoor Air Drybulb Temperature'],
                  ['Zone Lights Electric Energy', 'Electricity:Facility']):
        out.append({'db': mixed, 'steps': [{'op': 'collections', 'inp': {'q': n}} for n in order]})
    ship = {'file': 'eplusout_openstudio.sql'}
    for order in (['DistrictCooling:Facility', 'Zone Lights Electric Energy',
                   'Site Outdoor Air Wetbulb Temperature', 'Zone Air Relative Humidity'],
                  ['Zone Lights Electric Energy', 'DistrictCooling:Facility']):
        out.append({'db': ship, 'steps': [{'op': 'collections', 'inp': {'q': n}} for n in order]})
    out.append({'db': ship, 'steps': [
        {'op': 'run_period', 'inp': {'q': 'Zone Lights Electric Energy', 'env': 8}},
        {'op': 'collections', 'inp': {'q': 'Electricity:Facility'}},
        {'op': 'collections', 'inp': {'q': 'Site Outdoor Air Drybulb Temperature'}}]})
    # property reads between queries, refused requests followed by queries, the same question twice
    lights, fac = 'Zone Lights Electric Energy', 'Electricity:Facility'
    reads = [{'op': 'read', 'inp': {'attr': a}} for a in READ_ATTRS]
    for db in (mixed, ship):
        out.append({'db': db, 'steps': [reads[2], {'op': 'collections', 'inp': {'q': lights}}, reads[0],
                                        {'op': 'collections', 'inp': {'q': fac}}, reads[2], reads[1], reads[3],
                                        {'op': 'values', 'inp': {'q': lights}}, reads[2]]})
        out.append({'db': db, 'steps': [
            {'op': 'refused', 'inp': {'call': 'rp_absent_env', 'q': lights, 'env': 99}},
            {'op': 'collections', 'inp': {'q': lights}},
            {'op': 'refused', 'inp': {'call': 'bad_type', 'arg': 5}},
            {'op': 'run_period', 'inp': {'q': lights, 'env': 8}},
            {'op': 'refused', 'inp': {'call': 'quote_list', 'q': [fac]}},
            {'op': 'collections', 'inp': {'q': fac}}, reads[0],
            {'op': 'refused', 'inp': {'call': 'summary_table', 'attr': 'run_periods'}},
            {'op': 'collections', 'inp': {'q': [lights, fac], 'as_list': True}},
            {'op': 'collections', 'inp': {'q': lights}}, {'op': 'collections', 'inp': {'q': lights}}]})
    # a timestep-only file: the frequency is converted to steps per hour on the first read
    tsonly = [s for s in fixed_specs() if s['freqs'] == ['ts']]
    for db in tsonly:
        nm = db['outputs'][0][0]
        out.append({'db': db, 'steps': [reads[2], reads[0], reads[2], reads[3], reads[2], reads[1], reads[2],
                                        {'op': 'collections', 'inp': {'q': nm}}, reads[2]]})
    multi = finding_specs()['mixed-multi']
    mrt = 'Zone Mean Radiant Temperature'
    out.append({'db': multi, 'steps': [{'op': 'collections', 'inp': {'q': mrt}}, reads[2],
                                       {'op': 'collections', 'inp': {'q': lights}},
                                       {'op': 'refused', 'inp': {'call': 'rp_absent_env', 'q': mrt, 'env': 5}},
                                       {'op': 'run_period', 'inp': {'q': lights, 'env': 2}},
                                       {'op': 'collections', 'inp': {'q': mrt}}]})
    return out


def _regions(spec, q, op):
    """The recorded-finding regions (known_findings.d/C19.json) an oracle case falls into, decided from
    the database description alone.  The random stream visits each region only a few times per run, so
    that the failure list (capped by the core) keeps room for failures that are *not* recorded."""
    names = [q] if isinstance(q, str) else list(q)
    outs = [o for o in spec['outputs'] if o[0] in names]
    if not outs:
        return []
    f0 = min(outs, key=lambda o: min(k[0] for k in o[4]))[3]      # frequency of the first dictionary row
    sel = [o for o in outs if o[3] == f0]
    nkeys = sum(len(o[4]) for o in sel)
    return []       # no recorded finding is left (the mixed-time-table defect was repaired)


def _is_leap_case(inp):
    db = inp.get('db', {})
    return bool(db.get('year')) and calendar.isleap(db['year'])


def _oracle_cases(ctx):
    rng = ctx.rng
    fixed = fixed_specs() + [s for _, s in sorted(finding_specs().items())]
    specs = list(fixed)
    n = ctx.n(36, 560) * (3 if ctx.searching else 1)
    for _ in range(n):
        specs.append(gen_spec(rng, big=not ctx.quick and rng.random() < 0.1))
    pool = []           # cases that are re-run in fresh processes in other orders
    alias_multi = [0]

    def emit(op, inp, keep=1.0):
        if len(json.dumps(inp)) < 6000 and rng.random() < keep:
            pool.append((op, inp))
        return op, inp

    for op, inp in finding_cases() + regression_cases():
        yield emit(op, inp)
    for si, s in enumerate(specs):
        if 'idbase' in s:
            ctx.count('oracle:db_with_zero_value')
        for q in spec_queries(rng, s):
            names = [q] if isinstance(q, str) else q
            present = any(o[0] in names for o in s['outputs'])
            if not present:
                yield emit('absent', {'db': s, 'q': q, 'env': s['envs'][0][0]}, 0.3)
                continue
            def shaped(c):
                r = rng.random()
                if isinstance(q, str):
                    if r < 0.15:
                        c['as'] = 'strsub'
                elif r < 0.3:
                    c['as_list'] = True
                    ctx.count('oracle:name_list_object')
                elif r < 0.45:
                    c['as'] = 'seq'
                elif r < 0.65:
                    c['as'] = rng.choice(LENIENT_SHAPES)
                ctx.count('shape:names=%s' % (c.get('as') or ('list' if c.get('as_list') else
                                                               'str' if isinstance(q, str) else 'tuple')))
                return c

            cases = [('collections', shaped({'db': s, 'q': q}))]
            if rng.random() < 0.5:
                cases.append(('values', shaped({'db': s, 'q': q})))
            if isinstance(q, str):
                for e in s['envs']:
                    c1 = {'db': s, 'q': q, 'env': e[0]}
                    if rng.random() < 0.2:
                        c1['env_as'] = rng.choice(ENV_SHAPES)
                    ctx.count('shape:env=%s' % c1.get('env_as', 'int'))
                    cases.append(('run_period', c1))
            for op, inp in cases:
                for o in s['outputs']:
                    if o[0] in names:
                        ctx.count('oracle:unitclass:%s:%s' % (op, unit_class(o[2])))
                yield emit(op, inp, 0.25)
            # aliasing: answers kept, edited in place, asked again; a second object of the same file
            if rng.random() < 0.3:
                multi = len(s['envs']) > 1
                meth = rng.choice(['all', 'all', 'values'] + (['run_period'] * 2 if isinstance(q, str) else []))
                c2 = {'db': s, 'q': q, 'method': meth}
                if meth == 'run_period':
                    c2['env'] = rng.choice(s['envs'])[0]
                if meth == 'all' and multi:
                    alias_multi[0] += 1
                    if alias_multi[0] > (6 if ctx.quick else 25):
                        continue    # region of the recorded finding C19-metadata-shared-across-run-periods
                ctx.count('alias:method=%s%s' % (meth, '+multi_env' if multi else ''))
                yield emit('alias', c2, 0.0 if (meth == 'all' and multi) else 0.25)
        # property reads on a fresh object, refused requests
        for a in (READ_ATTRS if si < len(fixed) or rng.random() < 0.5 else [rng.choice(READ_ATTRS)]):
            yield emit('read', {'db': s, 'attr': a}, 0.3)
        if rng.random() < 0.3:
            nm = s['outputs'][0][0]
            yield emit('refused', {'db': s, 'call': 'rp_absent_env', 'q': nm,
                                   'env': max(e[0] for e in s['envs']) + rng.choice([1, 50])}, 0.3)
    for f in SHIPPED:
        src = {'file': f}
        try:
            info = db_for(src)
        except Exception:
            continue
        names = []
        for r in info['dict']:
            if r[3] not in names:
                names.append(r[3])
        pick = names if (len(names) <= 6 or not ctx.quick) else rng.sample(names, 5)
        envs = sorted(set(t[9] for t in info['time']))
        for nme in pick:
            yield 'collections', {'db': src, 'q': nme}
            yield 'values', {'db': src, 'q': nme}
            yield 'run_period', {'db': src, 'q': nme, 'env': rng.choice(envs)}
        yield 'absent', {'db': src, 'q': 'No Such Output', 'env': envs[0]}
        for a in READ_ATTRS + SUMMARY_ATTRS:
            yield emit('read', {'db': src, 'attr': a}, 0.5)
        same_units = {}
        for r in info['dict']:
            same_units.setdefault((r[4], r[5]), [])
            if r[3] not in same_units[(r[4], r[5])]:
                same_units[(r[4], r[5])].append(r[3])
        for k, v in sorted(same_units.items()):
            if len(v) > 1:
                yield 'collections', {'db': src, 'q': v[:3]}
                break
    # request histories on one object
    for h in history_fixed():
        try:
            db_for(h['db'])
        except Exception:
            continue
        yield emit('history', h)
    for _ in range(ctx.n(30, 500) * (3 if ctx.searching else 1)):
        fam = rng.choice(['mixed1', 'mixed1', 'mixed1', 'single', 'single', 'mixedN', 'mixedN'])
        s = gen_spec(rng, family=fam)
        names = []
        for o in s['outputs']:
            if o[0] not in names:
                names.append(o[0])
        envs = [e[0] for e in s['envs']]
        stratum = rng.choice([None, None, 'refused-first', 'read-first', 'twice', 'frequency-twice', 'each-name'])
        h = {'db': s, 'steps': _history_steps(rng, names, envs, rng.randint(3, 8), stratum)}
        ctx.count('history:family=%s' % fam)
        ctx.count('history:stratum=%s' % stratum)
        ctx.count('history:steps=%d' % len(h['steps']))
        for st in h['steps']:
            ctx.count('history:step=%s' % (st['inp'].get('attr') or st['inp'].get('call') or st['op']))
        yield emit('history', h, 0.4)
    for f in ('eplusout_openstudio.sql', 'eplusout_dday_runper.sql', 'eplusout_hourly.sql',
              'eplusout_timestep.sql', 'eplusout_monthly.sql'):
        src = {'file': f}
        try:
            info = db_for(src)
        except Exception:
            continue
        names = []
        for r in info['dict']:
            if r[3] not in names:
                names.append(r[3])
        envs = sorted(set(t[9] for t in info['time']))
        for _ in range(ctx.n(2, 12)):
            ctx.count('history:shipped')
            stratum = rng.choice([None, 'refused-first', 'read-first', 'twice', 'frequency-twice', 'each-name'])
            yield emit('history', {'db': src, 'steps': _history_steps(rng, names, envs, rng.randint(3, 6), stratum,
                                                                     summary=True)}, 0.5)
    # process-order independence: slices of the stream above in fresh Python processes, other orders
    rng.shuffle(pool)
    size = ctx.n(22, 160)
    orders = []
    sl = pool[:size]
    orders.append(('leap-first', sorted(sl, key=lambda c: 0 if _is_leap_case(c[1]) else 1), 1))
    sl = pool[size:2 * size] or pool[:size]
    orders.append(('subhourly-first', sorted(sl, key=lambda c: -(c[1].get('db', {}).get('steps', 0)
                                                                 if 'ts' in c[1].get('db', {}).get('freqs', [])
                                                                 else -1)), 2))
    sl = pool[2 * size:3 * size] or pool[:size]
    orders.append(('refused-and-histories-first',
                   sorted(sl, key=lambda c: 0 if c[0] == 'refused' else 1 if c[0] == 'history' else
                          2 if c[0] == 'read' else 3), 3))
    if not ctx.quick or ctx.searching:
        sl = pool[3 * size:4 * size] or pool[:size]
        orders.append(('reversed', list(reversed(sl)), 4))
    for tag, order, hs in orders:
        order = [list(c) for c in order]
        ctx.count('process:order=%s' % tag)
        ctx.count('process:cases', len(order))
        try:
            res = _run_in_fresh_process(order, hs)
        except Exception as e:
            yield 'process', {'order': order[:3], 'hashseed': hs, 'note': 'worker: %s' % e}
            continue
        if any(res):
            yield 'process', {'order': _shrink_process(order, hs), 'hashseed': hs, 'tag': tag}
        else:
            ctx.count('oracle:process')
            ctx.case(('process', tag, ctx.seed))


def oracle(ctx):
    run_oracle_cases(ctx, _oracle_cases(ctx), check_case)


LEVEL_TEXT = ('Machine-checked Lean 4 theorems over an executable model of sql.py\'s timeseries queries: the '
              'de-interleaving of n keys obeys (partition data n)[k][t] = data[t*n+k] and inverts the '
              'EnergyPlus interleaving for every number of keys and steps; the chunked partition of several run '
              'periods is, period by period, the partition of that period\'s slice (hence one run period = slice '
              'of all); J values are divided by 3 600 000 and relabelled kWh, other units untouched; the '
              'analysis period, timestep, leap flag and class follow from the first/last Time rows; absent '
              'outputs give []; end to end, for a database whose rows are in EnergyPlus order (n keys, m run '
              'periods, Time table = concatenation of the environments) data_collections_by_output_name returns '
              'exactly, per period and key, that key\'s values in time order (converted iff its own unit is J), '
              'labelled with the key, under the environment\'s period, in the class of the frequency; the '
              'run-period query returns the corresponding group of collections; annual data gives one value per '
              'run period and key; _extract_all_run_period = one _extract_run_period per environment when rows of '
              'one interval type are used - and the query uses exactly those rows (mixed time tables included). '
              'Object state machine of SQLiteResult (lazily filled slots; requests = the three queries, the four '
              'property reads, refused requests): after every history every request is answered as by a fresh object '
              'of the same file, a refused request leaves every observation (and, for queries, the object) unchanged, '
              'reads are pure and commute; available_outputs(_info) list exactly the dictionary outputs (J announced '
              'as Energy/kWh), run_period_indices exactly the environments of the Time table in ascending order, '
              'reporting_frequency of a one-label file is that label or 60/Interval steps, values_by_output_name is '
              'the time-major stream of the selected keys. Round 4: the leap flag of every period is the rule '
              '(year != 0 and year % 4 == 0) applied to the LAST Time row, so design days (Year 0) never get a leap '
              'period, and all run periods of one answer carry one flag; the name argument is a membership test (name '
              'lists with the same members - other order, duplicates, any container - give the same rows, collections '
              'and values; a one-name list equals the name up to the Surface test); the three branches of the '
              'time-table stage (single period / annual / all run periods) are stated as theorems. Round 5: the '
              'unit rule acts on exactly the database unit J - relabel changes only J, every other unit (any text '
              'starting with J included) keeps label and values, the conversion flag is set iff the unit is J (or, '
              'outside the assumptions, kWh), the data type follows the database unit, and the all-periods and '
              'run-period queries decide label and conversion alike for the rows of one output. The model is compared with the real SQLiteResult on '
              'synthetic EnergyPlus databases, the shipped files, the static helpers and on request histories '
              '(step by step) on every run; the oracle also re-runs slices of its stream in fresh Python processes '
              'in other orders.')
LEVEL_NOTE = ('Trusted: Lean kernel; axioms propext/Classical.choice/Quot.sound only; the correspondence run '
              '(agreement on generated databases only); sqlite3 query semantics and row order; the '
              'DateTime/AnalysisPeriod constructors as used by sql.py; IEEE division by 3.6e6 compared bit-exact, '
              'proved over rationals.')
TECHNIQUE = ('Lean 4 proof (induction over rows / run periods / request histories, index extensionality, omega) '
             'about a value-polymorphic model and object state machine tied to sql.py by differential correspondence '
             'on generated SQLite databases and request histories')
