"""C14 — Derived objects never share state with, or mutate, the objects they came from.

Model: lean/Ladybug/Model/Heap.lean (heap of Header / metadata / values / period / collection cells);
theorems: lean/Ladybug/Props/C14.lean (+ Proofs/C14Lemmas.lean); driver: drv_c14.
Tie: correspondence on *sharing signatures* and observable snapshots of every live object after every
step of random histories [build -> derive* / mutate*] (model mode `fixed` = tree with fixes/C14_*.patch).
Oracle: the property itself on the real objects (snapshot equality of the untouched side, arguments
unchanged also when the call fails, immutable collections unchanged through public routes).

Round 3 (histories on one object, failure paths, process order, rare strata).  Producers and the
consumers that are exercised (a change that keeps one producer/consumer pair consistent is seen by the
untouched consumers):

* `Header.duplicate/__copy__` + `Header.metadata` setter (deepcopy of metadata, own period)  <-  collection
  `__add__..__neg__` (base and continuous overrides), `duplicate/__copy__`, `to_mutable`, `to_immutable`,
  `to_unit/to_ip/to_si`, every `filter_by_*`, `cull_to_timestep`, aggregation (`average/total/percentile_*`),
  `validate_analysis_period`, `interpolate_*`, `to_discontinuous`, `normalize/aggregate_by_area`,
  `to_time_*`, `WindRose.__init__`, `Wea.directional_irradiance`, `HourlyPlot`, `MonthlyChart`
  (sweep `check_derive`, every op x class x mutability x mutator x side, + `misc header_duplicate`).
* `_check_aligned_header` (deepcopy of metadata, shared period)  <-  `get_aligned_collection` (base and
  continuous), `compute_function_aligned`, `Wea._aligned_collection` (ghi, direct horizontal, directional).
* values list of a collection (`values` setter copies, `values` getter hands out a tuple)  <-  constructors,
  `duplicate`, `to_unit/ip/si` (incl. "already in that unit": the data types return the input list),
  `get_aligned_collection(list)`, `values_append` through the getter, `to_dict`/`from_dict`.
* class-level `_enumeration` memo (`to_immutable`, `to_mutable`, `get_aligned_collection(mutable=..)`,
  `compute_function_aligned`)  <-  process-order runs (immutable / rare classes first in a fresh interpreter).
* EPW unit state (`convert_to_ip/si`, `is_ip`)  <-  `to_file_string`, `write`, `save`, `to_wea` (each
  succeeding and failing in every way the argument checks allow, SI and IP object), `to_dict`, the 35 field
  collections, `sky_temperature` (asked repeatedly, results edited in between).
* Wea members / metadata / Location  <-  `duplicate`, `filter_by_*`, ghi / direct horizontal / directional
  irradiance (asked repeatedly), `to_dict`, `to_file_string`, `write` (also failing).

Round 4 (override gaps, aliasing / one-shot iterables, conventions, numeric edges, input shapes, rare branches):

* sources WITH A PAST (`pre` chains of a build spec, `_past_chains`): every deriving operation is asked of
  objects whose hidden `validated_a_period` flag is already set (validated before, derived from a continuous
  one, culled), of objects derived from derived objects, converted / culled in place (datetimes kept as a
  list), there and back between the mutable and immutable twin - on each of the ten concrete classes
  (`_r4_cases`, rare kind `past`); a deriving step of a history that hands back a live object is a failure
  (`result-is-live-object`); the correspondence generator asks flag-sensitive operations of flagged objects.
* container types (`check_shape`, op `shape`): constructors, the `values` setter, `get_aligned_collection`
  and `Wea.from_annual_values` receive the same data as list / tuple / deque / dict view / array / set /
  generator / `iter` / `map` (values and datetimes independently): same report as with lists, the container
  is unchanged by later edits of the object, the object is unchanged by later edits of the container, two
  objects made from ONE container do not follow each other (incl. one list given twice to the Wea).
  Containers handed to the constructors of a sweep case are watched during the whole case (`held`).
* returned containers (`check_returned`, op `returned`): `values`, `datetimes`, `to_dict`, `header.to_dict`,
  `group_by_*`, `datetime_strings`, `moys_dict`, period / data type dictionaries of every class, `to_dict` /
  `hoys` / `datetimes` / `header` of Wea, EPW and Header are edited in place (deep) and asked again.
* periods made from text (`AnalysisPeriod.from_string`, text numbers to the constructor, `repr` round trip; one-
  and two-digit fields), reversed periods (December -> January) for all five classes, sub-hourly steps
  2..12 with metadata, unicode / unsorted metadata keys, magnitudes 1e-300 .. 1e16 and -0.0, identity unit
  conversions (to_si on C / K, to_ip on F, to_unit(own unit)) on every class; EPW.to_wea hours as tuple,
  generator, map, iter, unsorted with duplicates.
* branches of the anchored functions that the sweep counts (`ctx.count('branch:...')`, `_branches`):
  `Header.metadata` setter `value or {}` (empty / non-empty); `_time_interval_operation` sub-hourly (new
  header) / else (`header.duplicate`); `validate_analysis_period` x 5 classes x flag set / unset, reversed
  period; continuous `filter_by_analysis_period` continuous slice / two slices (wrapped) / by-moys;
  continuous `filter_by_moys` plain / reversed index; `to_unit`/`to_ip`/`to_si` identity / converted;
  `get_aligned_collection` value list / number, mutable None / True / False, unit given / default;
  `duplicate` / `to_immutable` / `to_mutable` from mutable / from immutable (tuple kept); arithmetic and
  `compute_function_aligned` with a number / a collection, base / continuous override; `interpolate_holes`
  continuous (duplicate) / discontinuous; EPW `to_wea` / `to_file_string` on SI / IP objects, succeeding /
  refused (the `finally` branch).  Not reachable through the public API: the `analysis_period is None` arm of
  `Header.__copy__` (the constructor refuses None).

Round 5 (a fourth campaign: free-form maintenance commits; two classes were reported by the broken tie only):

* REPAIR: `check_history` skipped every step of every history since round 2 (the guard "the step refers to an
  object that is not there" took the default reference 0 of a step without references for a reference to the
  not yet existing object 0, so the first `new` step - and with it all later ones - was dropped).  The history
  oracle (random histories, EPW one-object histories, the histories inside the process-order runs) is executed
  now; only references a step really has are looked at.
* class "an operation is generalised to a wider class of OPERAND PAIRS and loses argument hygiene on the new
  pairs" (seen as: a + b / a - b bring b to a's unit in place): `_hetero_cases` - every call that takes two
  collections (`+ - * /` base and continuous override, `compute_function_aligned`, `is_collection_aligned`,
  `is_metadata_aligned`, `are_collections_aligned`, `are_metadatas_aligned`,
  `pattern_from_collections_and_statement`, `==`, `filter_collections_by_statement`, `WindRose`, the `Wea`
  constructor; op `queries` / `wea_init`) on pairs that differ in ONE respect: another unit of the same data
  type (C / F / K, kWh / kBtu / Wh / MJ, W / kW / Btu/h, ...), another data type, the other mutability, other
  metadata, another class, another period, another length; either operand on the left; answered or refused,
  both operands read as before, then the usual edits on either side.  Statistics of one collection (op `stats`).
  Random histories (correspondence and oracle) give the aligned sibling another unit in 45 % of the cases.
  Lean: `C14_arith_operand_kept`, `C14_arith_ignores_operand_header`.
* class "a derived COMPOSITE keeps a setting of its source by reference" (seen as: the Wea filters hand the
  source's metadata dict to the new Wea): `check_composite` (op `composite`) - Wea source form (from_dict,
  constructor with continuous / discontinuous collections) x past (own metadata keys and nested list, metadata
  dict replaced, datetime convention switched, itself a duplicate / a filtered Wea) x deriving call (duplicate,
  copy, filter_by_pattern / analysis_period (whole days, hour window) / hoys / moys / sun_up, global / direct
  horizontal, directional, illuminance components, dictionary round trip) x in-place edit of the composite's
  OWN settings (metadata key set / new key / nested append / del / clear / update / dict replaced,
  enforce_on_hour, Location where the derivation copies it) or of a member collection x side; the other side is
  read also through the collections it computes afterwards (their header metadata comes from the Wea's
  metadata); the call asked again answers as the first time.  EPW x sky_temperature the same way.  Histories
  that live around Wea objects (`gen_wea_focus_step`, kinds `wx` = deriving call by name, `wk` = settings edit
  by name) in the oracle (all steps) and in the correspondence (modelled steps).  The sharing signature of a
  new composite now says `D` when its metadata dict is the dict of a live composite (model `shareComp`).
  Lean: `C14_fresh_comp_metadata_edit`, `C14_source_metadata_edit_after_fresh`,
  `C14_wea_filter_metadata_separate`, `C14_wea_duplicate_metadata_separate`.
* new finding of the unchanged tree: `EPW.sky_temperature` copies the EPW metadata one level deep
  (fixes/C14_epw_sky_temperature_deepcopy.patch; known finding C14-epw-sky-temperature-nested-metadata until
  it is committed; `sky_temperature_deep()` follows the source).

Round 6 (a fifth campaign: one miss, C14-20):

* class "a NEWLY ADDED public operation of an anchored class that derives an object, written with a stock idiom whose
  degenerate case hands back the operand" (seen as: a reflected addition for `sum()` with `if other == 0: return
  self`).  The check no longer works from its own list of operations only: `_api_cases` reads the public names and
  the special methods of the ten collection classes FROM THE TREE UNDER TEST (`_api_names`), calls each with a
  fixed family of probes (no argument, 0 / 0.0 / -0.0 / False / 1 / 1.0 / True / 2.5 / -3, the sibling, itself,
  [c], [c, sibling], [], own unit, own period, None, a slice; for an unknown name with k >= 2 required parameters
  every probe k times and every pairing of 0 / 1 / None), every binary operator of the language with those
  operands on EITHER side and the unary operators whether or not the class defines them today, and the built-in
  protocols that reduce to them (`sum` over one / two / three collections as list, tuple, iterator, generator,
  with a float start; `math.prod`; `copy.copy`; `copy.deepcopy`; `round`; `reversed`).  Whatever hands back a
  collection becomes a `derive` case (op `api`, replayable by name): the result is a new object, the operands
  and the caller's list read as before, then every mutator on either side, then the call asked again.  Names
  the check was not written for (`API_KNOWN` is the list of the tree it was written for; counted as
  `api:name-not-known:*`), operator / protocol forms that do not end in a known special method and calls whose
  result shares an object with an operand get the case with every mutator, the known names a sample (they have
  their own strata).  The same for `Wea` (`_api_comp_cases` -> `check_composite`; writers are not called) and
  `Header` (`_api_header_cases` -> `check_api_header`).  In-place protocols (`__i*__`, `convert_to_*`, unknown
  methods that edit a mutable source) are not deriving operations and are left alone.
  Lean: `radd`, `sumColl` (definitions through the modelled `+`), `C14_identity_operand_new_object`,
  `C14_identity_operand_then_edit`, `C14_radd_zero_new_object`, `C14_sum_new_object`, `C14_sum_single_new_object`.

History layer: every deriving step of a history may be asked AGAIN later (`again` marker): as long as the
objects it read were not edited by a successful step, the new answer must equal the answer given the first
time (whatever was done to the first answer meanwhile); a refused step must leave every object as it was.
"""
import contextlib
import copy
import io
import json
import os
import shutil
import tempfile
from datetime import date
from fractions import Fraction

from harness import core
from harness.core import err_name, run_oracle_cases

PROP = 'C14'
PROOF_MODULES = ['Ladybug.Props.C14']
GREP_MODULES = ['Ladybug.Model.Heap', 'Ladybug.Proofs.C14Lemmas', 'Ladybug.Proofs.C14Spec', 'Ladybug.Proofs.C14Any', 'Ladybug.Proofs.C14Comp', 'Ladybug.Proofs.C14Epw', 'Ladybug.Drv.C14', 'Ladybug.DrvCore',
                'Ladybug.Py']
RULE = ('correspondence: random histories (1-3 source collections of the 5 classes and their immutable '
        'twins, Temperature or the energy family; up to 8 steps drawn from 25 deriving operations, WindRose '
        'construction, 10 mutators, lists the caller holds (created, passed to constructors / the values '
        'setter / get_aligned_collection / compute_function_aligned, edited), Wea objects (from_dict, '
        'duplicate, filter_by_*, derived collections, the aliasing constructor, edits of their collections '
        'and metadata) and separate histories around an EPW object (unit conversion, to_file_string and '
        'to_wea succeeding and failing, edits); ~10 % malformed arguments; ~12 % of the steps ask an earlier '
        'deriving step AGAIN); after every step the model must '
        'predict the result status, the sharing signature (which of header / metadata dict / nested metadata '
        'lists / analysis period / values list / Location of the result are the same objects as those of '
        'any live object) and the snapshot of every live object. oracle: derive x mutator x side sweeps and '
        'random histories on the real objects, Wea / EPW / chart constructors and exports, from_dict '
        'arguments; round 3: every sweep case asks the derivation again after each edit of its first answer; '
        'refused mutators and refused derivations (arguments the validation code rejects) as own strata; rare '
        'source strata (one value, leap year with 29 Feb, timesteps 2..60, no metadata, all-zero / falsy '
        'content); histories compare every derivation with the same derivation on history-free twins built '
        'from the public state, and re-asked derivations with the first answer; EPW histories on one object '
        '(SI/IP, 15 public calls succeeding and refused, sky temperature asked repeatedly); the same derived '
        'view asked repeatedly from one Wea / EPW / Header; a slice of all this in 3-4 fresh interpreters in '
        'different orders (refused calls, immutable, metadata-free, IP, leap first); round 4: sources with a '
        'past (validated flag set, derived from derived, edited in place) for every operation and class, '
        'container types and one-shot iterables for every sequence argument, returned containers edited in '
        'place, periods made from text, reversed periods, sub-hourly aggregation, identity conversions, '
        'counted branches; round 5: every two-collection call on pairs that differ in one respect (unit of '
        'the same data type, data type, mutability, metadata, class, period, length; either operand left), '
        'composites (Wea source form x past x deriving call x edit of the own settings or a member x side; '
        'EPW x sky_temperature), histories around Wea objects, aligned siblings in another unit; '
        'round 6: the public names, operators and built-in protocols (sum, math.prod, copy, deepcopy) of the '
        'collection classes, Wea and Header as found on the tree under test x a fixed family of probe operands '
        '(identity elements on either side first): what hands back an object goes through the derive / '
        'composite oracle by name; '
        'non-trivial = the step returned an object or edited one; distinct = distinct history '
        'or (operation, class, mutability, mutator, side)')
TRUSTED_BASE = [
    'hand model Model/Heap.lean of which cells each API operation allocates or aliases (tied by the '
    'sharing-signature correspondence only; operations not in the model list are oracle-only: HourlyPlot, '
    'MonthlyChart, collection from_dict, Wea exports and the annual Wea constructors)',
    'values / datetimes / periods of aggregation, validation, interpolation and of collections derived '
    'from a Wea / EPW.sky_temperature are payload taken from the implementation; unit conversion modelled '
    'for Temperature C/F/K only (energy family: base units, area/time factors) and compared with 1e-9 '
    'relative tolerance',
    'EPW: the two temperature fields of the 35 are modelled; the failing export is reached by truncating '
    'a value list through a private attribute',
    'identity of tuples (immutable values) is not treated as shared state; Location and AnalysisPeriod '
    'objects are treated as never edited',
]
ASSUMPTIONS = ['AnalysisPeriod objects have no public setters (sharing one is not shared mutable state)',
               'DataType objects are treated as immutable values',
               'no modelled operation edits a Location (a filtered Wea looks at the Location of its source)']

UNITS = ['C', 'F', 'K', 'X', 'kWh', 'kWh/m2', 'W', 'W/m2']
DTYPES = {'Temperature': 0, 'Energy': 1, 'EnergyIntensity': 2, 'Power': 3, 'EnergyFlux': 4,
          'DirectNormalIrradiance': 10, 'DiffuseHorizontalIrradiance': 11, 'GlobalHorizontalIrradiance': 12,
          'DirectHorizontalIrradiance': 13, 'Irradiance': 14,
          'DryBulbTemperature': 0, 'DewPointTemperature': 0, 'SkyTemperature': 0}
BASE_UNIT = {'Temperature': 'C', 'Energy': 'kWh', 'EnergyIntensity': 'kWh/m2', 'Power': 'W', 'EnergyFlux': 'W/m2'}
CLS = {'HourlyDiscontinuous': 'hd', 'HourlyContinuous': 'hc', 'Daily': 'daily', 'Monthly': 'monthly',
       'MonthlyPerHour': 'mph'}
MKEYS = {'operation': 0, 'k1': 1, 'k2': 2, 'k3': 3, 'type': 4, 'source': 5, 'city': 6, 'country': 7}
VALID_TS = [1, 2, 3, 4, 5, 6, 10, 12, 15, 20, 30, 60]


# ---------------------------------------------------------------------------------------------
# real objects <-> plain specs


def _classes():
    from ladybug import datacollection as dc, datacollectionimmutable as di
    return {
        ('hd', True): dc.HourlyDiscontinuousCollection, ('hd', False): di.HourlyDiscontinuousCollectionImmutable,
        ('hc', True): dc.HourlyContinuousCollection, ('hc', False): di.HourlyContinuousCollectionImmutable,
        ('daily', True): dc.DailyCollection, ('daily', False): di.DailyCollectionImmutable,
        ('monthly', True): dc.MonthlyCollection, ('monthly', False): di.MonthlyCollectionImmutable,
        ('mph', True): dc.MonthlyPerHourCollection, ('mph', False): di.MonthlyPerHourCollectionImmutable,
    }


def _doy(month, day):
    return (date(2017, month, day) - date(2017, 1, 1)).days + 1


def _dt_token(cls, d):
    if cls in ('hd', 'hc'):
        return (_doy(d.month, d.day) - 1) * 1440 + d.hour * 60 + d.minute
    if cls == 'mph':
        return int(d[0]) * 10000 + int(d[1]) * 100 + int(d[2])
    return int(d)


def _dt_from_token(cls, t, leap=False):
    from ladybug.dt import DateTime
    if cls in ('hd', 'hc'):
        y = 2016 if leap else 2017
        d = date(y, 1, 1).fromordinal(date(y, 1, 1).toordinal() + t // 1440)
        if leap:
            return DateTime(d.month, d.day, (t % 1440) // 60, t % 60, True)
        return DateTime(d.month, d.day, (t % 1440) // 60, t % 60)
    if cls == 'mph':
        return (t // 10000, (t // 100) % 100, t % 100)
    return t


def _ap_tokens(ap):
    return [ap.st_month, ap.st_day, ap.st_hour, ap.end_month, ap.end_day, ap.end_hour, ap.timestep,
            1 if ap.is_leap_year else 0]


def _mk_ap(t):
    from ladybug.analysisperiod import AnalysisPeriod
    return AnalysisPeriod(t[0], t[1], t[2], t[3], t[4], t[5], t[6], bool(t[7]))


def _dtype(name='Temperature'):
    from ladybug.datatype.temperature import Temperature
    from ladybug.datatype.energy import Energy
    from ladybug.datatype.power import Power
    from ladybug.datatype.energyintensity import EnergyIntensity
    from ladybug.datatype.energyflux import EnergyFlux
    return {'Temperature': Temperature, 'Energy': Energy, 'Power': Power,
            'EnergyIntensity': EnergyIntensity, 'EnergyFlux': EnergyFlux}[name]()


VSHAPES = ['list', 'tuple', 'deque', 'dictvalues', 'array', 'set1', 'gen', 'iter', 'map']
DSHAPES = ['list', 'tuple', 'gen', 'iter', 'map', 'dictkeys']
ONE_SHOT = ('gen', 'iter', 'map')


def shape_of(seq, shape):
    """The same data in another container / as a one-shot iterable (stdlib only)."""
    import array
    import collections
    seq = list(seq)
    if shape == 'list':
        return seq
    if shape == 'tuple':
        return tuple(seq)
    if shape == 'deque':
        return collections.deque(seq)
    if shape == 'dictvalues':
        return dict(enumerate(seq)).values()
    if shape == 'dictkeys':                     # insertion order, not sorted order
        return dict.fromkeys(seq).keys()
    if shape == 'array':
        return array.array('d', seq)
    if shape == 'set1':                         # a set only when its order cannot matter
        return set(seq) if len(set(seq)) == 1 and len(seq) == 1 else tuple(seq)
    if shape == 'gen':
        return (x for x in seq)
    if shape == 'iter':
        return iter(seq)
    if shape == 'map':
        return map(lambda x: x, seq)
    raise ValueError(shape)


def _ap_text(t):
    """The text form read by AnalysisPeriod.from_string (one- and two-digit fields as they come)."""
    return '%d/%d to %d/%d between %d and %d @%d%s' % (t[0], t[1], t[3], t[4], t[2], t[5], t[6], '*' if t[7] else '')


def _mk_ap_any(t, how=None):
    """how: None = numbers; 'string' = AnalysisPeriod.from_string; 'strargs' = the constructor fed text
    numbers; 'repr' = through the repr of a period built from numbers."""
    from ladybug.analysisperiod import AnalysisPeriod
    if how == 'string':
        return AnalysisPeriod.from_string(_ap_text(t))
    if how == 'strargs':
        return AnalysisPeriod(str(t[0]), str(t[1]), str(t[2]), str(t[3]), str(t[4]), str(t[5]), t[6], bool(t[7]))
    if how == 'repr':
        return AnalysisPeriod.from_string(repr(_mk_ap(t)))
    return _mk_ap(t)


def build_obj(spec, values=None, held=None):
    """A collection from a plain spec; every part (header, period, metadata dict, lists) is new.
    `values`: a list object the caller holds, handed to the constructor as it is.
    Optional spec keys (round 4): 'vshape' / 'dshape' = container type of the values / datetimes argument,
    'aphow' = how the period of the header is made (numbers, text), 'pre' = steps applied to the new object
    before it is used (the source is then an object with a past: validated flag set, derived from a
    derived object, converted in place, ...).  `held`: a list that receives the containers handed in."""
    from ladybug.header import Header
    cls = _classes()[(spec['cls'], spec['mutable'])]
    hdr = Header(_dtype(spec.get('dtype', 'Temperature')), spec['unit'], _mk_ap_any(spec['ap'], spec.get('aphow')),
                 copy.deepcopy(spec['meta']))
    vals = list(spec['vals']) if values is None else values
    if spec.get('vshape'):
        vals = shape_of(vals, spec['vshape'])
    if held is not None:
        held.append(vals)
    if spec['cls'] == 'hc':
        c = cls(hdr, vals)
    else:
        leap = bool(spec['ap'][7])
        dts = [_dt_from_token(spec['cls'], t, leap) for t in spec['dts']]
        if spec.get('dshape'):
            dts = shape_of(dts, spec['dshape'])
        if held is not None:
            held.append(dts)
        c = cls(hdr, vals, dts)
    for st in spec.get('pre', ()):
        a = copy.deepcopy(st.get('args', {}))
        if st['k'] == 'm':
            apply_mutator(c, st['op'], a)
        else:
            c = apply_derive([c], 0, st['op'], a)[0]
    return c


def _mv(v):
    return repr(v).replace(' ', '')


def _frac(v):
    fr = Fraction(v)
    return str(fr.numerator) if fr.denominator == 1 else '%d/%d' % (fr.numerator, fr.denominator)


def _b(x):
    return '1' if x else '0'


def _kind(o):
    """'coll' | 'args' (a list holding a collection: the argument of compute_function_aligned) | 'list'."""
    from ladybug._datacollectionbase import BaseCollection
    from ladybug.wea import Wea
    if isinstance(o, BaseCollection):
        return 'coll'
    if isinstance(o, Wea):
        return 'wea'
    if type(o).__name__ == 'EPW':
        return 'epw'
    if isinstance(o, list) and any(isinstance(x, BaseCollection) for x in o):
        return 'args'
    return 'list'


def _mv_any(v):
    return '[' + ';'.join(_mv(x) for x in v) + ']' if isinstance(v, list) else _mv(v)


def obs_str(c, live=()):
    """Snapshot of one live object in the model driver's format (public API only)."""
    kind = _kind(c)
    if kind == 'list':
        return 'list V:' + ','.join(_frac(v) for v in c)
    if kind == 'wea':
        md = sorted((MKEYS.get(k, 99), _mv_any(v)) for k, v in c.metadata.items())
        return 'comp0 T:%d,%s,%s M:%s L:%s { %s } { %s }' % (
            c.timestep, _b(c.is_leap_year), _b(c.enforce_on_hour), ','.join('%d=%s' % kv for kv in md),
            ';'.join(_loc_tokens(c.location)), obs_str(c.direct_normal_irradiance),
            obs_str(c.diffuse_horizontal_irradiance))
    if kind == 'epw':
        md = sorted((MKEYS.get(k, 99), _mv_any(v)) for k, v in c.metadata.items())
        return 'comp1 T:%s M:%s L: { %s } { %s }' % (
            _b(c.is_ip), ','.join('%d=%s' % kv for kv in md), obs_str(c.dry_bulb_temperature),
            obs_str(c.dew_point_temperature))
    if kind == 'args':
        items = []
        for x in c:
            if _kind(x) == 'coll':
                idx = [i for i, o in enumerate(live) if o is x]
                items.append('c:%s' % (idx[0] if idx else '?'))
            elif isinstance(x, (int, float)):
                items.append('s:' + _frac(x))
            else:
                items.append('?:' + type(x).__name__)       # the caller's item was replaced
        return 'args ' + ','.join(items)
    cls = CLS.get(c._collection_type, '?')
    h = c.header
    meta = sorted((MKEYS.get(k, 99), _mv_any(v)) for k, v in h.metadata.items())
    dtn = DTYPES.get(type(h.data_type).__name__, 99)
    unit = UNITS.index(h.unit) if h.unit in UNITS else 99
    return '%s %s %s %d %d A:%s M:%s D:%s V:%s' % (
        cls, _b(c.is_mutable), _b(c.validated_a_period), dtn, unit,
        ','.join(str(x) for x in _ap_tokens(h.analysis_period)),
        ','.join('%d=%s' % kv for kv in meta),
        ','.join(str(_dt_token(cls, d)) for d in c.datetimes),
        ','.join(_frac(v) for v in c.values))


def _loc_tokens(loc):
    return [_mv(loc.source), _mv(loc.country), _mv(loc.city)]


def _nested(c):
    return [v for v in c.header.metadata.values() if isinstance(v, list)]


def _share_coll(r, o):
    s = ''
    if r.header is o.header:
        s += 'h'
    if r.header.metadata is o.header.metadata:
        s += 'm'
    if r.header.analysis_period is o.header.analysis_period:
        s += 'a'
    if r._values is o._values and isinstance(r._values, list):
        s += 'v'
    if any(x is y for x in _nested(r) for y in _nested(o)):
        s += 'l'
    return s


def _share_sig(r, o):
    """Collection `r` against live object `o`."""
    kind = _kind(o)
    if kind == 'coll':
        return _share_coll(r, o)
    if kind == 'list':
        return 'v' if r._values is o else ''
    if kind in ('wea', 'epw'):
        return '/'.join(_share_coll(r, m) for m in _members(o)) \
            + ('M' if r.header.metadata is o.metadata else '')
    return ''


def _members(o):
    if _kind(o) == 'wea':
        return (o.direct_normal_irradiance, o.diffuse_horizontal_irradiance)
    return (o.dry_bulb_temperature, o.dew_point_temperature)


def _only_seps(s):
    return all(ch in '|/' for ch in s)


def share_str(live, r):
    """Which parts of collection `r` are the same Python objects as parts of the live objects."""
    parts = []
    for j, o in enumerate(live):
        s = _share_sig(r, o)
        if not _only_seps(s):
            parts.append('%d:%s' % (j, s))
    return 'share=' + ','.join(parts)


def share_str_wea(live, w):
    parts = []
    mem = _members(w)
    for j, o in enumerate(live):
        s = '|'.join(_share_sig(m, o) for m in mem)
        if _kind(o) == 'wea' and _kind(w) == 'wea' and o.location is w.location:
            s += 'L'
        if _kind(o) in ('wea', 'epw') and o.metadata is w.metadata:
            s += 'D'                # round 5: the composite's own metadata dict is another composite's dict
        if not _only_seps(s):
            parts.append('%d:%s' % (j, s))
    return 'share=%s int=%s' % (','.join(parts), _share_coll(mem[0], mem[1]))


def snapshot(c):
    """Deep, independent snapshot of everything the property lists."""
    kind = _kind(c)
    if kind == 'list':
        return ('list', tuple(c))
    if kind == 'args':
        return ('args', tuple(id(x) if _kind(x) == 'coll' else repr(x)[:40] for x in c))
    if kind == 'wea':
        return ('wea', snapshot(c.direct_normal_irradiance), snapshot(c.diffuse_horizontal_irradiance),
                json.dumps(c.metadata, sort_keys=True, default=str), tuple(_loc_tokens(c.location)),
                (c.timestep, c.is_leap_year, c.enforce_on_hour))
    if kind == 'epw':
        return ('epw', snapshot(c.dry_bulb_temperature), snapshot(c.dew_point_temperature),
                json.dumps(c.metadata, sort_keys=True, default=str), c.is_ip, _epw_digest(c))
    h = c.header
    return (type(c).__name__, tuple(c.values), h.unit, type(h.data_type).__name__,
            tuple(_ap_tokens(h.analysis_period)), json.dumps(h.metadata, sort_keys=True, default=str),
            tuple(str(d) for d in c.datetimes), bool(c.validated_a_period),
            type(c.values).__name__)


def _epw_digest(e):
    """All 35 fields of an EPW, cheaply: unit, data type, length, sum, first / middle / last values."""
    out = []
    for i in range(35):
        try:
            c = e._get_data_by_field(i)
        except Exception as ex:
            out.append((i, type(ex).__name__))
            continue
        v = c._values
        n = len(v)
        try:
            tot = float(sum(v))
        except TypeError:
            tot = 'n/a'
        out.append((c.header.unit, type(c.header.data_type).__name__, n, tot,
                    tuple(v[:2]), tuple(v[n // 2:n // 2 + 1]), tuple(v[-2:]), type(v).__name__,
                    json.dumps(c.header.metadata, sort_keys=True, default=str)))
    return tuple(out)


def _epw_lists(base):
    db = [base[i % 24] + (i // 24) % 7 for i in range(8760)]
    dp = [base[(i + 5) % 24] - 3 for i in range(8760)]
    return db, dp


def _epw_call(e, call, tmp):
    """One public call on an EPW; the part after ':' names the way it is made to fail."""
    name, _, bad = call.partition(':')
    blocker = os.path.join(tmp, 'plainfile')
    if not os.path.exists(blocker):
        with open(blocker, 'w') as f:
            f.write('x')
    ext = {'to_wea': 'wea', 'write': 'epw', 'save': 'epw', 'to_mos': 'mos', 'to_ddy': 'ddy'}.get(name, 'txt')
    path = os.path.join(blocker, 'sub', 'x.' + ext) if bad == 'path' else os.path.join(tmp, 'x.' + ext)
    if name == 'to_wea':
        hoys = {'hoys-range': [3, 9000], 'hoys-neg': [5, -9000], 'hoys-type': [0, 'a'], 'hoys-float': [1.5],
                'hoys-none-item': [2, None], 'hoys-empty': [], 'hoys-tuple': (0, 12, 8759),
                'hoys-unsorted-dup': [8759, 12, 12, 0],
                'hoys-gen': (h for h in (0, 12, 8759)), 'hoys-map': map(int, ('0', '12', '8759')),
                'hoys-iter': iter([0, 12, 8759])}.get(bad, [0, 12, 8759] if bad == 'hoys' else None)
        return e.to_wea(path, hoys) if hoys is not None else e.to_wea(path)
    if name in ('write', 'save', 'to_mos', 'to_ddy'):
        return getattr(e, name)(path)
    if name == 'to_file_string':
        return e.to_file_string()
    if name == 'to_dict':
        return e.to_dict()
    raise ValueError(call)


EPW_CALLS = ['to_wea', 'to_wea:hoys', 'to_wea:hoys-range', 'to_wea:hoys-neg', 'to_wea:hoys-type',
             'to_wea:hoys-float', 'to_wea:hoys-none-item', 'to_wea:hoys-empty', 'to_wea:hoys-tuple',
             'to_wea:hoys-unsorted-dup', 'to_wea:hoys-gen', 'to_wea:hoys-map', 'to_wea:hoys-iter',
             'to_wea:path', 'write:path',
             'save:path', 'to_file_string', 'to_mos:path', 'to_ddy:path', 'to_dict']


# ---------------------------------------------------------------------------------------------
# adapters: one place that calls the real API for every deriving operation / mutator


def _hourly_ap_keys(ap):
    """Minutes of the year of an (unreversed, timestep 1) period, by stdlib calendar."""
    d1, d2 = _doy(ap[0], ap[1]), _doy(ap[3], ap[4])
    return [(d - 1) * 1440 + h * 60 for d in range(d1, d2 + 1) for h in range(ap[2], ap[5] + 1)]


def ap_keys(cls, ap):
    if cls in ('hd', 'hc'):
        return _hourly_ap_keys(ap)
    if cls == 'daily':
        return list(range(_doy(ap[0], ap[1]), _doy(ap[3], ap[4]) + 1))
    if cls == 'monthly':
        return list(range(ap[0], ap[3] + 1))
    return [m * 10000 + h * 100 for m in range(ap[0], ap[3] + 1) for h in range(ap[2], ap[5] + 1)]


def _plus(a, b):
    return a + b


def apply_derive(live, on, op, a):
    """Run deriving operation `op` on live[on]; returns the list of new collections."""
    from ladybug._datacollectionbase import BaseCollection
    c = live[on]
    cls = CLS[c._collection_type]
    if op in ('add', 'sub', 'mul', 'div'):
        other = live[a['c']] if 'c' in a else a['s']
        if op == 'add':
            return [c + other]
        if op == 'sub':
            return [c - other]
        if op == 'mul':
            return [c * other]
        return [c / other]
    if op == 'neg':
        return [-c]
    if op == 'dup':
        return [c.duplicate()]
    if op == 'copy':
        return [copy.copy(c)]
    if op == 'to_mutable':
        return [c.to_mutable()]
    if op == 'to_immutable':
        return [c.to_immutable()]
    if op == 'to_disc':
        return [c.to_discontinuous()]
    if op == 'to_unit':
        return [c.to_unit(UNITS[a['u']])]
    if op == 'to_ip':
        return [c.to_ip()]
    if op == 'to_si':
        return [c.to_si()]
    if op == 'aligned':
        value = live[a['r']] if 'r' in a else a['v']       # 'r': a list object the caller holds
        return [c.get_aligned_collection(value, None, None if a.get('u') is None else UNITS[a['u']],
                                         a.get('m'))]
    if op == 'cfa_ref':
        # the caller's own list [self, x] (a live object) is handed to compute_function_aligned
        return [BaseCollection.compute_function_aligned(_plus, live[a['args']], _dtype(), UNITS[a['u']])]
    if op == 'filter_pattern':
        return [c.filter_by_pattern(a['mask'])]
    if op == 'filter_range':
        if a.get('stmt'):
            return [c.filter_by_conditional_statement('a > %r and a < %r' % (a['gt'], a['lt']))]
        return [c.filter_by_range(a['gt'], a['lt'])]
    if op == 'filter_keys':
        keys = a['keys']
        if cls in ('hd', 'hc'):
            if a.get('hoys'):
                return [c.filter_by_hoys([k / 60.0 for k in keys])]
            return [c.filter_by_moys(keys)]
        if cls == 'daily':
            return [c.filter_by_doys(keys)]
        if cls == 'monthly':
            return [c.filter_by_months(keys)]
        return [c.filter_by_months_per_hour([_dt_from_token('mph', k) for k in keys])]
    if op == 'filter_ap':
        return [c.filter_by_analysis_period(_mk_ap(a['ap']))]
    if op == 'cull':
        return [c.cull_to_timestep(a['ts'])]
    if op == 'agg':
        name = {'average': 'average', 'total': 'total', 'percentile': 'percentile'}[a['fn']]
        suffix = {'daily': 'daily', 'monthly': 'monthly', 'mph': 'monthly_per_hour'}[a['iv']]
        f = getattr(c, '%s_%s' % (name, suffix))
        return [f(a['p'])] if a['fn'] == 'percentile' else [f()]
    if op == 'validate':
        return [c.validate_analysis_period()]
    if op == 'interp_holes':
        return [c.interpolate_holes()]
    if op == 'interp_ts':
        return [c.interpolate_to_timestep(a['ts'])]
    if op == 'cfa':
        other = live[a['c']] if 'c' in a else a['s']
        args = [c, other]
        a['_list'] = args                      # the caller's list (argument hygiene)
        return [BaseCollection.compute_function_aligned(_plus, args, _dtype(), UNITS[a['u']])]
    if op == 'windrose':
        from ladybug.windrose import WindRose
        w = WindRose(c, live[a['j']], a.get('n', 4))
        return [w.direction_data_collection, w.analysis_data_collection]
    # --- operations outside the model (oracle only)
    if op == 'normalize':
        return [c.normalize_by_area(a['area'], 'm2')]
    if op == 'aggregate_area':
        return [c.aggregate_by_area(a['area'], 'm2')]
    if op in ('time_aggregated', 'time_agg'):
        return [c.to_time_aggregated()]
    if op == 'time_rate':
        return [c.to_time_rate_of_change()]
    if op == 'hourlyplot':
        from ladybug.hourlyplot import HourlyPlot
        return [HourlyPlot(c).data_collection]
    if op == 'monthlychart':
        from ladybug.monthlychart import MonthlyChart
        lst = [c]
        a['_list'] = lst
        return list(MonthlyChart(lst).data_collections)
    if op == 'statement_filter_many':
        res = BaseCollection.filter_collections_by_statement([c, live[a['j']]], 'a > %r or b > %r' % (
            a['gt'], a['gt']))
        return list(res)
    if op == 'from_dict':
        d = c.to_dict()
        d = json.loads(json.dumps(d, default=lambda o: list(o)))
        a['_dict'] = d
        a['_dict_before'] = copy.deepcopy(d)
        return [type(c).from_dict(d)]
    if op == 'queries':
        # round 5: every public call that takes a second collection and returns no collection; each is
        # made on its own (a refusal of one does not keep the others from being made)
        other = live[a['c']]
        calls = (lambda: c.is_collection_aligned(other), lambda: c.is_metadata_aligned(other),
                 lambda: other.is_collection_aligned(c),
                 lambda: BaseCollection.are_collections_aligned([c, other], False),
                 lambda: BaseCollection.are_collections_aligned([c, other], True),
                 lambda: BaseCollection.are_metadatas_aligned([c, other], False),
                 lambda: BaseCollection.pattern_from_collections_and_statement([c, other], 'a > 0 or b > 0'),
                 lambda: c == other, lambda: c != other)
        for f in calls:
            try:
                f()
            except Exception:
                pass
        return []
    if op == 'stats':
        # round 5: statistics of one collection (no collection comes back)
        calls = (lambda: c.min, lambda: c.max, lambda: c.bounds, lambda: c.average, lambda: c.median,
                 lambda: c.total, lambda: c.percentile(50), lambda: c.highest_values(2),
                 lambda: c.lowest_values(2), lambda: c.is_in_data_type_range(False), lambda: repr(c),
                 lambda: len(c), lambda: list(c), lambda: c.datetime_strings, lambda: c.average_monthly,
                 lambda: BaseCollection.histogram(c.values, [-1e9, 0, 1e9]))
        for f in calls:
            try:
                r = f()
                if callable(r):
                    r()
            except Exception:
                pass
        return []
    if op == 'api':
        # round 6: a public attribute / operator / built-in protocol found on the class of the tree under test
        return _api_collect(_api_call(c, live[1] if len(live) > 1 else None, a))
    if op == 'wea_init':
        # round 5: two collections handed to the Wea constructor (the Wea keeps them: nothing to edit
        # afterwards; the call itself must leave them as they are, accepted or refused)
        from ladybug.wea import Wea
        from ladybug.location import Location
        Wea(Location('Town', 'ST', 'Land', 40.0, -70.0, -5.0, 10.0, source='src'), c, live[a['c']])
        return []
    raise ValueError('unknown derive op ' + op)


def apply_mutator(c, op, a):
    if op == 'conv_unit':
        c.convert_to_unit(UNITS[a['u']])
    elif op == 'conv_ip':
        c.convert_to_ip()
    elif op == 'conv_si':
        c.convert_to_si()
    elif op == 'set_values':
        c.values = a['scalar'] if 'scalar' in a else list(a['v'])
    elif op == 'set_item':
        c[a['i']] = a['x']
    elif op == 'set_values_ref':                # the values setter receives the caller's own list
        c.values = a['_live'][a['r']]
    elif op == 'meta_set':
        c.header.metadata[a['k']] = list(a['v']) if isinstance(a['v'], list) else a['v']
    elif op == 'meta_replace' and 'notdict' in a:
        c.header.metadata = a['notdict']
    elif op == 'meta_replace':
        c.header.metadata = dict((k, list(v) if isinstance(v, list) else v) for k, v in a['m'].items())
    elif op == 'meta_append':                   # nested metadata value edited in place
        c.header.metadata[a['k']].append(a['x'])
    elif op == 'cull_inplace':
        c.convert_to_culled_timestep(a['ts'])
    elif op == 'truncate':                      # harness only: reach the failing path of the EPW export
        del c._values[a['n']:]
    elif op == 'values_append':                 # `coll.values` must not hand out the internal list
        c.values.append(a['x'])
    else:
        raise ValueError('unknown mutator ' + op)


# ---------------------------------------------------------------------------------------------
# generators (plain numbers only; nothing here calls the code under test)


def gen_spec(rng, cls=None, mutable=None, hourly_days=None, energy=None):
    cls = cls or rng.choice(['hd', 'hc', 'hc', 'daily', 'monthly', 'mph'])
    mutable = (rng.random() < 0.55) if mutable is None else mutable
    unit = rng.choice(['C', 'C', 'C', 'F', 'K'])
    meta = {}
    if rng.random() < 0.7:
        for k in rng.sample(['k1', 'k2', 'k3', 'type'], rng.randint(1, 3)):
            meta[k] = rng.choice([1, 7, 'zone', 'Energy', [1, 2], ['a']])
    if cls in ('hd', 'hc'):
        ts = rng.choice([1, 1, 1, 2, 2, 3, 4])
        d1 = rng.randint(1, 3)
        d2 = d1 if hourly_days == 1 or rng.random() < 0.7 else d1 + 1
        if cls == 'hc':
            ap = [1, d1, 0, 1, d2, 23, ts, 0]
            dts = [(d - 1) * 1440 + h * 60 + s * (60 // ts) for d in range(d1, d2 + 1) for h in range(24)
                   for s in range(ts)]
        else:
            h1 = rng.choice([0, 0, 6])
            h2 = rng.choice([23, 23, 18])
            ap = [1, d1, h1, 1, d2, h2, ts, 0]
            full = [(d - 1) * 1440 + h * 60 + s * (60 // ts) for d in range(d1, d2 + 1)
                    for h in range(h1, h2 + 1) for s in range(ts)]
            dts = rng.sample(full, rng.randint(1, min(8, len(full))))
            if rng.random() < 0.7:
                dts.sort()
    elif cls == 'daily':
        d1 = rng.randint(1, 40)
        d2 = d1 + rng.randint(0, 9)
        a, b = date(2017, 1, 1).fromordinal(date(2017, 1, 1).toordinal() + d1 - 1), \
            date(2017, 1, 1).fromordinal(date(2017, 1, 1).toordinal() + d2 - 1)
        ap = [a.month, a.day, 0, b.month, b.day, 23, 1, 0]
        dts = rng.sample(range(d1, d2 + 1), rng.randint(1, d2 - d1 + 1))
        if rng.random() < 0.7:
            dts.sort()
    elif cls == 'monthly':
        m1 = rng.randint(1, 10)
        m2 = rng.randint(m1, 12)
        ap = [m1, 1, 0, m2, [31, 28, 31, 30, 31, 30, 31, 31, 30, 31, 30, 31][m2 - 1], 23, 1, 0]
        dts = sorted(rng.sample(range(m1, m2 + 1), rng.randint(1, m2 - m1 + 1)))
    else:
        m1 = rng.randint(1, 11)
        m2 = min(12, m1 + rng.randint(0, 1))
        h1, h2 = rng.choice([(0, 23), (8, 10)])
        ap = [m1, 1, h1, m2, [31, 28, 31, 30, 31, 30, 31, 31, 30, 31, 30, 31][m2 - 1], h2, 1, 0]
        full = [m * 10000 + h * 100 for m in range(m1, m2 + 1) for h in range(h1, h2 + 1)]
        dts = sorted(rng.sample(full, rng.randint(1, min(6, len(full)))))
    style = rng.random()
    if style < 0.5:
        vals = [rng.randint(-20, 40) for _ in dts]
    elif style < 0.8:
        vals = [rng.randint(-40, 80) / 2.0 for _ in dts]
    else:
        vals = [rng.choice([0, 0, 360, 370, -10, 45, 725]) for _ in dts]
    spec = {'cls': cls, 'mutable': mutable, 'unit': unit, 'ap': ap, 'meta': meta, 'dts': dts, 'vals': vals}
    if energy is None:
        energy = rng.random() < 0.15
    if energy:
        # a source of the energy family (base units only): area / time normalisations apply
        dt = rng.choice(['Energy', 'EnergyIntensity', 'Power', 'EnergyFlux'])
        spec.update(dtype=dt, unit=BASE_UNIT[dt], vals=[abs(v) + 1 for v in vals])
        spec['meta'] = dict((k, v) for k, v in meta.items() if k != 'type')
        if rng.random() < 0.6:
            spec['meta']['type'] = rng.choice(['Zone Energy', 'Zone Energy Intensity'])
    return spec


DERIVE_OPS = ['add', 'sub', 'mul', 'div', 'neg', 'dup', 'to_mutable', 'to_immutable', 'to_disc', 'to_unit',
              'to_ip', 'to_si', 'aligned', 'filter_pattern', 'filter_range', 'filter_keys', 'filter_ap',
              'cull', 'agg', 'validate', 'interp_holes', 'interp_ts', 'cfa', 'windrose',
              'cfa_ref', 'normalize', 'aggregate_area', 'time_agg', 'time_rate']
CONV_OPS = ('to_unit', 'to_ip', 'to_si')
ENERGY_OPS = ('normalize', 'aggregate_area', 'time_agg', 'time_rate')
MUTATORS = ['conv_unit', 'conv_ip', 'conv_si', 'set_values', 'set_item', 'meta_set', 'meta_replace',
            'cull_inplace', 'meta_append', 'set_values_ref']


def gen_derive(rng, infos, malformed):
    """infos: per live object dict(cls, n, dts, ap, mutable, validated). Returns (on, op, args)."""
    colls = [j for j, o in enumerate(infos) if o['kind'] == 'coll']
    on = rng.choice(colls)
    op = rng.choice(DERIVE_OPS)
    if rng.random() < 0.12:
        # round 4: an operation whose subclass variants look at the hidden validated flag, asked of an
        # object that carries the flag already (derived from a continuous one / validated before)
        flagged = [j for j in colls if infos[j]['validated'] and infos[j]['cls'] != 'hc']
        if flagged:
            on = rng.choice(flagged)
            op = rng.choice(['validate', 'validate', 'dup', 'to_immutable', 'to_mutable', 'cull', 'interp_holes',
                             'agg', 'aligned', 'filter_keys'])
    me = infos[on]
    if me['dtype'] not in BASE_UNIT:            # irradiance types of a Wea: no conversion / normalisation
        if op in CONV_OPS or op in ENERGY_OPS:
            return gen_derive(rng, infos, malformed)
    elif me['dtype'] != 'Temperature':
        if op in CONV_OPS:                      # unit conversion is modelled for Temperature only
            op = rng.choice(ENERGY_OPS)
    elif op in ENERGY_OPS and rng.random() < 0.7:
        return gen_derive(rng, infos, malformed)    # mostly on the energy family (else: rejection paths)
    a = {}
    same = [j for j in colls if infos[j]['cls'] == me['cls'] and infos[j]['n'] == me['n']]
    lists = [j for j, o in enumerate(infos) if o['kind'] == 'list']
    if op in ('normalize', 'aggregate_area'):
        a['area'] = rng.choice([2, 4, 0.5]) if not malformed else 0
    elif op in ('time_agg', 'time_rate'):
        pass
    elif op == 'cfa_ref':
        argl = [j for j, o in enumerate(infos) if o['kind'] == 'args' and o['first'] == on]
        if not argl:
            return gen_derive(rng, infos, malformed)
        a['args'] = rng.choice(argl)
        a['u'] = rng.randrange(3) if not malformed else 3
    elif op in ('add', 'sub', 'mul', 'div'):
        if rng.random() < 0.5:
            a['s'] = rng.choice([2, 3, 0.5, -1]) if not (malformed and op == 'div') else 0
        else:
            a['c'] = rng.choice(same) if not malformed else rng.choice(colls)
            if op == 'div' and infos[a['c']]['nearzero']:
                return gen_derive(rng, infos, malformed)    # 0 in exact arithmetic, 1e-15 as a float
    elif op == 'to_unit':
        a['u'] = 3 if malformed else rng.randrange(3)
    elif op == 'aligned':
        r = rng.random()
        fit = [j for j in lists if infos[j]['n'] == me['n']] if not malformed else lists
        if r < 0.35 and fit:
            a['r'] = rng.choice(fit)                        # the caller's own list object
        elif r < 0.6:
            a['v'] = rng.choice([0, 5, 2.5])
        else:
            a['v'] = [rng.randint(0, 9) for _ in range(me['n'] + (1 if malformed else 0))]
        if me['dtype'] != 'Temperature':
            a['u'] = None
        else:
            a['u'] = rng.choice([None, None, 0, 1, 2]) if not malformed else rng.choice([None, 3])
        a['m'] = rng.choice([None, None, True, False])
    elif op == 'filter_pattern':
        a['mask'] = [rng.random() < 0.6 for _ in range(rng.choice([1, 2, 3, me['n']]))]
        if malformed:
            a['mask'] = []
    elif op == 'filter_range':
        a['gt'] = rng.choice([-1000, 0, 10])
        a['lt'] = rng.choice([1000, 20, 300])
        a['stmt'] = rng.random() < 0.3
    elif op == 'filter_keys':
        k = rng.randint(1, min(6, me['n']))
        a['keys'] = sorted(rng.sample(me['dts'], k))
        if me['cls'] != 'hc' and rng.random() < 0.3:
            a['keys'].append(max(me['dts']) + 1)            # a key that selects nothing
        if me['cls'] in ('hd', 'hc') and rng.random() < 0.3:
            a['hoys'] = True
    elif op == 'filter_ap':
        ap = list(me['ap'])
        if me['cls'] in ('hd', 'hc'):
            if ap[6] != 1:
                return gen_derive(rng, infos, malformed)
            d1, d2 = ap[1], ap[4]
            n1 = rng.randint(d1, d2)
            n2 = rng.randint(n1, d2)
            ap[1], ap[4] = n1, n2
            if rng.random() < 0.5:
                ap[2], ap[5] = max(ap[2], rng.choice([0, 8])), min(ap[5], rng.choice([23, 17]))
        else:
            ap[6] = 1
        a['ap'] = ap
    elif op == 'cull':
        a['ts'] = rng.choice([1, 1, 2, 4]) if not malformed else 7
    elif op == 'agg':
        a['iv'] = rng.choice(['daily', 'monthly', 'mph'])
        a['fn'] = rng.choice(['average', 'total', 'percentile'])
        a['p'] = rng.choice([25, 50, 90])
    elif op == 'interp_ts':
        a['ts'] = rng.choice([2, 4]) if not malformed else 3
    elif op == 'cfa':
        if rng.random() < 0.5:
            a['s'] = rng.choice([1, 2.5])
        else:
            a['c'] = rng.choice(same) if not malformed else rng.choice(colls)
        a['u'] = rng.randrange(3) if not malformed else 3
    elif op == 'windrose':
        ok = [j for j in same if infos[j]['validated']]
        if me['cls'] not in ('hd', 'hc') or not me['validated'] or not ok:
            return gen_derive(rng, infos, malformed)
        a['j'] = rng.choice(ok)
        a['n'] = rng.choice([4, 8])
    return on, op, a


def gen_mutator(rng, infos, malformed):
    colls = [j for j, o in enumerate(infos) if o['kind'] == 'coll' and o['n'] > 0] or \
        [j for j, o in enumerate(infos) if o['kind'] == 'coll']
    malformed = malformed or not infos[colls[0]]['n']
    on = rng.choice(colls)
    me = infos[on]
    op = rng.choice(MUTATORS)
    if me['dtype'] != 'Temperature' and op in ('conv_unit', 'conv_ip', 'conv_si'):
        op = 'set_item'
    a = {}
    if op == 'meta_append':
        # mostly a key that holds a nested list; sometimes a scalar key (AttributeError) or none (KeyError)
        nested = [k for k, t in me['meta'].items() if t == 'list' and k in ('k1', 'k2', 'k3', 'type')]
        if nested and rng.random() < 0.8:
            a['k'] = rng.choice(nested)
        else:
            a['k'] = rng.choice(['k1', 'k2', 'k3'])
        a['x'] = rng.choice([77, 'more'])
    elif op == 'set_values_ref':
        lists = [j for j, o in enumerate(infos) if o['kind'] == 'list']
        fit = [j for j in lists if infos[j]['n'] == me['n']] if not malformed else lists
        if not fit:
            return gen_mutator(rng, infos, malformed)
        a['r'] = rng.choice(fit)
    elif op == 'conv_unit':
        a['u'] = rng.randrange(3) if not malformed else 3
    elif op == 'set_values':
        a['v'] = [rng.randint(50, 99) for _ in range(me['n'] + (1 if malformed else 0))]
    elif op == 'set_item':
        a['i'] = rng.randrange(-me['n'], me['n']) if not malformed else me['n'] + 3
        a['x'] = rng.choice([99, -7, 0.5])
    elif op == 'meta_set':
        a['k'] = rng.choice(['k1', 'k2', 'k3'])
        a['v'] = rng.choice([42, 'edited', [5, 6], ['x']])
    elif op == 'meta_replace':
        a['m'] = rng.choice([{}, {'k1': 5}, {'k2': 'new', 'k3': 8}, {'k1': [9], 'k3': 1}])
    elif op == 'cull_inplace':
        # a continuous collection culled to another timestep no longer matches its period: not generated
        # (nor is a collection emptied by culling: the code then leaves an object no constructor accepts)
        okts = [t for t in (1, 1, 2, 3, 4) if any(d % (60 // t) == 0 for d in me['dts'])] or [me['ap'][6]]
        a['ts'] = (me['ap'][6] if me['cls'] == 'hc' else rng.choice(okts)) if not malformed else 7
    return on, op, a


# ---------------------------------------------------------------------------------------------
# model command lines


def _lst(xs, f=str):
    xs = list(xs)
    return ' '.join([str(len(xs))] + [f(x) for x in xs])


def _meta_item(k, v):
    if isinstance(v, list):
        return '%d L %s' % (MKEYS[k], _lst(v, _mv))
    return '%d T %s' % (MKEYS[k], _mv(v))


def _meta_line(m):
    return ' '.join([str(len(m))] + [_meta_item(k, v) for k, v in m.items()])


def cmd_new(spec, validated, vr=None):
    vals = 'V ' + _lst(spec['vals'], _frac) if vr is None else 'VR %d' % vr
    return 'new %s %s %s %d %d %s %s %s %s' % (
        spec['cls'], _b(spec['mutable']), _b(validated), DTYPES[spec.get('dtype', 'Temperature')],
        UNITS.index(spec['unit']), _lst(spec['ap']), _meta_line(spec['meta']), _lst(spec['dts']), vals)


def _operand(a):
    return 'c %d' % a['c'] if 'c' in a else 's ' + _frac(a['s'])


def _type_token(meta, op):
    """The new 'type' metadata value of normalize_by_area / aggregate_by_area (computed here, not read
    from the result)."""
    old = meta.get('type')
    if old is None:
        return "'-'"
    if op == 'normalize':
        return _mv('{} {}'.format(old, 'Intensity'))
    return _mv(str(old).replace(' Intensity', ''))


def cmd_derive(on, op, a, res, src_info):
    """Model command; `res` = the implementation's new objects (payload ops read them) or None."""
    head = 'd %d ' % on
    if op in ('add', 'sub', 'mul', 'div'):
        return head + op + ' ' + _operand(a)
    if op in ('neg', 'dup', 'to_mutable', 'to_immutable', 'to_disc', 'to_ip', 'to_si', 'time_agg', 'time_rate'):
        return head + op
    if op == 'to_unit':
        return head + 'to_unit %d' % a['u']
    if op in ('normalize', 'aggregate_area'):
        return head + '%s %s %s' % (op, _frac(a['area']), _type_token(src_info['meta_values'], op))
    if op == 'aligned':
        if 'r' in a:
            vs = 'r %d' % a['r']
        else:
            v = a['v']
            vs = 'l ' + _lst(v, _frac) if isinstance(v, list) else 's ' + _frac(v)
        return head + 'aligned %s %s %s' % (vs, '-' if a.get('u') is None else a['u'],
                                            '-' if a.get('m') is None else _b(a['m']))
    if op == 'cfa_ref':
        return head + 'cfa_ref %d %d' % (a['args'], a['u'])
    if op == 'filter_pattern':
        return head + 'filter_pattern ' + _lst(a['mask'], _b)
    if op == 'filter_range':
        return head + 'filter_range %s %s' % (_frac(a['gt']), _frac(a['lt']))
    if op == 'filter_keys':
        return head + 'filter_keys ' + _lst(a['keys'])
    if op == 'filter_ap':
        cont = a['ap'][2] == 0 and a['ap'][5] == 23
        return head + 'filter_ap %s %s %s' % (_lst(a['ap']), _lst(ap_keys(src_info['cls'], a['ap'])), _b(cont))
    if op == 'cull':
        return head + 'cull %d' % a['ts']
    r = res[0] if res else None
    rcls = CLS[r._collection_type] if r is not None else None
    pd = _lst([_dt_token(rcls, d) for d in r.datetimes]) if r is not None else '0'
    pv = _lst(r.values, _frac) if r is not None else '0'
    if op == 'agg':
        name = a['fn'] if a['fn'] != 'percentile' else '%s percentile' % a['p']
        return head + 'agg %s %s %s %s' % (a['iv'], _mv(name), pd, pv)
    if op == 'validate':
        ap = _lst(_ap_tokens(r.header.analysis_period)) if r is not None else '0'
        return head + 'validate %s %s %s' % (ap, pd, pv)
    if op == 'interp_holes':
        return head + 'interp_holes %s %s' % (pd, pv)
    if op == 'interp_ts':
        return head + 'interp_ts %d %s %s' % (a['ts'], pd, pv)
    if op == 'cfa':
        return head + 'cfa %s %d' % (_operand(a), a['u'])
    if op == 'windrose':
        return 'w %d %d' % (on, a['j'])
    raise ValueError(op)


def cmd_mutator(on, op, a):
    head = 'm %d ' % on
    if op == 'conv_unit':
        return head + 'conv_unit %d' % a['u']
    if op in ('conv_ip', 'conv_si'):
        return head + op
    if op == 'set_values':
        return head + 'set_values ' + _lst(a['v'], _frac)
    if op == 'set_values_ref':
        return head + 'set_values_ref %d' % a['r']
    if op == 'set_item':
        return head + 'set_item %d %s' % (a['i'], _frac(a['x']))
    if op == 'meta_set':
        return head + 'meta_set ' + _meta_item(a['k'], a['v'])
    if op == 'meta_append':
        return head + 'meta_append %d %s' % (MKEYS[a['k']], _mv(a['x']))
    if op == 'meta_replace':
        return head + 'meta_replace ' + _meta_line(a['m'])
    if op == 'cull_inplace':
        return head + 'cull_inplace %d' % a['ts']
    if op == 'truncate':
        return head + 'truncate %d' % a['n']
    raise ValueError(op)


PAYLOAD_OPS = ('agg', 'validate', 'interp_holes', 'interp_ts')


def _info(c, live=()):
    kind = _kind(c)
    if kind == 'list':
        return {'kind': 'list', 'n': len(c)}
    if kind == 'args':
        first = [i for i, o in enumerate(live) if o is c[0]]
        return {'kind': 'args', 'first': first[0] if first else -1}
    if kind == 'epw':
        return {'kind': 'epw', 'n': len(c.dry_bulb_temperature.values), 'meta': {}}
    if kind == 'wea':
        d = c.direct_normal_irradiance
        return {'kind': 'wea', 'cls': CLS[d._collection_type], 'n': len(d.values),
                'dts': [_dt_token('hd', x) for x in d.datetimes], 'ap': _ap_tokens(d.header.analysis_period),
                'meta': {}}
    cls = CLS[c._collection_type]
    md = c.header.metadata
    return {'kind': 'coll', 'cls': cls, 'n': len(c.values), 'dts': [_dt_token(cls, d) for d in c.datetimes],
            'ap': _ap_tokens(c.header.analysis_period), 'mutable': c.is_mutable,
            'validated': c.validated_a_period, 'dtype': type(c.header.data_type).__name__,
            'meta': dict((k, 'list' if isinstance(v, list) else 'tok') for k, v in md.items()),
            'meta_values': dict((k, v) for k, v in md.items() if k == 'type'),
            'nearzero': any(0 < abs(v) < 1e-6 for v in c.values)}


def _obs_all(live):
    return ' # '.join(obs_str(o, live) for o in live)


WEA_DERIVED = {'ghi': 12, 'dhi': 13, 'dir': 14}


def _wea_from_dict(st):
    """A Wea through Wea.from_dict (it builds its own two collections)."""
    from ladybug.wea import Wea
    dts = []
    for t in st['dts']:
        d = date(2017, 1, 1).fromordinal(date(2017, 1, 1).toordinal() + t // 1440)
        dts.append([d.month, d.day, (t % 1440) // 60, t % 60])
    data = {'type': 'Wea',
            'location': {'type': 'Location', 'city': st['loc'][2], 'state': 'ST', 'country': st['loc'][1],
                         'latitude': 40.0, 'longitude': -70.0, 'time_zone': -5.0, 'elevation': 10.0,
                         'station_id': '1', 'source': st['loc'][0]},
            'direct_normal_irradiance': list(st['dni']), 'diffuse_horizontal_irradiance': list(st['dhi']),
            'timestep': 1, 'is_leap_year': False, 'datetimes': dts}
    return Wea.from_dict(data)


def _wea_member(w, k):
    return _members(w)[k]


ANNUAL_AP = [1, 1, 0, 12, 31, 23, 1, 0]
ANNUAL_DTS = [h * 60 for h in range(8760)]


def sky_temperature_repaired():
    """Does EPW.sky_temperature give its result an own metadata dict?  (Proposed repair
    fixes/C14_epw_sky_temperature_metadata.patch; until it is committed the model's `epwSky` – which
    describes the repaired behaviour – is not compared, the oracle reports the defect.)"""
    from ladybug.epw import EPW
    e = EPW.from_missing_values()
    e.metadata['probe'] = 1
    return e.sky_temperature.header.metadata is not e.metadata


def sky_temperature_deep():
    """Does EPW.sky_temperature copy nested metadata values too?  (Proposed repair
    fixes/C14_epw_sky_temperature_deepcopy.patch; the model's `epwSky` describes the deep copy.)"""
    from ladybug.epw import EPW
    e = EPW.from_missing_values()
    e.metadata['probe'] = [1]
    return e.sky_temperature.header.metadata['probe'] is not e.metadata['probe']


def exec_step(live, st):
    """Execute one plain step on the real objects (appending new live objects).
    Returns a list of (status text, model command) – one per model command – or None when the step is
    to be dropped."""
    k = st['k']
    if k == 'new':                                   # a source; 'vr': values = the caller's list live[vr]
        try:
            c = build_obj(st['spec'], None if st.get('vr') is None else live[st['vr']])
        except Exception as e:
            return [('err:' + err_name(e), cmd_new(st['spec'], st['spec']['cls'] == 'hc', st.get('vr')))]
        cmd = cmd_new(st['spec'], c.validated_a_period, st.get('vr'))
        status = 'ok %d %s' % (len(live), share_str(live, c))
        live.append(c)
        return [(status, cmd)]
    if k == 'nl':
        live.append(list(st['v']))
        return [('ok %d' % (len(live) - 1), 'nl ' + _lst(st['v'], _frac))]
    if k == 'na':
        other = live[st['c']] if 'c' in st else st['s']
        live.append([live[st['i']], other])
        return [('ok %d' % (len(live) - 1), 'na 2 c %d %s' % (st['i'], _operand(st)))]
    if k == 'lm':
        lst = live[st['on']]
        try:
            if st['op'] == 'append':
                lst.append(st['x'])
            else:
                lst[st['i']] = st['x']
            status = 'ok'
        except Exception as e:
            status = 'err:' + err_name(e)
        cmd = 'lm %d ' % st['on'] + ('append %s' % _frac(st['x']) if st['op'] == 'append'
                                     else 'set %d %s' % (st['i'], _frac(st['x'])))
        return [(status, cmd)]
    if k == 'wn':
        cont = st['ap'][2] == 0 and st['ap'][5] == 23
        cmd = 'wn %s %s %s %s %s %s %s' % (_lst(st['loc'], _mv), _lst([1, 0, 0]), _lst(st['ap']),
                                           _lst(st['dts']), _lst(st['dni'], _frac), _lst(st['dhi'], _frac),
                                           _b(cont))
        try:
            w = _wea_from_dict(st)
        except Exception as e:
            return [('err:' + err_name(e), cmd)]
        status = 'ok %d %s' % (len(live), share_str_wea(live, w))
        live.append(w)
        return [(status, cmd)]
    if k == 'wi':
        from ladybug.wea import Wea
        from ladybug.location import Location
        cmd = 'wi %s %d %d' % (_lst(st['loc'], _mv), st['i'], st['j'])
        try:
            w = Wea(Location(st['loc'][2], 'ST', st['loc'][1], 40.0, -70.0, -5.0, 10.0, source=st['loc'][0]),
                    live[st['i']], live[st['j']])
        except Exception as e:
            return [('err:' + err_name(e), cmd)]
        status = 'ok %d %s' % (len(live), share_str_wea(live, w))
        live.append(w)
        return [(status, cmd)]
    if k == 'wd':
        w = live[st['on']].duplicate()
        status = 'ok %d %s' % (len(live), share_str_wea(live, w))
        live.append(w)
        return [(status, 'wd %d' % st['on'])]
    if k == 'wf':
        w0 = live[st['on']]
        a = dict(st['args'])
        info = _info(w0, live)
        cmd = 'wf %d ' % st['on'] + cmd_derive(0, st['op'], a, None, info).split(' ', 2)[2]
        try:
            if st['op'] == 'filter_pattern':
                w = w0.filter_by_pattern(a['mask'])
            elif st['op'] == 'filter_keys' and a.get('hoys'):
                w = w0.filter_by_hoys([k / 60.0 for k in a['keys']])
            elif st['op'] == 'filter_keys':
                w = w0.filter_by_moys(a['keys'])
            else:
                w = w0.filter_by_analysis_period(_mk_ap(a['ap']))
        except Exception as e:
            return [('err:' + err_name(e), cmd)]
        status = 'ok %d %s' % (len(live), share_str_wea(live, w))
        live.append(w)
        return [(status, cmd)]
    if k == 'wr':
        w = live[st['on']]
        if st['what'] == 'ghi':
            res = [w.global_horizontal_irradiance]
        elif st['what'] == 'dhi':
            res = [w.direct_horizontal_irradiance]
        else:
            res = list(w.directional_irradiance(45, 180))
        out = []
        for n, r in enumerate(res):
            # the period object is the Wea's own, except for the three results of directional_irradiance
            # that come from header.duplicate()
            share_ap = st['what'] != 'dir' or n == 1
            status = 'ok %d %s' % (len(live), share_str(live, r))
            out.append((status, 'wr %d %d %s %s' % (st['on'], WEA_DERIVED[st['what']], _b(share_ap),
                                                   _lst(r.values, _frac))))
            live.append(r)
        return out
    if k == 'en':
        from ladybug.epw import EPW
        e = EPW.from_missing_values()
        db, dp = _epw_lists(st['base']) if 'base' in st else (st['db'], st['dp'])
        e.dry_bulb_temperature.values = list(db)
        e.dew_point_temperature.values = list(dp)
        if 'base' in st:        # radiation / infrared fields with data (exports and sky temperature read them)
            e.direct_normal_radiation.values = [max(0, 40 * (db[i] % 13) - 100) for i in range(8760)]
            e.diffuse_horizontal_radiation.values = [max(0, 9 * (dp[i] % 11)) for i in range(8760)]
            e.horizontal_infrared_radiation_intensity.values = [300 + db[i] for i in range(8760)]
        status = 'ok %d %s' % (len(live), share_str_wea(live, e))
        live.append(e)
        return [(status, 'en %s %s %s %s' % (_lst(ANNUAL_AP), _lst(ANNUAL_DTS), _lst(db, _frac),
                                           _lst(dp, _frac)))]
    if k == 'ex':               # oracle only: any public call on the EPW, succeeding or refused
        tmp = tempfile.mkdtemp()
        try:
            _epw_call(live[st['on']], st['call'], tmp)
            status = 'ok'
        except Exception as ex:
            status = 'err:' + err_name(ex)
        finally:
            shutil.rmtree(tmp, ignore_errors=True)
        return [(status, '')]
    if k == 'ec':
        e = live[st['on']]
        if st['ip']:
            e.convert_to_ip()
        else:
            e.convert_to_si()
        return [('ok', 'ec %d %s' % (st['on'], _b(st['ip'])))]
    if k == 'ef':
        try:
            live[st['on']].to_file_string()
            status = 'ok'
        except Exception as ex:
            status = 'err:' + err_name(ex)
        return [(status, 'ef %d' % st['on'])]
    if k == 'ew':
        tmp = tempfile.mkdtemp()
        try:
            live[st['on']].to_wea(os.path.join(tmp, 'x.wea'), hoys=list(st['hoys']))
            status = 'ok'
        except Exception as ex:
            status = 'err:' + err_name(ex)
        finally:
            shutil.rmtree(tmp, ignore_errors=True)
        return [(status, 'ew %d %s' % (st['on'], _lst(st['hoys'])))]
    if k == 'es':
        r = live[st['on']].sky_temperature
        status = 'ok %d %s' % (len(live), share_str(live, r))
        live.append(r)
        return [(status, 'es %d %s %s %s' % (st['on'], _lst(_ap_tokens(r.header.analysis_period)),
                                            _lst([_dt_token('hc', d) for d in r.datetimes]),
                                            _lst(r.values, _frac)))]
    if k == 'wm':
        a = dict(st['args'])
        a['_live'] = live
        try:
            apply_mutator(_wea_member(live[st['on']], st['mk']), st['op'], a)
            status = 'ok'
        except Exception as e:
            status = 'err:' + err_name(e)
        return [(status, 'wm %d %d %s' % (st['on'], st['mk'], cmd_mutator(0, st['op'], a).split(' ', 2)[2]))]
    if k == 'wx':               # oracle only: a deriving call on a Wea that the model does not have, by name
        try:
            res = _comp_derive(live[st['on']], st['call'])
        except Exception as ex:
            return [('err:' + err_name(ex), '')]
        n0 = len(live)
        live.extend(res)
        return [('ok %d' % n0, '')]
    if k == 'wk':               # oracle only: an in-place edit of a Wea's own settings, by name
        try:
            _comp_edit(live[st['on']], st['name'], st['token'])
            status = 'ok'
        except Exception as ex:
            status = 'err:' + err_name(ex)
        return [(status, '')]
    if k == 'ws':
        live[st['on']].metadata[st['key']] = st['v']
        return [('ok', 'ws %d %d %s' % (st['on'], MKEYS[st['key']], _mv(st['v'])))]
    a = dict(st['args'])
    if k == 'd':
        info = _info(live[st['on']], live)
        try:
            res = apply_derive(live, st['on'], st['op'], a)
            status = None
        except Exception as e:
            res, status = None, 'err:' + err_name(e)
        if st['op'] in PAYLOAD_OPS and res is None and status != 'err:attr':
            return None                      # the payload operation failed inside C03/C13 territory
        cmd = cmd_derive(st['on'], st['op'], a, res, info)
        if res is not None:
            n0 = len(live)
            parts = []
            for r in res:
                parts.append(share_str(live, r))
                live.append(r)
            status = 'ok %d %s' % (n0, ' '.join(parts))
        return [(status, cmd)]
    if k == 'm':
        a['_live'] = live
        try:
            apply_mutator(live[st['on']], st['op'], a)
            status = 'ok'
        except Exception as e:
            status = 'err:' + err_name(e)
        return [(status, cmd_mutator(st['on'], st['op'], a))]
    raise ValueError(k)


def gen_wea_step(rng, infos, malformed, alias_ok):
    weas = [j for j, o in enumerate(infos) if o['kind'] == 'wea']
    colls = [j for j, o in enumerate(infos) if o['kind'] == 'coll']
    r = rng.random()
    if not weas or r < 0.2:
        if alias_ok and rng.random() < 0.25:
            hourly = [j for j in colls if infos[j]['cls'] in ('hd', 'hc')]
            if hourly:
                i = rng.choice(hourly)
                same = [j for j in hourly if infos[j]['cls'] == infos[i]['cls'] and infos[j]['n'] == infos[i]['n']]
                return {'k': 'wi', 'loc': ['src', 'Land', 'Town'], 'i': i, 'j': rng.choice(same)}
        d1 = rng.randint(1, 3)
        if rng.random() < 0.6:
            ap = [1, d1, 0, 1, d1, 23, 1, 0]
        else:
            ap = [1, d1, 6, 1, d1 + rng.randint(0, 1), 18, 1, 0]
        dts = [(d - 1) * 1440 + h * 60 for d in range(ap[1], ap[4] + 1) for h in range(ap[2], ap[5] + 1)]
        return {'k': 'wn', 'loc': [rng.choice(['src', 'TMY']), 'Land', rng.choice(['Town', 'City'])], 'ap': ap,
                'dts': dts, 'dni': [rng.randint(0, 900) for _ in dts], 'dhi': [rng.randint(0, 200) for _ in dts]}
    on = rng.choice(weas)
    me = infos[on]
    if r < 0.3:
        return {'k': 'wd', 'on': on}
    if r < 0.5:
        op = rng.choice(['filter_pattern', 'filter_keys', 'filter_ap'])
        if op == 'filter_ap' and me['ap'][6] != 1:
            op = 'filter_keys'
        if op == 'filter_pattern':
            a = {'mask': [rng.random() < 0.6 for _ in range(rng.choice([2, 3, me['n']]))] if not malformed else []}
        elif op == 'filter_keys':
            a = {'keys': sorted(rng.sample(me['dts'], rng.randint(1, min(6, me['n']))))}
        else:
            ap = list(me['ap'])
            n1 = rng.randint(ap[1], ap[4])
            ap[1], ap[4] = n1, rng.randint(n1, ap[4])
            if rng.random() < 0.5:
                ap[2], ap[5] = max(ap[2], 8), min(ap[5], 17)
            a = {'ap': ap}
        return {'k': 'wf', 'on': on, 'op': op, 'args': a}
    if r < 0.65:
        return {'k': 'wr', 'on': on, 'what': rng.choice(['ghi', 'dhi', 'dir'])}
    if r < 0.92:
        op = rng.choice(['set_values', 'set_item', 'meta_set', 'meta_append', 'meta_replace', 'set_item'])
        a = {}
        if op == 'set_values':
            a['v'] = [rng.randint(50, 99) for _ in range(me['n'] + (1 if malformed else 0))]
        elif op == 'set_item':
            a['i'] = rng.randrange(-me['n'], me['n']) if not malformed else me['n'] + 3
            a['x'] = rng.choice([99, 0.5])
        elif op == 'meta_set':
            a['k'] = rng.choice(['k1', 'source', 'k3'])
            a['v'] = rng.choice([42, 'edited', [5, 6]])
        elif op == 'meta_append':
            a['k'] = rng.choice(['k1', 'source'])
            a['x'] = 7
        else:
            a['m'] = rng.choice([{}, {'k1': [9]}])
        return {'k': 'wm', 'on': on, 'mk': rng.randrange(2), 'op': op, 'args': a}
    return {'k': 'ws', 'on': on, 'key': rng.choice(['city', 'k1']), 'v': rng.choice(['X', 3])}


WEA_SETTING_EDITS = ['meta_key', 'meta_new_key', 'meta_nested', 'meta_update', 'meta_replace', 'meta_clear',
                     'meta_del', 'enforce']
WEA_X_DERIVES = ['filter_sun_up', 'copy', 'dict', 'illuminance']


def gen_wea_focus_step(rng, infos, malformed, modelled, nstep):
    """Round 5: one step of a history that lives around Wea objects: derive (duplicate, every filter, the
    computed collections, copy / dictionary round trip / illuminance), then edit the SETTINGS of either Wea
    (metadata key / nested value / whole dict, datetime convention) or one of the collections."""
    weas = [j for j, o in enumerate(infos) if o['kind'] == 'wea']
    colls = [j for j, o in enumerate(infos) if o['kind'] == 'coll']
    r = rng.random()
    if not weas or r < 0.05:
        return gen_wea_step(rng, [], malformed, False)
    on = rng.choice(weas[-3:]) if rng.random() < 0.7 else rng.choice(weas)
    me = infos[on]
    if r < 0.36:
        q = rng.random()
        if q < 0.2:
            return {'k': 'wd', 'on': on}
        if q < 0.75 or modelled:
            op = rng.choice(['filter_pattern', 'filter_keys', 'filter_ap'])
            if op == 'filter_ap' and me['ap'][6] != 1:
                op = 'filter_keys'
            if op == 'filter_pattern':
                a = {'mask': [True] + [rng.random() < 0.6 for _ in range(rng.choice([1, 2, me['n'] - 1]))]
                     if not malformed else []}
            elif op == 'filter_keys':
                a = {'keys': sorted(rng.sample(me['dts'], rng.randint(1, min(6, me['n']))))}
                if rng.random() < 0.4:
                    a['hoys'] = True
            else:
                ap = list(me['ap'])
                n1 = rng.randint(ap[1], ap[4])
                ap[1], ap[4] = n1, rng.randint(n1, ap[4])
                a = {'ap': ap}
            return {'k': 'wf', 'on': on, 'op': op, 'args': a}
        return {'k': 'wx', 'on': on, 'call': rng.choice(WEA_X_DERIVES)}
    if r < 0.5:
        return {'k': 'wr', 'on': on, 'what': rng.choice(['ghi', 'dhi', 'dir'])}
    if r < 0.8:
        if modelled or rng.random() < 0.3:
            return {'k': 'ws', 'on': on, 'key': rng.choice(['city', 'k1', 'source']), 'v': rng.choice(['X', 3, 'Y%d' % nstep])}
        return {'k': 'wk', 'on': on, 'name': rng.choice(WEA_SETTING_EDITS), 'token': 'h%d' % nstep}
    if r < 0.9 or not colls:
        op = rng.choice(['set_values', 'set_item', 'meta_set', 'meta_replace'])
        a = {'v': [rng.randint(50, 99) for _ in range(me['n'] + (1 if malformed else 0))],
             'i': rng.randrange(-me['n'], me['n']) if not malformed else me['n'] + 3, 'x': rng.choice([99, 0.5]),
             'k': rng.choice(['k1', 'source', 'k3']), 'm': rng.choice([{}, {'k1': [9]}])}
        a = dict((k, v) for k, v in a.items() if k in {'set_values': 'v', 'set_item': 'ix', 'meta_set': 'kv',
                                                      'meta_replace': 'm'}[op])
        if op == 'meta_set':
            a['v'] = rng.choice([42, 'edited', [5, 6]])
        return {'k': 'wm', 'on': on, 'mk': rng.randrange(2), 'op': op, 'args': a}
    on2, op, a = gen_mutator(rng, infos, malformed)
    return {'k': 'm', 'on': on2, 'op': op, 'args': a}


def gen_step(rng, infos, malformed, alias_ok=False):
    """One random step (plain data) given what is live."""
    colls = [j for j, o in enumerate(infos) if o['kind'] == 'coll']
    lists = [j for j, o in enumerate(infos) if o['kind'] == 'list']
    if rng.random() < 0.14:
        return gen_wea_step(rng, infos, malformed, alias_ok)
    r = rng.random()
    if r < 0.07:
        n = infos[rng.choice(colls)]['n'] if rng.random() < 0.8 else rng.randint(1, 5)
        return {'k': 'nl', 'v': [rng.randint(100, 140) for _ in range(n)]}
    if r < 0.11:
        i = rng.choice(colls)
        st = {'k': 'na', 'i': i}
        same = [j for j in colls if infos[j]['cls'] == infos[i]['cls'] and infos[j]['n'] == infos[i]['n']]
        if rng.random() < 0.5:
            st['s'] = rng.choice([1, 2.5])
        else:
            st['c'] = rng.choice(same)
        return st
    if r < 0.17 and lists:
        on = rng.choice(lists)
        n = infos[on]['n']
        if rng.random() < 0.3:
            return {'k': 'lm', 'on': on, 'op': 'append', 'x': 555}
        return {'k': 'lm', 'on': on, 'op': 'set', 'x': rng.choice([777, -1.5]),
                'i': rng.randrange(-n, n) if n and not malformed else n + 2}
    if r < 0.21 and lists:
        # a new source whose values are handed over as the caller's list
        vr = rng.choice(lists)
        spec = gen_spec(rng, rng.choice(['hd', 'daily', 'monthly', 'mph']), energy=False)
        n = infos[vr]['n']
        if len(spec['dts']) >= n and not malformed:
            spec['dts'] = spec['dts'][:n]
        spec['vals'] = []
        return {'k': 'new', 'spec': spec, 'vr': vr}
    if r < 0.6:
        on, op, a = gen_derive(rng, infos, malformed)
        return {'k': 'd', 'on': on, 'op': op, 'args': a}
    on, op, a = gen_mutator(rng, infos, malformed)
    return {'k': 'm', 'on': on, 'op': op, 'args': a}


def epw_fixed_history():
    """IP object, data cut short, export fails: the object must read as before (f030132, 77cbf95)."""
    db = [float(i % 30) for i in range(8760)]
    dp = [float(i % 20) - 5 for i in range(8760)]
    return [{'k': 'en', 'db': db, 'dp': dp}, {'k': 'ec', 'on': 0, 'ip': True},
            {'k': 'ew', 'on': 0, 'hoys': [3, 9000]},
            {'k': 'wm', 'on': 0, 'mk': 1, 'op': 'truncate', 'args': {'n': 4000}},
            {'k': 'ef', 'on': 0}, {'k': 'ec', 'on': 0, 'ip': False}, {'k': 'ef', 'on': 0}]


def epw_history(rng, sky_ok):
    """A short history around one EPW object (the value lists are a full year long)."""
    base = [rng.randint(-20, 35) for _ in range(24)]
    db = [base[i % 24] + (i // 24) % 7 for i in range(8760)]
    dp = [base[(i + 5) % 24] - 3 for i in range(8760)]
    steps = [{'k': 'en', 'db': db, 'dp': dp}]
    for _ in range(rng.randint(2, 5)):
        r = rng.random()
        if r < 0.2:
            steps.append({'k': 'ec', 'on': 0, 'ip': rng.random() < 0.6})
        elif r < 0.45:
            steps.append({'k': 'ef', 'on': 0})
        elif r < 0.6:
            steps.append({'k': 'ew', 'on': 0, 'hoys': rng.choice([[0, 12, 8759], [5], [3, 9000]])})
        elif r < 0.7:
            steps.append({'k': 'wm', 'on': 0, 'mk': rng.randrange(2), 'op': 'truncate',
                          'args': {'n': rng.choice([100, 8000])}})
        elif r < 0.8:
            steps.append({'k': 'wm', 'on': 0, 'mk': rng.randrange(2), 'op': rng.choice(['set_item', 'meta_set']),
                          'args': {'i': rng.randrange(50), 'x': 0.5, 'k': 'k1', 'v': rng.choice([4, [1]])}})
        elif r < 0.9:
            steps.append({'k': 'ws', 'on': 0, 'key': rng.choice(['city', 'k1']), 'v': rng.choice(['X', 3])})
        elif sky_ok:
            steps.append({'k': 'es', 'on': 0})
    return steps


def epw_oracle_history(rng, ip_first=False):
    """Oracle history around ONE EPW object: unit conversions, every export succeeding and refused (bad hours,
    bad path), sky temperature asked repeatedly with edits of the earlier answers in between, edits of
    member collections and metadata."""
    steps = [{'k': 'en', 'base': [rng.randint(-20, 35) for _ in range(24)]}]
    nlive, sky, first_sky = 1, [], None
    if ip_first or rng.random() < 0.5:
        steps.append({'k': 'ec', 'on': 0, 'ip': True})
    if rng.random() < 0.5:          # read -> edit the answer -> read again
        first_sky = len(steps)
        steps += [{'k': 'es', 'on': 0},
                  {'k': 'm', 'on': 1, 'op': rng.choice(['conv_unit', 'set_item', 'meta_set']),
                   'args': {'u': 2, 'i': 7, 'x': -99.5, 'k': 'k1', 'v': 'edited'}},
                  {'k': 'es', 'on': 0, 'again': first_sky}]
        sky, nlive = [1, 2], 3
    for _ in range(rng.randint(3, 7)):
        r = rng.random()
        if r < 0.12:
            steps.append({'k': 'ec', 'on': 0, 'ip': rng.random() < 0.6})
            first_sky = None                # (a successful edit: the next asking is a first asking)
        elif r < 0.5:
            steps.append({'k': 'ex', 'on': 0, 'call': rng.choice(EPW_CALLS)})
        elif r < 0.68:
            st = {'k': 'es', 'on': 0}
            if first_sky is not None:
                st['again'] = first_sky
            else:
                first_sky = len(steps)
            steps.append(st)
            sky.append(nlive)
            nlive += 1
        elif r < 0.84 and sky:
            op, a = rng.choice([('conv_unit', {'u': 1}), ('conv_unit', {'u': 2}), ('conv_ip', {}),
                                ('set_item', {'i': rng.randrange(100), 'x': 99.5}),
                                ('meta_set', {'k': 'k1', 'v': 'edited'}), ('meta_replace', {'m': {}}),
                                ('set_item', {'i': -1, 'x': 0}), ('conv_unit', {'u': 3})])
            steps.append({'k': 'm', 'on': rng.choice(sky), 'op': op, 'args': a})
        elif r < 0.93:
            steps.append({'k': 'wm', 'on': 0, 'mk': rng.randrange(2), 'op': rng.choice(['set_item', 'meta_set']),
                          'args': {'i': rng.randrange(50), 'x': 0.5, 'k': 'k1', 'v': rng.choice([4, [1]])}})
            first_sky = None
        else:
            steps.append({'k': 'ws', 'on': 0, 'key': rng.choice(['city', 'k1']), 'v': rng.choice(['X', 3])})
            first_sky = None
    return {'steps': steps}


def run_steps(steps, ctx=None):
    """Execute plain steps -> (model line, implementation trace, the steps that were kept)."""
    live, cmds, trace, kept = [], [], [], []
    for st in steps:
        n0 = len(live)
        out = exec_step(live, st)
        if out is None:
            continue
        kept.append(st)
        for k, (status, cmd) in enumerate(out):
            cmds.append(cmd)
            shown = live[:n0 + k + 1] if len(out) > 1 else live
            trace.append(status + ' # ' + _obs_all(shown))
    return 'H fixed ; ' + ' ; '.join(cmds), ' | '.join(trace), kept


def run_history(rng, ctx=None, max_steps=8, wea_focus=False, modelled=True):
    """Generate one history while executing it on the real objects.
    Returns (model request line, implementation trace in the driver's format, plain history).
    wea_focus (round 5): the history lives around Wea objects (`gen_wea_focus_step`); `modelled` False
    admits the steps the model does not have (oracle only)."""
    nsrc = rng.choice([1, 2, 2, 3]) if not wea_focus else 0
    specs = [gen_spec(rng)] if not wea_focus else []
    for _ in range(nsrc - 1):
        if rng.random() < 0.6:      # a sibling aligned with the first one (for arithmetic / windrose / cfa)
            s = copy.deepcopy(specs[0])
            s['vals'] = [rng.randint(1, 30) for _ in s['vals']]
            s['mutable'] = rng.random() < 0.5
            s['meta'] = rng.choice([{}, {'k1': 3}, {'k2': [4]}])
            if s.get('dtype', 'Temperature') == 'Temperature' and rng.random() < 0.45:
                # round 5: an aligned sibling in ANOTHER unit of the same data type (operand pairs that
                # are not alike: a + b, a - b, compute_function_aligned, WindRose .. leave both as they are)
                s['unit'] = rng.choice([u for u in ('C', 'F', 'K') if u != s['unit']])
                if ctx:
                    ctx.count('sources:sibling-in-another-unit')
            specs.append(s)
        else:
            specs.append(gen_spec(rng))
    live, cmds, trace, kept = [], [], [], []
    derived = []                # positions (in `kept`) of the deriving steps that answered

    def do(st):
        n0 = len(live)
        out = exec_step(live, st)
        if out is None:
            return
        kept.append(st)
        for k, (status, cmd) in enumerate(out):
            cmds.append(cmd)
            shown = live[:n0 + k + 1] if len(out) > 1 else live
            trace.append(status + ' # ' + _obs_all(shown))
        status = out[-1][0]
        if st['k'] in DERIVE_KINDS and status.startswith('ok') and st.get('op') != 'cfa_ref':
            derived.append(len(kept) - 1)
        if ctx:
            if 'again' in st:
                ctx.count('step:asked-again')
            if st['k'] in ('d', 'm'):
                ctx.count(('derive:' if st['k'] == 'd' else 'mutate:') + st['op'])
                ctx.count(('derive_status:' if st['k'] == 'd' else 'mutate_status:') + status.split(' ')[0])
            else:
                ctx.count('step:' + st['k'])

    for s in specs:
        do({'k': 'new', 'spec': s})
    if wea_focus:
        do(gen_wea_step(rng, [], False, False))
        if rng.random() < 0.5:      # a source with a past: own keys / a nested list in its metadata
            do({'k': 'ws', 'on': 0, 'key': 'k1', 'v': 'own'})
            if not modelled:
                do({'k': 'wk', 'on': 0, 'name': 'meta_update', 'token': 'past'})
    nsteps = rng.randint(1, max_steps) if not wea_focus else rng.randint(3, max_steps + 2)
    for istep in range(nsteps):
        malformed = rng.random() < 0.1
        infos = [_info(c, live) for c in live]
        if wea_focus and not (derived and rng.random() < 0.15):
            st = gen_wea_focus_step(rng, infos, malformed and rng.random() < 0.5, modelled, istep)
        elif derived and rng.random() < (0.12 if not wea_focus else 1.0):
            # the same question once more (same object, same arguments), whatever happened meanwhile
            pos = rng.choice(derived)
            st = dict(copy.deepcopy(kept[pos]), again=kept[pos].get('again', pos))
        else:
            st = gen_step(rng, infos, malformed, alias_ok=ctx is not None)
        if ctx and st['k'] == 'd':
            me = infos[st['on']]
            ctx.count('derive_on:%s/%s' % (me['cls'], 'mut' if me['mutable'] else 'imm'))
        st = json.loads(json.dumps(st))       # plain data only
        do(st)
    if ctx:
        ctx.count('history_len:%d' % nsteps)
        ctx.count('sources:%d' % nsrc if not wea_focus else 'histories:wea-centred')
    return 'H fixed ; ' + ' ; '.join(cmds), ' | '.join(trace), {'steps': kept}


def _rat(tok):
    return Fraction(tok)


def _obj_differ(mo, io):
    """Compare two object descriptions token by token; `V:` fields numerically (1e-9 relative)."""
    mf, jf = mo.split(' '), io.split(' ')
    if len(mf) != len(jf):
        return True
    for x, y in zip(mf, jf):
        if x == y:
            continue
        if not (x.startswith('V:') and y.startswith('V:')):
            return True
        mv = [t for t in x[2:].split(',') if t]
        iv = [t for t in y[2:].split(',') if t]
        if len(mv) != len(iv):
            return True
        for p, q in zip(mv, iv):
            p, q = _rat(p), _rat(q)
            if abs(p - q) > Fraction(1, 10 ** 9) * max(1, abs(p), abs(q)):
                return True
    return False


def traces_differ(model, impl):
    """None when equal (values within 1e-9 relative), else a short description."""
    ms, is_ = model.split(' | '), impl.split(' | ')
    if len(ms) != len(is_):
        return 'step count %d vs %d' % (len(ms), len(is_))
    for k, (m, i) in enumerate(zip(ms, is_)):
        mp, ip = m.split(' # '), i.split(' # ')
        if mp[0] != ip[0]:
            return 'step %d status: model %r impl %r' % (k, mp[0], ip[0])
        if len(mp) != len(ip):
            return 'step %d live count' % k
        for j, (mo, io) in enumerate(zip(mp[1:], ip[1:])):
            if mo != io and _obj_differ(mo, io):
                return 'step %d object %d: model %r impl %r' % (k, j, mo[:400], io[:400])
    return None


_HCSPEC = {'cls': 'hc', 'mutable': True, 'unit': 'C', 'ap': [1, 1, 0, 1, 1, 23, 1, 0], 'meta': {'k1': 1, 'k2': [1, 2]},
           'dts': [h * 60 for h in range(24)], 'vals': list(range(24))}

FIXED_HISTORIES = [
    # the defects the model describes as repaired (commits 1e6921b .. 53e5134 of /repo)
    {'steps': [{'k': 'new', 'spec': _HCSPEC},
               {'k': 'new', 'spec': dict(_HCSPEC, meta={}, vals=[370] * 24)},
               {'k': 'd', 'on': 0, 'op': 'add', 'args': {'c': 1}},
               {'k': 'm', 'on': 2, 'op': 'conv_unit', 'args': {'u': 1}},
               {'k': 'd', 'on': 0, 'op': 'to_immutable', 'args': {}},
               {'k': 'm', 'on': 0, 'op': 'conv_unit', 'args': {'u': 2}},
               {'k': 'd', 'on': 3, 'op': 'to_mutable', 'args': {}},
               {'k': 'm', 'on': 4, 'op': 'meta_set', 'args': {'k': 'k2', 'v': 42}},
               {'k': 'm', 'on': 3, 'op': 'conv_unit', 'args': {'u': 0}},
               {'k': 'd', 'on': 0, 'op': 'aligned', 'args': {'v': 5, 'u': None, 'm': None}},
               {'k': 'm', 'on': 5, 'op': 'meta_set', 'args': {'k': 'k3', 'v': 'edited'}},
               {'k': 'd', 'on': 3, 'op': 'cfa', 'args': {'s': 2, 'u': 0}},
               {'k': 'd', 'on': 1, 'op': 'windrose', 'args': {'j': 0, 'n': 4}}]},
    # nested metadata lists are deep-copied; the caller's lists are copied, never kept
    {'steps': [{'k': 'new', 'spec': _HCSPEC},
               {'k': 'd', 'on': 0, 'op': 'dup', 'args': {}},
               {'k': 'm', 'on': 1, 'op': 'meta_append', 'args': {'k': 'k2', 'x': 77}},
               {'k': 'd', 'on': 0, 'op': 'agg', 'args': {'iv': 'monthly', 'fn': 'average', 'p': 50}},
               {'k': 'm', 'on': 2, 'op': 'meta_append', 'args': {'k': 'k2', 'x': 78}},
               {'k': 'nl', 'v': [100 + i for i in range(24)]},
               {'k': 'm', 'on': 0, 'op': 'set_values_ref', 'args': {'r': 3}},
               {'k': 'm', 'on': 0, 'op': 'set_item', 'args': {'i': 0, 'x': 999}},
               {'k': 'lm', 'on': 3, 'op': 'set', 'i': 1, 'x': 888},
               {'k': 'd', 'on': 0, 'op': 'aligned', 'args': {'r': 3, 'u': None, 'm': None}},
               {'k': 'm', 'on': 4, 'op': 'set_item', 'args': {'i': 2, 'x': 5}},
               {'k': 'na', 'i': 0, 's': 2},
               {'k': 'd', 'on': 0, 'op': 'cfa_ref', 'args': {'args': 5, 'u': 0}},
               {'k': 'new', 'spec': {'cls': 'monthly', 'mutable': True, 'unit': 'C', 'ap': [1, 1, 0, 12, 31, 23, 1, 0],
                                     'meta': {}, 'dts': [1, 2], 'vals': []}, 'vr': 3},
               {'k': 'nl', 'v': [3, 4]},
               {'k': 'new', 'spec': {'cls': 'monthly', 'mutable': True, 'unit': 'C', 'ap': [1, 1, 0, 12, 31, 23, 1, 0],
                                     'meta': {}, 'dts': [1, 2], 'vals': []}, 'vr': 7},
               {'k': 'm', 'on': 8, 'op': 'set_item', 'args': {'i': 0, 'x': 0}},
               {'k': 'lm', 'on': 7, 'op': 'append', 'x': 9}]},
    # area / time normalisations
    {'steps': [{'k': 'new', 'spec': dict(_HCSPEC, dtype='Energy', unit='kWh', meta={'type': 'Zone Energy', 'k2': [1]})},
               {'k': 'd', 'on': 0, 'op': 'normalize', 'args': {'area': 2}},
               {'k': 'm', 'on': 1, 'op': 'meta_append', 'args': {'k': 'k2', 'x': 5}},
               {'k': 'd', 'on': 1, 'op': 'aggregate_area', 'args': {'area': 2}},
               {'k': 'd', 'on': 0, 'op': 'time_rate', 'args': {}},
               {'k': 'd', 'on': 3, 'op': 'time_agg', 'args': {}},
               {'k': 'd', 'on': 0, 'op': 'to_immutable', 'args': {}},
               {'k': 'd', 'on': 5, 'op': 'normalize', 'args': {'area': 4}},
               {'k': 'm', 'on': 6, 'op': 'set_item', 'args': {'i': 0, 'x': 1}}]},
]


def replay_history(hist):
    """Execute a stored plain history on the real objects -> (model line, impl trace)."""
    line, tr, _ = run_steps(hist['steps'])
    return line, tr


def correspondence(ctx):
    with contextlib.redirect_stdout(io.StringIO()):     # AnalysisPeriod prints "Updated end_day ..."
        _correspondence(ctx)


def _correspondence(ctx):
    rng = ctx.rng
    lines, traces, hists = [], [], []
    for h in FIXED_HISTORIES:
        line, tr = replay_history(h)
        lines.append(line)
        traces.append(tr)
        hists.append(h)
    n = ctx.n(1500, 30000)
    for _ in range(n):
        line, tr, h = run_history(rng, ctx)
        lines.append(line)
        traces.append(tr)
        hists.append(h)
    for _ in range(ctx.n(200, 2500)):       # round 5: histories around Wea objects (modelled steps only)
        line, tr, h = run_history(rng, ctx, wea_focus=True, modelled=True)
        lines.append(line)
        traces.append(tr)
        hists.append(h)
    sky_ok = sky_temperature_repaired()
    if not sky_ok:
        ctx.notes.append('EPW.sky_temperature still shares the EPW metadata dict: epwSky not compared '
                         '(known finding C14-epw-sky-temperature-metadata)')
    epw_hists = [epw_fixed_history()] + [epw_history(rng, sky_ok) for _ in range(ctx.n(2, 20))]
    for steps in epw_hists:
        line, tr, kept = run_steps(steps)
        lines.append(line)
        traces.append(tr)
        hists.append({'steps': [dict(st, db='...', dp='...') if st['k'] == 'en' else st for st in kept]})
        ctx.count('epw_histories')
        for st in kept:
            ctx.count('step:' + st['k'])
    outs = ctx.driver().run(lines)
    for line, mo, io, h in zip(lines, outs, traces, hists):
        ctx.compared += 1
        ctx.case(('hist', line), nontrivial=' | ok ' in (' | ' + io))
        d = None if mo == io else traces_differ(mo, io)
        if d is not None:
            ctx.disagree('history', {'history': h, 'line': line, 'where': d}, mo[:3000], io[:3000])
    ctx.sample({'op': 'history', 'request': lines[0][:600], 'model': outs[0][:600]})


# ---------------------------------------------------------------------------------------------
# property oracle (independent of the model)

ORACLE_MUTATORS = [
    ('conv_unit', {'u': 1}), ('conv_unit', {'u': 2}), ('conv_ip', {}), ('conv_si', {}),
    ('set_values', None), ('set_item', {'i': 0, 'x': 999}), ('set_item', {'i': -1, 'x': 998}),
    ('meta_set', {'k': 'k1', 'v': 'edited'}), ('meta_set', {'k': 'znew', 'v': 1}),
    ('meta_replace', {'m': {'other': 1}}), ('meta_append', {'k': 'k2', 'x': 77}),
    ('cull_inplace', {'ts': 1}), ('values_append', {'x': 5}),
    # refused operations (arguments the validation code rejects): the target and everything else stay as they were
    ('conv_unit', {'u': 3}), ('set_values', {'bad': 'long'}), ('set_values', {'bad': 'empty'}),
    ('set_values', {'bad': 'scalar'}), ('set_item', {'bad': 'index'}), ('cull_inplace', {'ts': 7}),
    ('meta_replace', {'bad': 'list'}), ('meta_append', {'k': 'k1', 'x': 1}),
]
N_PLAIN_MUTATORS = 13
REFUSED_IDX = list(range(N_PLAIN_MUTATORS, N_PLAIN_MUTATORS + 8))


def _mut_args(op, a, c):
    if op == 'set_values' and not a:
        return {'v': [1000 + i for i in range(len(c.values))]}
    if a and a.get('bad') == 'long':
        return {'v': [7] * (len(c.values) + 1)}
    if a and a.get('bad') == 'empty':
        return {'v': []}
    if a and a.get('bad') == 'scalar':
        return {'scalar': 5}
    if a and a.get('bad') == 'index':
        return {'i': len(c.values) + 3, 'x': 1}
    if a and a.get('bad') == 'list':
        return {'notdict': [1, 2]}
    if op in ('meta_set', 'meta_replace', 'meta_append'):
        # a token never written before in this process: an edit that lands in a dictionary shared at
        # module / class level is then visible whatever earlier cases have written there
        _EDIT_COUNTER[0] += 1
        a = dict(a)
        if op == 'meta_set':
            a['v'] = '%s#%d' % (a['v'], _EDIT_COUNTER[0])
        elif op == 'meta_append':
            a['x'] = '%s#%d' % (a['x'], _EDIT_COUNTER[0])
        else:
            a['m'] = dict(a['m'], token=_EDIT_COUNTER[0])
        return a
    return dict(a)


_EDIT_COUNTER = [0]


def _try_mut(c, op, a):
    try:
        apply_mutator(c, op, _mut_args(op, a, c))
        return 'ok'
    except Exception as e:
        return 'raises ' + type(e).__name__


def _derive_sig(inp, objs):
    d = inp['derive']
    c = objs[d['on']]
    sig = {'derive': d['op'], 'cls': CLS[c._collection_type], 'mutable': bool(c.is_mutable)}
    if d['op'] == 'api':
        sig.update(api=d['args'].get('name'), form=d['args'].get('form'), probe=d['args'].get('probe'))
    return sig


def check_derive(inp):
    """One deriving call: arguments unchanged (also when it fails); then every mutator on either side
    leaves the other side's snapshot unchanged; immutable objects never change."""
    d = inp['derive']

    held = []

    def fresh():
        del held[:]
        objs = [build_obj(s, held=held) for s in inp['build']]
        a = copy.deepcopy(d['args'])
        return objs, a

    objs, a = fresh()
    sig = _derive_sig(inp, objs)
    before = [snapshot(o) for o in objs]
    held_before = [_held_snap(x) for x in held]
    plain_before = copy.deepcopy(a)
    try:
        res = apply_derive(objs, d['on'], d['op'], a)
        failed = None
    except Exception as e:
        res, failed = None, type(e).__name__
    after = [snapshot(o) for o in objs]
    if after != before:
        k = [i for i in range(len(objs)) if after[i] != before[i]][0]
        return {'required': 'argument %d unchanged by %s%s: %s' % (k, d['op'], ' (call failed: %s)' % failed
                                                                   if failed else '', before[k][:6]),
                'observed': after[k][:6], 'sig': dict(sig, side='args', failed=bool(failed))}
    for key in list(plain_before):
        if a.get(key) != plain_before[key]:
            return {'required': 'plain argument %s unchanged' % key, 'observed': repr(a.get(key))[:200],
                    'sig': dict(sig, side='plain-args')}
    if [_held_snap(x) for x in held] != held_before:
        return {'required': 'the containers handed to the constructors are unchanged by %s' % d['op'],
                'observed': 'changed', 'sig': dict(sig, side='held-containers')}
    if '_list' in a:
        lst = a['_list']
        want = [objs[d['on']]] + ([objs[d['args']['c']]] if 'c' in d['args'] else
                                  ([d['args']['s']] if 's' in d['args'] else []))
        if len(lst) != len(want) or any(x is not y and x != y for x, y in zip(lst, want)) or \
                any(type(x) is not type(y) for x, y in zip(lst, want)):
            return {'required': "caller's list unchanged", 'observed': [type(x).__name__ for x in lst],
                    'sig': dict(sig, side='list-arg')}
    if '_dict' in a and a['_dict'] != a['_dict_before']:
        return {'required': "caller's dict unchanged", 'observed': sorted(a['_dict'].keys()),
                'sig': dict(sig, side='dict-arg')}
    if res is None:
        return None
    nres = len(res)
    # an operation that returns a new object must not hand back one of its sources
    for r in res:
        for k, o in enumerate(objs):
            if r is o:
                return {'required': '%s returns a new object' % (_api_text(d['args']) if d['op'] == 'api' else d['op']),
                        'observed': 'the result is source %d' % k,
                        'sig': dict(sig, side='result-is-source')}
    # results of a derivation from an immutable collection that are immutable themselves must hold tuples
    for r in res:
        if not r.is_mutable and not isinstance(r.values, tuple):
            return {'required': 'immutable collection exposes a tuple', 'observed': type(r.values).__name__,
                    'sig': dict(sig, side='immutable-values-type')}
    which = inp.get('mutators')
    muts = ORACLE_MUTATORS if which is None else [ORACLE_MUTATORS[i] for i in which]
    for op, ma in muts:
        for side in ('result', 'source'):
            for idx in range(nres if side == 'result' else len(inp['build'])):
                objs, a = fresh()
                try:
                    res = apply_derive(objs, d['on'], d['op'], a)
                except Exception as e:
                    return {'required': 'deterministic derive', 'observed': type(e).__name__,
                            'sig': dict(sig, side='nondeterministic')}
                target = res[idx] if side == 'result' else objs[idx]
                others = [('source', i, o) for i, o in enumerate(objs)] + [('result', i, o) for i, o in enumerate(res)]
                others = [t for t in others if t[2] is not target]
                snap = [snapshot(o) for _, _, o in others]
                tsnap = snapshot(target)
                birth = [snapshot(r) for r in res]
                hsnap = [_held_snap(x) for x in held]
                outcome = _try_mut(target, op, ma)
                if [_held_snap(x) for x in held] != hsnap:
                    return {'required': 'the containers handed to the constructors are unchanged by %s on %s %d'
                                        % (op, side, idx), 'observed': 'changed',
                            'sig': dict(sig, side='held-containers', mutator=op)}
                if side == 'result':
                    for key in list(plain_before):
                        if a.get(key) != plain_before[key]:
                            return {'required': 'plain argument %s unchanged by %s on the result' % (key, op),
                                    'observed': repr(a.get(key))[:200],
                                    'sig': dict(sig, side='plain-args-shared', mutator=op)}
                for (oside, oi, o), s0 in zip(others, snap):
                    s1 = snapshot(o)
                    if s1 != s0:
                        diff = [n for n, (x, y) in zip(
                            ('class', 'values', 'unit', 'data_type', 'period', 'metadata', 'datetimes',
                             'validated', 'values_type'), zip(s0, s1)) if x != y]
                        return {'required': '%s %d unchanged after %s on %s %d (%s)' % (oside, oi, op, side, idx,
                                                                                         outcome),
                                'observed': 'changed: %s' % ','.join(diff),
                                'sig': dict(sig, side=side, mutator=op, changed=','.join(diff))}
                if not target.is_mutable and snapshot(target) != tsnap and not op.startswith('meta_'):
                    s1 = snapshot(target)
                    diff = [n for n, (x, y) in zip(
                        ('class', 'values', 'unit', 'data_type', 'period', 'metadata', 'datetimes',
                         'validated', 'values_type'), zip(tsnap, s1)) if x != y]
                    return {'required': 'immutable %s unchanged by %s' % (side, op),
                            'observed': 'changed: %s (%s)' % (','.join(diff), outcome),
                            'sig': {'op': 'derive', 'derive': 'immutable-route', 'mutator': op,
                                    'changed': ','.join(diff)}}
                if outcome.startswith('raises') and snapshot(target) != tsnap:
                    return {'required': 'failed %s leaves its target unchanged' % op,
                            'observed': outcome, 'sig': dict(sig, side='failed-mutator', mutator=op)}
                if side == 'result':
                    # the same question asked again: the sources were not edited, so the answer is the one
                    # given the first time, whatever was done to the first answer meanwhile (no memo that
                    # hands out the earlier object or parts of it)
                    try:
                        res2 = apply_derive(objs, d['on'], d['op'], copy.deepcopy(d['args']))
                    except Exception as e:
                        return {'required': '%s answers again after %s on its first result' % (d['op'], op),
                                'observed': type(e).__name__, 'sig': dict(sig, side='again-raises', mutator=op)}
                    for k2, r2 in enumerate(res2):
                        if any(r2 is r1 for r1 in res):
                            return {'required': '%s asked again returns a new object' % d['op'],
                                    'observed': 'the object handed out before',
                                    'sig': dict(sig, side='again-same-object')}
                        s2 = snapshot(r2)
                        if k2 < len(birth) and s2 != birth[k2]:
                            diff = [n for n, (x, y) in zip(
                                ('class', 'values', 'unit', 'data_type', 'period', 'metadata', 'datetimes',
                                 'validated', 'values_type'), zip(birth[k2], s2)) if x != y]
                            return {'required': '%s asked again (sources untouched, first result edited by %s: '
                                                '%s) answers as the first time' % (d['op'], op, outcome),
                                    'observed': 'differs in: %s' % ','.join(diff),
                                    'sig': dict(sig, side='again-differs', mutator=op, changed=','.join(diff))}
    return None


def _fresh_twin(c):
    """A history-free object with the public state of `c` (a collection or a list the caller holds)."""
    if isinstance(c, list):
        return list(c)
    from ladybug.header import Header
    h = c.header
    hdr = Header(h.data_type, h.unit, _mk_ap(_ap_tokens(h.analysis_period)), copy.deepcopy(h.metadata))
    if CLS.get(c._collection_type) == 'hc':
        t = type(c)(hdr, list(c.values))
    else:
        t = type(c)(hdr, list(c.values), list(c.datetimes))
        if isinstance(c.datetimes, list):       # quirk of convert_to_culled_timestep (a list, kept)
            t._datetimes = list(c.datetimes)
    t._validated_a_period = c.validated_a_period
    return t


DERIVE_KINDS = ('d', 'wd', 'wf', 'wr', 'es', 'wx')
EDIT_KINDS = ('m', 'lm', 'wm', 'ws', 'ec', 'wk')
SNAP_NAMES = ('class', 'values', 'unit', 'data_type', 'period', 'metadata', 'datetimes', 'validated',
              'values_type')


def _close(a, b):
    """Equality of snapshots; floats within 1e-9 relative (an IP EPW goes IP -> SI -> IP in an export)."""
    if isinstance(a, float) or isinstance(b, float):
        try:
            return a == b or abs(a - b) <= 1e-9 * max(1.0, abs(a), abs(b))
        except TypeError:
            return False
    if isinstance(a, tuple) and isinstance(b, tuple):
        return len(a) == len(b) and all(_close(x, y) for x, y in zip(a, b))
    return a == b


def _snap_same(a, b):
    if a == b:
        return True
    return a[:1] == ('epw',) and _close(a, b)


def _step_reads(st):
    a = st.get('args', {}) or {}
    refs = [st.get('on', 0)]
    refs += [a[x] for x in ('c', 'j', 'r', 'args') if isinstance(a.get(x), int) and not isinstance(a.get(x), bool)]
    return refs


def check_history(inp):
    """Random history on the real objects (collections, caller's lists, Wea, EPW): after a step that
    builds or derives something every older object is unchanged; after an in-place edit of one object
    every other object is unchanged (and the target too when the call raised or the target is an
    immutable collection); exports of an EPW leave it as it was, succeeding or failing; a deriving step
    asked AGAIN (marker `again` = position of the first asking) answers as the first time as long as no
    successful edit touched the objects it reads."""
    live = []
    names = SNAP_NAMES
    version = []                 # per live object: number of successful in-place edits
    asked = {}                   # position -> (reads, versions then, snapshots of the answers at birth)
    for n, st in enumerate(inp['steps']):
        # (round 5: only the references the step really has - a default of 0 made the first step of every
        # history count as "refers to an object that is not there", so no step was ever executed)
        refs = [st[x] for x in ('on', 'vr') if st.get(x) is not None]
        if st['k'] in ('na', 'wi'):
            refs += [st[x] for x in ('i', 'c', 'j') if st.get(x) is not None]
        a = st.get('args') or {}
        refs += [a[x] for x in ('c', 'j', 'r', 'args') if isinstance(a.get(x), int) and not isinstance(a.get(x), bool)]
        if any(not isinstance(r, int) or r >= len(live) or r < 0 for r in refs):
            continue            # an earlier step did not produce its object (changed implementation)
        before = [snapshot(o) for o in live]
        n0 = len(live)
        fresh = None
        if st['k'] == 'd' and st.get('op') != 'cfa_ref' and all(_kind(live[r]) in ('coll', 'list')
                                                                 for r in _step_reads(st)):
            # the same question put to history-free twins of the objects it reads
            alt = list(live)
            try:
                for r in set(_step_reads(st)):
                    alt[r] = _fresh_twin(live[r])
                fresh = [snapshot(x) for x in apply_derive(alt, st['on'], st['op'], copy.deepcopy(st.get('args', {})))]
            except Exception as e:
                fresh = 'raises ' + type(e).__name__
        try:
            out = exec_step(live, copy.deepcopy(st))
        except Exception as e:
            out = ('err:harness ' + type(e).__name__, '')
        status = out[0] if out else 'dropped'
        target = st['on'] if st['k'] in EDIT_KINDS else None
        if isinstance(out, list):
            out = (out[-1][0], '')
            status = out[0]
        untouched = list(range(n0))
        if target is not None and status == 'ok':
            tgt = live[target]
            immutable = _kind(tgt) == 'coll' and not tgt.is_mutable and st['k'] == 'm'
            if not immutable or st.get('op', '').startswith('meta_'):
                untouched.remove(target)    # (metadata edits of immutables: reported separately)
                version[target] += 1
        while len(version) < len(live):
            version.append(0)
        after = [snapshot(o) for o in live[:n0]]
        for i in untouched:
            if not _snap_same(after[i], before[i]):
                diff = [nm for nm, (x, y) in zip(names, zip(before[i], after[i])) if x != y] \
                    if before[i][0] not in ('list', 'args', 'epw', 'wea') else [before[i][0]]
                return {'required': 'object %d unchanged by step %d (%s %s on %s: %s)' % (
                            i, n, st['k'], st.get('op', st.get('call', '')), st.get('on', '-'), status),
                        'observed': 'changed: ' + ','.join(diff),
                        'sig': {'step': st.get('op', st.get('call', st['k'])), 'kind': st['k'],
                                'changed': ','.join(diff), 'self': i == target,
                                'refused': status.startswith('err')}}
        if fresh is not None and (str(status).startswith('ok') or not isinstance(fresh, str)):
            got = [snapshot(o) for o in live[n0:]] if str(status).startswith('ok') else 'raises (%s)' % status
            if isinstance(fresh, str) != isinstance(got, str) or (
                    not isinstance(got, str) and (len(got) != len(fresh) or
                                                  any(not _snap_same(x, y) for x, y in zip(got, fresh)))):
                if isinstance(fresh, str) or isinstance(got, str):
                    diff = ['outcome']
                else:
                    diff = sorted(set(nm for x, y in zip(got, fresh) for nm, (p, q) in zip(names, zip(x, y)) if p != q))
                return {'required': 'step %d (%s on %d) answers as it does for history-free objects with the same '
                                    'public state: %s' % (n, st.get('op'), st.get('on'),
                                                          fresh if isinstance(fresh, str) else 'answers'),
                        'observed': 'differs in: %s%s' % (','.join(diff), ' (%s)' % got if isinstance(got, str) else ''),
                        'sig': {'step': st.get('op'), 'kind': 'd', 'fresh': True, 'changed': ','.join(diff)}}
        if st['k'] in DERIVE_KINDS and str(status).startswith('ok') and len(live) > n0:
            # a deriving step hands out NEW objects, whatever the past of the object it is asked of
            for o in live[n0:]:
                if any(o is x for x in live[:n0]):
                    k0 = [i for i, x in enumerate(live[:n0]) if x is o][0]
                    return {'required': 'step %d (%s %s on %s) returns a new object' % (
                                n, st['k'], st.get('op', st.get('what', '')), st.get('on')),
                            'observed': 'live object %d itself' % k0,
                            'sig': {'step': st.get('op', st.get('what', st['k'])), 'kind': st['k'],
                                    'changed': 'result-is-live-object'}}
            reads = _step_reads(st)
            birth = [snapshot(o) for o in live[n0:]]
            first = asked.get(st.get('again'))
            if first is not None and first[0] == reads and first[1] == [version[r] for r in reads]:
                for k2, (s1, s2) in enumerate(zip(first[2], birth)):
                    if not _snap_same(s1, s2):
                        diff = [nm for nm, (x, y) in zip(names, zip(s1, s2)) if x != y] \
                            if s1[0] not in ('list', 'args', 'epw', 'wea') else [s1[0]]
                        return {'required': 'step %d asks step %d again (%s %s on %s; the objects it reads were '
                                            'not edited in between): the same answer' % (
                                                n, st['again'], st['k'], st.get('op', st.get('what', '')), st.get('on')),
                                'observed': 'answer %d differs in: %s' % (k2, ','.join(diff)),
                                'sig': {'step': st.get('op', st.get('what', st['k'])), 'kind': st['k'],
                                        'again': True, 'changed': ','.join(diff)}}
                for o in live[n0:]:
                    if any(o is x for x in live[:n0]):
                        return {'required': 'step %d (asked again) returns new objects' % n,
                                'observed': 'an object handed out before',
                                'sig': {'step': st.get('op', st.get('what', st['k'])), 'kind': st['k'],
                                        'again': True, 'changed': 'same-object'}}
            asked[n] = (reads, [version[r] for r in reads], birth)
    return None


# --- Wea / EPW / header level (oracle only)


def _wea(n_meta=True):
    """A two-day Wea that builds its own collections (Wea.from_dict)."""
    dts = [d * 1440 + h * 60 for d in range(2) for h in range(24)]
    return _wea_from_dict({'loc': ['src', 'Country', 'City'], 'dts': dts,
                           'dni': [float(i * 37 % 500) for i in range(48)],
                           'dhi': [float(i * 11 % 90) for i in range(48)]})


def _wea_snap(w):
    return (snapshot(w.direct_normal_irradiance), snapshot(w.diffuse_horizontal_irradiance),
            json.dumps(w.metadata, sort_keys=True), w.timestep, w.is_leap_year, str(w.location))


_EPW_CACHE = {}


def _epw_path():
    return os.path.join(core.REPO, 'tests', 'assets', 'epw', 'chicago.epw')


def _epw(ip=False):
    from ladybug.epw import EPW
    e = EPW(_epw_path())
    e.dry_bulb_temperature       # load
    if ip:
        e.convert_to_ip()
    return e


def _epw_snap(e, approx=False):
    out = []
    for i in (6, 7, 14, 21):
        c = e._get_data_by_field(i)
        s = snapshot(c)
        if approx:
            s = s[:1] + (tuple(round(v, 6) for v in s[1]),) + s[2:]
        out.append(s)
    return (tuple(out), e.is_ip, json.dumps(e.metadata, sort_keys=True, default=str))


def check_misc(inp):
    what = inp['what']
    sig = {'what': what}
    if what == 'header_duplicate':
        from ladybug.header import Header
        h = Header(_dtype(), 'C', _mk_ap([1, 1, 0, 1, 1, 23, 1, 0]), {'k1': 1, 'k2': [1, 2]})
        d = h.duplicate() if inp.get('via', 'duplicate') == 'duplicate' else copy.copy(h)
        before = (h.unit, json.dumps(h.metadata, sort_keys=True))
        d.metadata['k1'] = 5
        d.metadata['k2'].append(9)
        d.metadata = {'z': 1}
        d._unit = 'F'
        if (h.unit, json.dumps(h.metadata, sort_keys=True)) != before:
            return {'required': before, 'observed': (h.unit, h.metadata), 'sig': sig}
        d2 = h.duplicate()
        h.metadata['k2'].append(4)
        h.metadata['k1'] = 0
        if d2.metadata != {'k1': 1, 'k2': [1, 2]}:
            return {'required': {'k1': 1, 'k2': [1, 2]}, 'observed': d2.metadata, 'sig': dict(sig, dir='back')}
        return None
    if what == 'immutable_metadata_route':
        # `imm.header.metadata[k] = v` / `imm.header.metadata = {...}`: the header of an immutable
        # collection is an ordinary mutable Header
        c = build_obj(_twin(_HC24, mutable=False, cls=inp.get('cls', 'hc')) if inp.get('cls', 'hc') == 'hc' else
                      {'cls': inp['cls'], 'mutable': False, 'unit': 'C', 'ap': [1, 1, 0, 1, 31, 23, 1, 0],
                       'meta': {'k1': 1}, 'dts': [1], 'vals': [5]})
        before = snapshot(c)
        _try_mut(c, inp.get('mutator', 'meta_set'), {'k': 'k1', 'v': 'edited', 'm': {'other': 1}, 'x': 3})
        if snapshot(c) != before:
            return {'required': 'immutable collection unchanged by %s' % inp.get('mutator', 'meta_set'),
                    'observed': c.header.metadata, 'sig': dict(sig, mutator=inp.get('mutator', 'meta_set'))}
        return None
    if what == 'wea_siblings_from_dict':
        w = _wea_from_dict({'loc': ['src', 'Land', 'Town'], 'dts': [0, 60, 120], 'dni': [1, 2, 3], 'dhi': [4, 5, 6]})
        before = _wea_snap(w)
        w.direct_normal_irradiance.header.metadata['edited'] = 1
        after = _wea_snap(w)
        if after[1] != before[1] or after[2] != before[2]:
            return {'required': 'diffuse collection / Wea metadata unchanged by an edit of the direct one',
                    'observed': 'changed', 'sig': sig}
        return None
    if what == 'wea_duplicate_location':
        w = _wea()
        d = w.duplicate()
        before = _wea_snap(w)
        d.location.city = 'Elsewhere'
        if _wea_snap(w) != before:
            return {'required': 'Wea unchanged by an edit of the Location of its duplicate',
                    'observed': str(w.location), 'sig': sig}
        return None
    if what.startswith('wea_'):
        w = _wea()
        before = _wea_snap(w)
        if what == 'wea_exports':
            tmp = tempfile.mkdtemp()
            try:
                w.to_file_string()
                w.to_dict()
                w.write(os.path.join(tmp, 'x.wea'), True)
            finally:
                shutil.rmtree(tmp, ignore_errors=True)
            if _wea_snap(w) != before:
                return {'required': 'Wea unchanged by exports', 'observed': 'changed', 'sig': sig}
            return None
        derive = {
            'wea_duplicate': lambda: w.duplicate(),
            'wea_filter_pattern': lambda: w.filter_by_pattern([True, False, False]),
            'wea_filter_ap': lambda: w.filter_by_analysis_period(_mk_ap([1, 1, 0, 1, 2, 23, 1, 0])),
            'wea_filter_hoys': lambda: w.filter_by_hoys([0, 1, 12]),
            'wea_ghi': lambda: w.global_horizontal_irradiance,
            'wea_dhi': lambda: w.direct_horizontal_irradiance,
            'wea_directional': lambda: w.directional_irradiance(45, 180)[0],
            'wea_siblings': lambda: None, 'wea_directional_siblings': lambda: None,
        }[what]
        if what == 'wea_directional_siblings':
            for j in range(4):
                res = w.directional_irradiance(45, 180)
                snaps = [snapshot(c) for c in res]
                res[j].convert_to_unit('kW/m2')
                res[j].header.metadata['edited'] = 1
                for k in range(4):
                    if k != j and snapshot(res[k]) != snaps[k]:
                        return {'required': 'result %d of directional_irradiance unchanged by an edit of '
                                            'result %d' % (k, j),
                                'observed': (res[k].header.unit, res[k].values[12]), 'sig': sig}
            return None
        r = derive()
        if _wea_snap(w) != before:
            return {'required': 'Wea unchanged by ' + what, 'observed': 'changed', 'sig': dict(sig, side='args')}
        from ladybug.wea import Wea
        if what == 'wea_siblings':
            # the two collections of one Wea must not share a header / metadata dict with each other
            w.direct_normal_irradiance.header.metadata['edited'] = 1
            s = _wea_snap(w)
            if s[1] != before[1] or s[2] != before[2]:
                return {'required': 'diffuse collection / Wea metadata unchanged by an edit of the direct one',
                        'observed': 'changed', 'sig': sig}
            return None
        colls = [r.direct_normal_irradiance, r.diffuse_horizontal_irradiance] if isinstance(r, Wea) else [r]
        for c in colls:
            for op, ma in ORACLE_MUTATORS:
                if op in ('values_append', 'cull_inplace'):
                    continue
                try:
                    apply_mutator(c, op, _mut_args(op, ma, c))
                except Exception:
                    pass
                if _wea_snap(w) != before:
                    return {'required': 'Wea unchanged by %s on an object derived by %s' % (op, what),
                            'observed': 'changed', 'sig': dict(sig, mutator=op)}
        return None
    if what == 'epw_sky_temperature':
        from ladybug.epw import EPW
        e = EPW.from_missing_values()
        e.metadata['source'] = 'station'
        before = json.dumps(e.metadata, sort_keys=True)
        s = e.sky_temperature
        s.header.metadata['edited'] = 1
        if json.dumps(e.metadata, sort_keys=True) != before:
            return {'required': 'EPW.metadata unchanged by an edit of sky_temperature.header.metadata',
                    'observed': e.metadata, 'sig': sig}
        return None
    if what == 'dict_round_trip':
        # X.from_dict(x.to_dict()) without JSON in between: a new object from an existing one
        from ladybug.header import Header
        c = build_obj(_HC24)
        if inp.get('via') == 'header':
            src_h, new_h = c.header, Header.from_dict(c.header.to_dict())
        else:
            new_c = type(c).from_dict(c.to_dict())
            src_h, new_h = c.header, new_c.header
        before = json.dumps(src_h.metadata, sort_keys=True)
        new_h.metadata['edited'] = 1
        new_h.metadata['k2'].append(9)
        if json.dumps(src_h.metadata, sort_keys=True) != before:
            return {'required': 'metadata of the source unchanged by an edit of the object read back from its '
                                'to_dict(): %s' % before, 'observed': src_h.metadata, 'sig': sig}
        return None
    if what == 'epw_dict_round_trip':
        # EPW.from_dict(e.to_dict()) without JSON in between: a new EPW from an existing one
        from ladybug.epw import EPW
        e = EPW.from_missing_values()
        e.metadata['source'] = 'station'
        e.metadata['k2'] = [1, 2]
        before = (json.dumps(e.metadata, sort_keys=True), _epw_digest(e))
        e2 = EPW.from_dict(e.to_dict())
        e2.metadata['source'] = 'edited'
        e2.metadata['k2'].append(3)
        e2.dry_bulb_temperature[0] = 55.5
        e2.dry_bulb_temperature.header.metadata['edited'] = 1
        after = (json.dumps(e.metadata, sort_keys=True), _epw_digest(e))
        if after != before:
            return {'required': 'EPW unchanged by edits of the EPW read back from its to_dict(): %s' % before[0],
                    'observed': after[0], 'sig': sig}
        return None
    if what == 'epw_call':
        # any public call on a real EPW (SI or IP), succeeding or refused: all 35 fields, the unit flag and
        # the metadata read as before
        ip = bool(inp.get('ip'))
        e = _EPW_CACHE.pop(ip, None) or _epw(ip)     # ONE object serves many calls while it stays as it was
        before = (_epw_digest(e), e.is_ip, json.dumps(e.metadata, sort_keys=True, default=str))
        tmp = tempfile.mkdtemp()
        failed = None
        try:
            _epw_call(e, inp['call'], tmp)
        except Exception as ex:
            failed = type(ex).__name__
        finally:
            shutil.rmtree(tmp, ignore_errors=True)
        after = (_epw_digest(e), e.is_ip, json.dumps(e.metadata, sort_keys=True, default=str))
        if not _close(before, after):
            bad = [i for i in range(35) if not _close(before[0][i], after[0][i])]
            return {'required': 'EPW (is_ip=%s) unchanged by %s%s' % (ip, inp['call'], ' (refused: %s)' % failed
                                                                       if failed else ''),
                    'observed': 'is_ip %s -> %s; fields changed: %s; e.g. %s -> %s' % (
                        before[1], after[1], bad[:8], before[0][bad[0]][:4] if bad else '-',
                        after[0][bad[0]][:4] if bad else '-'),
                    'sig': dict(sig, ip=ip, call=inp['call'], refused=bool(failed))}
        if before == after:
            _EPW_CACHE[ip] = e
        return None
    if what == 'refused_wea':
        w = _wea()
        before = _wea_snap(w)
        tmp = tempfile.mkdtemp()
        failed = None
        try:
            call = inp['call']
            if call == 'write:path':
                blocker = os.path.join(tmp, 'plainfile')
                with open(blocker, 'w') as f:
                    f.write('x')
                w.write(os.path.join(blocker, 'sub', 'x.wea'))
            elif call == 'filter_by_pattern:empty':
                w.filter_by_pattern([])
            elif call == 'filter_by_hoys:text':
                w.filter_by_hoys(['a'])
            elif call == 'filter_by_analysis_period:timestep':
                w.filter_by_analysis_period(_mk_ap([1, 1, 0, 1, 2, 23, 2, 0]))
            elif call == 'directional_irradiance:text':
                w.directional_irradiance('up', 180)
            elif call == 'estimate_illuminance_components:misaligned':
                w.estimate_illuminance_components(build_obj(_HC24))
            elif call == 'get_irradiance_value:outside':
                w.get_irradiance_value(13, 40, 25)
            else:
                raise ValueError(call)
        except Exception as ex:
            failed = type(ex).__name__
        finally:
            shutil.rmtree(tmp, ignore_errors=True)
        if _wea_snap(w) != before:
            return {'required': 'Wea unchanged by %s%s' % (inp['call'], ' (refused: %s)' % failed if failed else ''),
                    'observed': 'changed', 'sig': dict(sig, call=inp['call'], refused=bool(failed))}
        return None
    if what == 'reread':
        # the same derived view asked for repeatedly from ONE source; the earlier answers are edited in
        # between: every new answer equals the first one and is a new object
        from ladybug.wea import Wea
        from ladybug.header import Header
        kind, get = inp['obj'], inp['get']
        if kind == 'wea':
            src = _wea()
            getter = {'ghi': lambda: src.global_horizontal_irradiance,
                      'dhi': lambda: src.direct_horizontal_irradiance,
                      'directional': lambda: src.directional_irradiance(45, 180),
                      'duplicate': lambda: src.duplicate(),
                      'filter_pattern': lambda: src.filter_by_pattern([True, False, False]),
                      'filter_hoys': lambda: src.filter_by_hoys([0, 1, 12]),
                      'filter_ap': lambda: src.filter_by_analysis_period(_mk_ap([1, 1, 0, 1, 2, 23, 1, 0]))}[get]
        elif kind == 'epw':
            from ladybug.epw import EPW
            src = EPW.from_missing_values()
            src.metadata['source'] = 'station'
            src.horizontal_infrared_radiation_intensity.values = [300 + (i % 40) for i in range(8760)]
            if inp.get('ip'):
                src.convert_to_ip()
            getter = {'sky_temperature': lambda: src.sky_temperature}[get]
        else:
            src = Header(_dtype(), 'C', _mk_ap([1, 1, 0, 1, 1, 23, 1, 0]), {'k1': 1, 'k2': [1, 2]})
            getter = {'duplicate': lambda: src.duplicate(), 'copy': lambda: copy.copy(src)}[get]

        def parts(r):
            if isinstance(r, Wea):
                return [r.direct_normal_irradiance, r.diffuse_horizontal_irradiance]
            return list(r) if isinstance(r, (tuple, list)) else [r]

        def snap(x):
            if isinstance(x, Header):
                return (x.unit, type(x.data_type).__name__, tuple(_ap_tokens(x.analysis_period)),
                        json.dumps(x.metadata, sort_keys=True, default=str))
            return snapshot(x)
        first = parts(getter())
        birth = [snap(x) for x in first]
        handed = list(first)
        for op, ma in (ORACLE_MUTATORS if inp.get('all') else ORACLE_MUTATORS[:N_PLAIN_MUTATORS] + ORACLE_MUTATORS[-2:]):
            if op in ('values_append', 'cull_inplace'):
                continue
            r1 = parts(getter())
            handed.extend(r1)
            for x in r1:
                try:
                    if isinstance(x, Header):
                        if op == 'meta_set':
                            x.metadata[ma['k']] = ma['v']
                        elif op == 'meta_append':
                            x.metadata['k2'].append(ma['x'])
                        elif op == 'meta_replace':
                            x.metadata = {'other': 1}
                        else:
                            x._unit = 'F'
                    else:
                        apply_mutator(x, op, _mut_args(op, ma, x))
                except Exception:
                    pass
            r2 = parts(getter())
            for k2, x in enumerate(r2):
                if any(x is y for y in handed):
                    return {'required': '%s.%s asked again returns a new object' % (kind, get),
                            'observed': 'an object handed out before', 'sig': dict(sig, obj=kind, get=get,
                                                                                   changed='same-object')}
                if snap(x) != birth[k2]:
                    return {'required': '%s.%s asked again (source untouched; earlier answers edited by %s) '
                                        'answers as the first time' % (kind, get, op),
                            'observed': 'answer %d differs' % k2,
                            'sig': dict(sig, obj=kind, get=get, mutator=op)}
            handed.extend(r2)
        return None
    if what in ('epw_from_dict_args', 'location_from_dict_args'):
        # a dictionary handed to from_dict is the caller's object
        if what == 'location_from_dict_args':
            from ladybug.location import Location
            d = {'type': 'Location', 'city': 'Town', 'latitude': 10.0}
            before = copy.deepcopy(d)
            Location.from_dict(d)
        else:
            from ladybug.epw import EPW
            full = EPW.from_missing_values().to_dict()
            d = {'type': 'EPW', 'location': copy.deepcopy(full['location']),
                 'data_collections': full['data_collections']}
            before = dict((k, (len(v) if isinstance(v, list) else copy.deepcopy(v))) for k, v in d.items())
            EPW.from_dict(d)
            d = dict((k, (len(v) if isinstance(v, list) else v)) for k, v in d.items())
        if d != before:
            return {'required': 'argument dictionary unchanged (keys %s)' % sorted(before),
                    'observed': 'keys now %s' % sorted(d), 'sig': sig}
        return None
    if what.startswith('epw_'):
        ip = bool(inp.get('ip'))
        e = _epw(ip)
        before = _epw_snap(e, approx=ip)
        tmp = tempfile.mkdtemp()
        failed = None
        try:
            if what == 'epw_to_file_string':
                e.to_file_string()
            elif what == 'epw_to_wea':
                e.to_wea(os.path.join(tmp, 'x.wea'))
            elif what == 'epw_to_wea_hoys':
                e.to_wea(os.path.join(tmp, 'x.wea'), hoys=[0, 12, 8759])
            elif what == 'epw_to_file_string_short':
                # a collection that is too short makes the export fail; the object must be as before
                c = e._get_data_by_field(6)
                keep = list(c._values)
                c._values = c._values[:100]
                try:
                    e.to_file_string()
                except ValueError as ex:
                    failed = type(ex).__name__
                head = list(c._values)
                c._values = keep
                if [round(v, 6) for v in head] != [round(v, 6) for v in keep[:100]]:
                    return {'required': 'values as before the failed export', 'observed': head[:3],
                            'sig': dict(sig, ip=ip, side='failed-values')}
        finally:
            shutil.rmtree(tmp, ignore_errors=True)
        after = _epw_snap(e, approx=ip)
        if after != before:
            return {'required': 'EPW unchanged by %s%s' % (what, ' (failed)' if failed else ''),
                    'observed': 'is_ip %s -> %s' % (before[1], after[1]), 'sig': dict(sig, ip=ip)}
        return None
    raise ValueError(what)


def _held_snap(x):
    """What a container the caller handed in holds now (None for one-shot iterables: used up by design)."""
    if isinstance(x, (list, tuple, set, frozenset)) or type(x).__name__ in ('deque', 'array', 'dict_values',
                                                                            'dict_keys', 'range'):
        return (type(x).__name__, tuple(sorted(x, key=repr)) if isinstance(x, (set, frozenset)) else tuple(x))
    return None


def _edit_container(x):
    """Edit a container the caller holds, in place, where its type allows it. True when something was edited."""
    name = type(x).__name__
    try:
        if name in ('list', 'deque', 'array'):
            x[0] = -4321.0
            x.append(-1234.0)
            return True
        if name == 'set':
            x.add(-4321.0)
            return True
    except Exception:
        pass
    return False


def check_shape(inp):
    """Container-type independence and ownership: a collection built from / assigned / aligned to the same
    data in any container the code accepts (list, tuple, deque, dict view, array, one-shot iterables)
    reports the same as with a list; later edits of the collection leave the container as it was, later
    edits of the container leave the collection as it was, two collections made from ONE container do not
    follow each other."""
    spec, via = inp['spec'], inp['via']
    vshape, dshape = inp.get('vshape', 'list'), inp.get('dshape', 'list')
    sig = {'what': 'shape', 'via': via, 'vshape': vshape, 'dshape': dshape, 'cls': spec['cls'],
           'mutable': bool(spec['mutable'])}

    def make(vs, ds, held, cont=None):
        if via == 'ctor':
            if cont is not None:
                return build_obj(dict(spec, dshape=ds), values=cont, held=held)
            return build_obj(dict(spec, vshape=vs, dshape=ds), held=held)
        if via == 'wea_annual':
            from ladybug.wea import Wea
            from ladybug.location import Location
            n = (8784 if spec['ap'][7] else 8760) * spec['ap'][6]
            data = [float((i * 7) % 900) for i in range(n)]
            c1 = shape_of(data, vs) if cont is None else cont
            c2 = c1 if inp.get('same') else shape_of(data, vs)
            held.extend([c1, c2])
            return Wea.from_annual_values(Location('x', latitude=10), c1, c2, spec['ap'][6], bool(spec['ap'][7]))
        base = build_obj(dict(spec, vals=[v + 1 for v in spec['vals']]))
        if cont is None:
            cont = shape_of(spec['vals'], vs)
        held.append(cont)
        if via == 'setter':
            base.values = cont
            return base
        return base.get_aligned_collection(cont)

    def snap(o):
        return _wea_snap(o) if via == 'wea_annual' else snapshot(o)

    try:
        ref = snap(make('list', 'list', []))
    except Exception:
        return None                 # (the values setter of an immutable collection, ...): refused for lists too
    held = []
    try:
        c = make(vshape, dshape, held)
    except Exception:
        return None                 # this container type is refused: nothing was built
    if snap(c) != ref:
        return {'required': '%s with values as %s / datetimes as %s reports the same as with lists' % (
                    via, vshape, dshape), 'observed': 'differs', 'sig': dict(sig, side='container-type')}
    hs = [_held_snap(x) for x in held]
    tgt = c.direct_normal_irradiance if via == 'wea_annual' else c
    other = snapshot(c.diffuse_horizontal_irradiance) if via == 'wea_annual' else None
    for op, ma in (('set_item', {'i': 0, 'x': 999}), ('set_item', {'i': -1, 'x': 998}), ('set_values', None),
                   ('conv_unit', {'u': 2 if via != 'wea_annual' else 3})):
        _try_mut(tgt, op, ma)
    if [_held_snap(x) for x in held] != hs:
        return {'required': 'the container handed to %s is unchanged by later edits of the object' % via,
                'observed': 'changed', 'sig': dict(sig, side='held-changed')}
    if other is not None and snapshot(c.diffuse_horizontal_irradiance) != other:
        return {'required': 'the diffuse collection is unchanged by edits of the direct one',
                'observed': 'changed', 'sig': dict(sig, side='sibling-follows')}
    held = []
    c = make(vshape, dshape, held)
    s0 = snap(c)
    edited = [_edit_container(x) for x in held]
    if any(edited) and snap(c) != s0:
        return {'required': 'the object is unchanged by later edits of the container handed to %s' % via,
                'observed': 'changed', 'sig': dict(sig, side='follows-container')}
    if vshape not in ONE_SHOT and via != 'wea_annual':
        cont = shape_of(spec['vals'], vshape)
        c1, c2 = make(vshape, dshape, [], cont), make(vshape, dshape, [], cont)
        s2 = snap(c2)
        for op, ma in (('set_item', {'i': 0, 'x': 999}), ('set_values', None), ('conv_unit', {'u': 2})):
            _try_mut(c1, op, ma)
        if snap(c2) != s2:
            return {'required': 'two objects made from ONE %s do not follow each other' % vshape,
                    'observed': 'the second changed with the first', 'sig': dict(sig, side='two-from-one')}
    return None


def _deep_edit(x, depth=0):
    """Edit every mutable container reachable from a returned value, in place."""
    if depth > 4:
        return
    if isinstance(x, dict):
        for v in list(x.values()):
            _deep_edit(v, depth + 1)
        x['__edited__'] = 1
    elif isinstance(x, list):
        for v in x[:3]:
            _deep_edit(v, depth + 1)
        if x and isinstance(x[0], (int, float)):
            x[0] = -4321.5
        x.append(-1234.5)
    elif isinstance(x, tuple):
        for v in x[:3]:
            _deep_edit(v, depth + 1)


RETURNED_GETTERS = ['values', 'datetimes', 'to_dict', 'header.to_dict', 'group_by_day', 'group_by_month',
                    'group_by_month_per_hour', 'datetime_strings', 'header.analysis_period.to_dict',
                    'header.data_type.to_dict', 'moys_dict']
RETURNED_OTHER = [('wea', 'to_dict'), ('wea', 'hoys'), ('wea', 'datetimes'), ('wea', 'location.to_dict'),
                  ('epw', 'to_dict'), ('epw', 'header'), ('epw', 'location.to_dict'),
                  ('header', 'to_dict'), ('header', 'to_csv_strings')]


def _getter(obj, path):
    for part in path.split('.'):
        obj = getattr(obj, part)
        if callable(obj) and not part[0].isupper():
            obj = obj()
    return obj


def check_returned(inp):
    """Every container an object hands out (values, datetimes, dictionary exports, groups) is the caller's:
    editing it in place leaves the object as it was and the same question gets the first answer again."""
    from ladybug.header import Header
    get = inp['get']
    sig = {'what': 'returned', 'get': get}
    if 'spec' in inp:
        src = build_obj(inp['spec'])
        snap = snapshot
        sig.update(cls=inp['spec']['cls'], mutable=bool(inp['spec']['mutable']))
    elif inp['obj'] == 'wea':
        src, snap = _wea(), _wea_snap
    elif inp['obj'] == 'epw':
        from ladybug.epw import EPW
        src = EPW.from_missing_values()
        src.metadata['source'] = 'station'
        src.metadata['k2'] = [1, 2]

        def snap(e):
            try:
                head = tuple(e.header)
            except Exception as ex:
                head = 'raises ' + type(ex).__name__
            return (_epw_digest(e), e.is_ip, json.dumps(e.metadata, sort_keys=True, default=str),
                    str(e.location), head)
    else:
        src = Header(_dtype(), 'C', _mk_ap([1, 1, 0, 1, 1, 23, 1, 0]), {'k1': 1, 'k2': [1, 2]})

        def snap(x):
            return (x.unit, type(x.data_type).__name__, tuple(_ap_tokens(x.analysis_period)),
                    json.dumps(x.metadata, sort_keys=True, default=str))
    sig['obj'] = inp.get('obj', 'coll')
    try:
        first = _getter(src, get)
    except AttributeError:
        return None                 # this class does not have the method
    before = snap(src)
    pristine = copy.deepcopy(first)
    _deep_edit(first)
    if snap(src) != before:
        return {'required': 'object unchanged by in-place edits of what %s returned' % get,
                'observed': 'changed', 'sig': dict(sig, side='object-follows')}
    second = _getter(src, get)
    if second is first and isinstance(first, (list, dict)):
        return {'required': '%s hands out a new container each time' % get, 'observed': 'the same object',
                'sig': dict(sig, side='same-container')}
    if second != pristine:
        return {'required': '%s asked again (object untouched, first answer edited) answers as the first time'
                            % get, 'observed': 'differs', 'sig': dict(sig, side='again-differs')}
    return None


# --- round 5: composite objects (Wea, EPW) as BOTH sides of derive-then-edit (class "a derived composite keeps a
# setting of its source by reference")

COMP_SOURCES = ['dict', 'ctor_hc', 'ctor_hd']
COMP_PASTS = [[], ['meta'], ['meta', 'enforce'], ['meta', 'via_duplicate'], ['meta', 'via_filter'],
              ['via_filter', 'meta'], ['meta_replace'], ['meta', 'via_filter_ap']]
COMP_DERIVES = ['duplicate', 'copy', 'filter_pattern', 'filter_ap', 'filter_hoys', 'filter_moys', 'filter_sun_up',
                'ghi', 'dhi', 'directional', 'illuminance', 'dict']
COMP_MUTATORS = ['meta_key', 'meta_new_key', 'meta_nested', 'meta_del', 'meta_clear', 'meta_update', 'meta_replace',
                 'member0:set_item', 'member1:set_values', 'member0:meta_set', 'member1:meta_append',
                 'member0:conv_ip', 'member1:meta_replace', 'enforce', 'location']
COLL_MUTATORS = ['set_item', 'set_values', 'meta_set', 'meta_append', 'meta_replace', 'conv_ip', 'meta_clear']
LOCATION_COPIED = ('duplicate', 'copy', 'dict')


def _irr_coll(cls, which, vals, dts, ap):
    from ladybug.header import Header
    from ladybug.datatype.energyflux import DirectNormalIrradiance, DiffuseHorizontalIrradiance
    from ladybug import datacollection as dc
    hdr = Header(DirectNormalIrradiance() if which == 0 else DiffuseHorizontalIrradiance(), 'W/m2', _mk_ap(ap), {})
    if cls == 'hc':
        return dc.HourlyContinuousCollection(hdr, list(vals))
    return dc.HourlyDiscontinuousCollection(hdr, list(vals), [_dt_from_token('hd', t) for t in dts])


def _comp_source(inp):
    """A Wea (or EPW) from plain numbers, with the past the case names."""
    from ladybug.wea import Wea
    from ladybug.location import Location
    kind = inp['src']
    if kind == 'epw':
        from ladybug.epw import EPW
        e = EPW.from_missing_values()
        e.horizontal_infrared_radiation_intensity.values = [300 + (i % 40) for i in range(8760)]
        e.metadata['source'] = 'station'
        e.metadata['k2'] = [1, 2]
        if 'ip' in inp.get('past', ()):
            e.convert_to_ip()
        return e
    if kind == 'dict':
        w = _wea()
    else:
        cls = 'hc' if kind == 'ctor_hc' else 'hd'
        ap = [1, 1, 0, 1, 2, 23, 1, 0]
        dts = [d * 1440 + h * 60 for d in range(2) for h in range(24)]
        if cls == 'hd':
            dts = [t for i, t in enumerate(dts) if i % 3 != 1]
        dni = [float(i * 37 % 500) for i in range(len(dts))]
        dhi = [float(i * 11 % 90) for i in range(len(dts))]
        w = Wea(Location('City', 'ST', 'Country', 40.0, -70.0, -5.0, 10.0, source='src'),
                _irr_coll(cls, 0, dni, dts, ap), _irr_coll(cls, 1, dhi, dts, ap))
    for p in inp.get('past', ()):
        if p == 'meta':
            w.metadata['k1'] = 1
            w.metadata['k2'] = [1, 2]
        elif p == 'meta_replace':
            w.metadata = {'k1': 'own', 'k2': [3], 'city': 'Replaced'}
        elif p == 'enforce':
            w.enforce_on_hour = True
        elif p == 'via_duplicate':
            w = w.duplicate()
        elif p == 'via_filter':
            w = w.filter_by_pattern([True])
        elif p == 'via_filter_ap':
            w = w.filter_by_analysis_period(_mk_ap([1, 1, 0, 1, 2, 23, 1, 0]))
    return w


def _comp_derive(w, name):
    """One deriving call on a composite -> list of the new objects."""
    from ladybug.wea import Wea
    if name == 'sky_temperature':
        return [w.sky_temperature]
    if name == 'duplicate':
        return [w.duplicate()]
    if name == 'copy':
        return [copy.copy(w)]
    if name == 'filter_pattern':
        return [w.filter_by_pattern([True, False, True, True])]
    if name == 'filter_ap':
        return [w.filter_by_analysis_period(_mk_ap([1, 1, 0, 1, 1, 23, 1, 0]))]
    if name == 'filter_ap_window':
        return [w.filter_by_analysis_period(_mk_ap([1, 1, 8, 1, 2, 17, 1, 0]))]
    if name == 'filter_hoys':
        return [w.filter_by_hoys([0, 2, 12, 27])]
    if name == 'filter_moys':
        return [w.filter_by_moys([0, 120, 720, 1620])]
    if name == 'filter_sun_up':
        return [w.filter_by_sun_up()]
    if name == 'ghi':
        return [w.global_horizontal_irradiance]
    if name == 'dhi':
        return [w.direct_horizontal_irradiance]
    if name == 'directional':
        return list(w.directional_irradiance(45, 180))
    if name == 'illuminance':
        d = w.direct_normal_irradiance
        from ladybug.header import Header
        hdr = Header(_dtype(), 'C', _mk_ap(_ap_tokens(d.header.analysis_period)), {})
        dew = type(d)(hdr, [5.0] * len(d.values)) if CLS[d._collection_type] == 'hc' else \
            type(d)(hdr, [5.0] * len(d.values), list(d.datetimes))
        return list(w.estimate_illuminance_components(dew))
    if name == 'dict':
        return [Wea.from_dict(w.to_dict())]
    if name.startswith('api:'):
        # round 6: an operator / built-in protocol / public name found on the class of the tree under test
        _, form, nm, probe = name.split(':')
        res = _api_call(w, _wea(), {'form': form, 'name': nm, 'probe': probe})
        return _api_collect(res, kinds=('coll', 'wea', 'epw'))
    raise ValueError(name)


def _comp_snap(x, views=True):
    """Everything the property lists, of a composite or a collection; for a Wea also what it reports through
    the collections it computes (their header metadata comes from the Wea's own metadata)."""
    kind = _kind(x)
    if kind == 'coll':
        return snapshot(x)
    if kind == 'epw':
        return (snapshot(x.dry_bulb_temperature), snapshot(x.horizontal_infrared_radiation_intensity), x.is_ip,
                json.dumps(x.metadata, sort_keys=True, default=str))
    out = (_wea_snap(x), x.enforce_on_hour, tuple(str(d) for d in x.datetimes))
    if views:
        out += (snapshot(x.global_horizontal_irradiance), snapshot(x.direct_horizontal_irradiance))
    return out


def _comp_edit(x, name, token):
    """One in-place edit of a composite (its own settings or one of its collections) or of a collection."""
    if _kind(x) == 'coll':
        a = {'set_item': {'i': 0, 'x': 999}, 'set_values': {'v': [1000 + i for i in range(len(x.values))]},
             'meta_set': {'k': 'k1', 'v': token}, 'meta_append': {'k': 'k2', 'x': token},
             'meta_replace': {'m': {'other': token}}}.get(name)
        if name == 'conv_ip':
            x.convert_to_ip()
        elif name == 'meta_clear':
            x.header.metadata.clear()
        else:
            apply_mutator(x, name, a)
        return
    if name.startswith('member'):
        return _comp_edit(_members(x)[int(name[6])], name.split(':')[1], token)
    if name == 'meta_key':
        x.metadata['city' if 'city' in x.metadata else 'source'] = token
    elif name == 'meta_new_key':
        x.metadata['znew'] = token
    elif name == 'meta_nested':
        keys = sorted(k for k, v in x.metadata.items() if isinstance(v, list))
        x.metadata[keys[0]].append(token)       # (no list-valued key: refused with IndexError, nothing edited)
    elif name == 'meta_del':
        del x.metadata[sorted(x.metadata)[0]]
    elif name == 'meta_clear':
        x.metadata.clear()
    elif name == 'meta_update':
        x.metadata.update({'k1': token, 'more': [token]})
    elif name == 'meta_replace':
        x.metadata = {'other': token}
    elif name == 'enforce':
        x.enforce_on_hour = not x.enforce_on_hour
    elif name == 'location':
        x.location.city = token
        x.location.latitude = 12.5
    else:
        raise ValueError(name)


def check_composite(inp):
    """A composite (Wea; EPW for sky_temperature) with a past -> one deriving call -> one in-place edit of
    either side, the composite's own settings included (metadata key / nested value / whole dict, datetime
    convention, member collections): the source reads as before the call; after the edit every other object
    reads as before, also through the collections a Wea computes afterwards; the same call asked again of
    the untouched source answers as the first time."""
    name = inp['derive']
    sig = {'what': 'composite', 'src': inp['src'], 'derive': name}
    views = inp.get('views', True)

    def fresh():
        w = _comp_source(inp)
        return w, _comp_derive(w, name)

    w = _comp_source(inp)
    before = _comp_snap(w, views)
    try:
        res = _comp_derive(w, name)
    except Exception as e:
        res = None
        failed = type(e).__name__
    if _comp_snap(w, views) != before:
        return {'required': 'source unchanged by %s%s' % (name, '' if res is not None else ' (refused: %s)' % failed),
                'observed': 'changed', 'sig': dict(sig, side='args')}
    if res is None:
        return None
    for r in res:
        if r is w or any(r is m for m in _members(w)):
            return {'required': '%s returns new objects' % name, 'observed': 'the source / a member of it',
                    'sig': dict(sig, side='result-is-source')}
    birth = [_comp_snap(r, views) for r in res]
    muts = inp.get('mutators')
    _EDIT_COUNTER[0] += 1
    token = 'edit#%d' % _EDIT_COUNTER[0]
    targets = [('source', 0)] + [('result', i) for i in range(len(res))]
    for side, idx in targets:
        tk = 'coll' if side == 'result' and _kind(res[idx]) == 'coll' else 'comp'
        names = COLL_MUTATORS if tk == 'coll' else COMP_MUTATORS
        for m in names:
            if muts is not None and m not in muts:
                continue
            if m == 'location' and (name not in LOCATION_COPIED or inp['src'] == 'epw'):
                continue            # (a filtered Wea looks at the Location object of its source, by design)
            if inp['src'] == 'epw' and tk == 'comp' and (m == 'enforce' or m.startswith('member1')):
                continue
            w, res = fresh()
            target = w if side == 'source' else res[idx]
            others = [('source', 0, w)] + [('result', i, r) for i, r in enumerate(res)]
            others = [t for t in others if t[2] is not target]
            snaps = [_comp_snap(o, views) for _, _, o in others]
            try:
                _comp_edit(target, m, token)
                outcome = 'ok'
            except Exception as e:
                outcome = 'raises ' + type(e).__name__
            for (oside, oi, o), s0 in zip(others, snaps):
                if _comp_snap(o, views) != s0:
                    s1 = _comp_snap(o, views)
                    where = [i for i, (x, y) in enumerate(zip(s0, s1)) if x != y]
                    part = ['wea(dni, dhi, metadata, timestep, leap, location)', 'enforce_on_hour', 'datetimes',
                            'global_horizontal_irradiance', 'direct_horizontal_irradiance'] \
                        if _kind(o) == 'wea' else (SNAP_NAMES if _kind(o) == 'coll' else ['f6', 'f12', 'is_ip', 'metadata'])
                    return {'required': '%s %d unchanged after %s on %s %d (%s) following %s' % (
                                oside, oi, m, side, idx, outcome, name),
                            'observed': 'changed: %s' % ','.join(part[i] for i in where if i < len(part)),
                            'sig': dict(sig, side=side, mutator=m)}
            if side == 'result':
                try:
                    res2 = _comp_derive(w, name)
                except Exception as e:
                    return {'required': '%s answers again after %s on its first result' % (name, m),
                            'observed': type(e).__name__, 'sig': dict(sig, side='again-raises', mutator=m)}
                for k2, r2 in enumerate(res2):
                    if any(r2 is r1 for r1 in res):
                        return {'required': '%s asked again returns a new object' % name,
                                'observed': 'the object handed out before', 'sig': dict(sig, side='again-same-object')}
                    if k2 < len(birth) and _comp_snap(r2, views) != birth[k2]:
                        return {'required': '%s asked again (source untouched, first result edited by %s: %s) answers '
                                            'as the first time' % (name, m, outcome),
                                'observed': 'answer %d differs' % k2, 'sig': dict(sig, side='again-differs', mutator=m)}
    return None


def _composite_cases(ctx):
    """Round 5: Wea source form x past x deriving call (every filter, duplicate / copy, the computed
    collections, the dictionary round trip) x edit x side; EPW x sky_temperature."""
    rng = ctx.rng
    small = ctx.quick and not ctx.searching
    for src in COMP_SOURCES:
        pasts = [COMP_PASTS[1]] + rng.sample(COMP_PASTS, 1 if small else (2 if ctx.quick else 4))
        for past in pasts:
            derives = COMP_DERIVES + ['filter_ap_window']
            if small:
                derives = rng.sample(derives, 5)
            for d in derives:
                case = {'src': src, 'past': list(past), 'derive': d}
                if small:
                    case['mutators'] = ['meta_key', 'meta_nested'] + rng.sample(COMP_MUTATORS, 3) + \
                        rng.sample(COLL_MUTATORS, 2)
                    case['mutators'] = sorted(set(case['mutators']))
                elif not ctx.searching:
                    case['mutators'] = sorted(set(['meta_key', 'meta_nested', 'meta_new_key', 'meta_replace']
                                                  + rng.sample(COMP_MUTATORS, 5) + rng.sample(COLL_MUTATORS, 3)))
                if 'k2' not in json.dumps(past) and 'meta' not in past:
                    case['mutators'] = [m for m in (case.get('mutators') or COMP_MUTATORS + COLL_MUTATORS)
                                        if m != 'meta_nested'] + ['meta_update']
                ctx.count('r5:composite:%s/%s' % (src, d))
                ctx.count('r5:composite-past:' + '+'.join(past or ['none']))
                yield 'composite', case
    deep = sky_temperature_deep()
    for past in ([], ['ip']):
        ctx.count('r5:composite:epw/sky_temperature')
        # (until fixes/C14_epw_sky_temperature_deepcopy.patch is committed the nested-list edits are asked by
        # the corpus case of the known finding only)
        yield 'composite', {'src': 'epw', 'past': past, 'derive': 'sky_temperature',
                            'mutators': ['meta_key', 'meta_new_key', 'member0:set_item', 'meta_set', 'set_item',
                                         'conv_ip'] + (['meta_nested', 'meta_append'] if deep else []),
                            'views': False}


def check_case(op, inp):
    if op == 'composite':
        return check_composite(inp)
    if op == 'api_header':
        return check_api_header(inp)
    if op == 'shape':
        return check_shape(inp)
    if op == 'returned':
        return check_returned(inp)
    if op == 'derive':
        return check_derive(inp)
    if op == 'history':
        return check_history(inp)
    if op == 'misc':
        return check_misc(inp)
    if op == 'process_order':
        return check_process_order(inp)
    raise ValueError('unknown op ' + op)


replay = check_case

_HC24 = {'cls': 'hc', 'mutable': True, 'unit': 'C', 'ap': [1, 1, 0, 1, 1, 23, 1, 0],
         'meta': {'k1': 1, 'k2': [1, 2]}, 'dts': [h * 60 for h in range(24)], 'vals': list(range(24))}


def _twin(spec, **kw):
    s = copy.deepcopy(spec)
    s.update(kw)
    return s


def _derive_args(rng, op, spec, nbuild):
    """Arguments for the sweep (well-formed)."""
    n = len(spec['vals'])
    if op in ('add', 'sub', 'mul', 'div'):
        return rng.choice([{'s': 2}, {'c': 1}])
    if op == 'to_unit':
        return {'u': rng.choice([1, 2])}
    if op == 'aligned':
        return {'v': rng.choice([3, [1] * n]), 'u': rng.choice([None, 1]), 'm': rng.choice([None, True, False])}
    if op == 'filter_pattern':
        return {'mask': [True, False, True]}
    if op == 'filter_range':
        return {'gt': -1000, 'lt': 1000, 'stmt': rng.random() < 0.5}
    if op == 'filter_keys':
        return {'keys': sorted(spec['dts'])[:max(1, n // 2)]}
    if op == 'filter_ap':
        ap = list(spec['ap'])
        if spec['cls'] in ('hd', 'hc') and rng.random() < 0.5:
            ap[2], ap[5] = max(ap[2], 6), min(ap[5], 18)
        return {'ap': ap}
    if op == 'cull':
        return {'ts': 1}
    if op == 'agg':
        return {'iv': rng.choice(['daily', 'monthly', 'mph']), 'fn': rng.choice(['average', 'total', 'percentile']),
                'p': 50}
    if op == 'interp_ts':
        return {'ts': 2 * spec['ap'][6]}
    if op == 'cfa':
        return dict(rng.choice([{'s': 2}, {'c': 1}]), u=rng.choice([0, 1]))
    if op in ('windrose', 'statement_filter_many'):
        return {'j': 1, 'n': 4, 'gt': -5}
    if op in ('normalize', 'aggregate_area'):
        return {'area': 2.0}
    return {}


ODD_SPECS = {'m': {'cls': 'monthly', 'mutable': True, 'unit': 'C', 'ap': [1, 1, 0, 12, 31, 23, 1, 0], 'meta': {'k2': [8]},
                  'dts': [1, 2, 3], 'vals': [1, 2, 3]},
             'd': {'cls': 'daily', 'mutable': True, 'unit': 'C', 'ap': [1, 1, 0, 12, 31, 23, 1, 0], 'meta': {'k2': [8]},
                   'dts': [1, 2, 3], 'vals': [1, 2, 3]}}


def _derive_args_bad(op, spec):
    """Arguments each deriving operation refuses (read off the validation code); index 2 of `build` is a
    collection of another class (not aligned with anything)."""
    n = len(spec['vals'])
    if op in ('add', 'sub', 'mul'):
        return [{'c': 2}, {'s': 'text'}]
    if op == 'div':
        return [{'s': 0}, {'c': 2}]
    if op == 'to_unit':
        return [{'u': 3}]
    if op == 'aligned':
        return [{'v': [1] * (n + 1), 'u': None, 'm': None}, {'v': 3, 'u': 3, 'm': None}, {'v': [], 'u': None, 'm': True}]
    if op == 'filter_pattern':
        return [{'mask': []}]
    if op == 'filter_ap':
        ap = list(spec['ap'])
        ap[6] = 2 if ap[6] == 1 else 1
        return [{'ap': ap}] if spec['cls'] in ('hd', 'hc') else []
    if op == 'cull':
        return [{'ts': 7}, {'ts': 0}]
    if op == 'interp_ts':
        return [{'ts': 7}, {'ts': 0}]
    if op == 'agg':
        return [{'iv': 'monthly', 'fn': 'percentile', 'p': 150}]
    if op == 'cfa':
        return [{'s': 'text', 'u': 0}, {'c': 2, 'u': 0}, {'s': 2, 'u': 3}]
    if op == 'windrose':
        return [{'j': 2, 'n': 4}, {'j': 1, 'n': 0}]
    if op in ('normalize', 'aggregate_area'):
        return [{'area': 0}]
    if op == 'statement_filter_many':
        return [{'j': 2, 'gt': 0}]
    return []


RARE_KINDS = ['single', 'leap', 'ts', 'empty-meta', 'zeros', 'wrap', 'aptext', 'unicode', 'extreme', 'past',
              'shape']
MDAYS = [31, 28, 31, 30, 31, 30, 31, 31, 30, 31, 30, 31]


def _past_chains(cls, mutable, ts):
    """Well-formed pasts of a source (steps applied after construction): hidden flags set, derived from a
    derived object, converted / culled in place, there and back between the mutable and immutable twin."""
    val, dup = {'k': 'd', 'op': 'validate', 'args': {}}, {'k': 'd', 'op': 'dup', 'args': {}}
    imm, mut = {'k': 'd', 'op': 'to_immutable', 'args': {}}, {'k': 'd', 'op': 'to_mutable', 'args': {}}
    allpass = {'k': 'd', 'op': 'filter_range', 'args': {'gt': -10 ** 9, 'lt': 10 ** 9, 'stmt': True}}
    allpass2 = {'k': 'd', 'op': 'filter_pattern', 'args': {'mask': [True]}}
    chains = [[val], [val, val], [dup], [allpass], [allpass2], [mut, imm], [imm, mut], [allpass, val]]
    if cls in ('hd', 'hc'):
        chains += [[{'k': 'd', 'op': 'cull', 'args': {'ts': ts}}], [{'k': 'd', 'op': 'cull', 'args': {'ts': ts}}, val]]
    if cls == 'hc':
        chains += [[{'k': 'd', 'op': 'to_disc', 'args': {}}], [{'k': 'd', 'op': 'to_disc', 'args': {}}, val],
                   [{'k': 'd', 'op': 'filter_ap', 'args': {'ap': None}}]]
    if mutable:
        chains += [[{'k': 'm', 'op': 'conv_unit', 'args': {'u': 1}}], [{'k': 'm', 'op': 'conv_unit', 'args': {'u': 2}}, val],
                   [val, {'k': 'm', 'op': 'set_item', 'args': {'i': 0, 'x': 7}}]]
        if cls in ('hd', 'hc'):
            chains += [[{'k': 'm', 'op': 'cull_inplace', 'args': {'ts': ts}}],
                       [{'k': 'm', 'op': 'cull_inplace', 'args': {'ts': ts}}, val]]
    else:
        chains = [ch + [imm] for ch in chains]
    return chains


def _wrap_spec(rng, spec, cls):
    """A period that runs through the year's end (December -> January)."""
    if cls in ('hd', 'hc'):
        ts = rng.choice([1, 1, 2]) if cls == 'hc' else 1
        days = [(12, 31, 364), (1, 1, 0)]
        h1, h2 = (0, 23) if cls == 'hc' else rng.choice([(0, 23), (6, 18)])
        full = [d * 1440 + h * 60 + k * (60 // ts) for _, _, d in days for h in range(h1, h2 + 1) for k in range(ts)]
        if cls == 'hd':
            pick = sorted(rng.sample(range(len(full)), 7))
            full = [full[i] for i in pick]
        spec.update(ap=[12, 31, h1, 1, 1, h2, ts, 0], dts=full)
    elif cls == 'daily':
        spec.update(ap=[12, 30, 0, 1, 3, 23, 1, 0], dts=[364, 365, 1, 2, 3][rng.randrange(2):])
    elif cls == 'monthly':
        spec.update(ap=[11, 1, 0, 2, 28, 23, 1, 0], dts=[11, 12, 1, 2][rng.randrange(2):])
    else:
        spec.update(ap=[12, 1, 0, 1, 31, 23, 1, 0], dts=[120000, 121200, 122300, 10000, 10600])
    spec['vals'] = [rng.randint(-5, 30) for _ in spec['dts']]
    return spec


def _rare_spec(rng, cls, mutable, kind):
    """Source specs of the rare classes: one value, leap year (29 Feb inside), other timesteps, empty
    metadata, all-zero / falsy content."""
    spec = gen_spec(rng, cls, mutable, hourly_days=1, energy=False)
    spec['meta'] = {'k1': 1, 'k2': [1, 2]}
    if kind == 'single':
        if cls == 'hc':             # (a continuous collection covers whole days: the shortest has 24 values)
            return spec
        if cls == 'hd':
            d, h = rng.randint(1, 3), rng.randint(0, 23)
            spec.update(ap=[1, d, h, 1, d, h, 1, 0], dts=[(d - 1) * 1440 + h * 60])
        elif cls == 'daily':
            spec.update(ap=[1, 5, 0, 1, 5, 23, 1, 0], dts=[5])
        elif cls == 'monthly':
            spec.update(ap=[3, 1, 0, 3, 31, 23, 1, 0], dts=[3])
        else:
            spec.update(ap=[3, 1, 7, 3, 31, 7, 1, 0], dts=[30700])
        spec['vals'] = [rng.choice([0, 21.5, -3])]
    elif kind == 'leap':
        if cls in ('hd', 'hc'):
            full = [d * 1440 + h * 60 for d in (58, 59, 60) for h in range(24)]
            spec.update(ap=[2, 28, 0, 3, 1, 23, 1, 1],
                        dts=full if cls == 'hc' else sorted(rng.sample(full, 6) + [59 * 1440 + 720]))
            spec['dts'] = sorted(set(spec['dts']))
        elif cls == 'daily':
            spec.update(ap=[2, 28, 0, 3, 1, 23, 1, 1], dts=[59, 60, 61])
        elif cls == 'monthly':
            spec.update(ap=[1, 1, 0, 12, 31, 23, 1, 1], dts=[2, 3])
        else:
            spec.update(ap=[2, 1, 0, 3, 31, 23, 1, 1], dts=[20000, 21200, 30600])
        spec['vals'] = [rng.randint(-5, 30) for _ in spec['dts']]
    elif kind == 'ts':
        if cls in ('hd', 'hc'):
            ts = rng.choice([3, 4, 5, 6, 10, 12, 15, 20, 30, 60] if cls == 'hd' else [2, 3, 4, 6, 12])
            full = [h * 60 + k * (60 // ts) for h in range(24) for k in range(ts)]
            spec.update(ap=[1, 1, 0, 1, 1, 23, ts, 0],
                        dts=full if cls == 'hc' else sorted(rng.sample(full, 7)))
            spec['vals'] = [rng.randint(-5, 30) for _ in spec['dts']]
    elif kind == 'wrap':
        _wrap_spec(rng, spec, cls)
    elif kind == 'aptext':
        spec['aphow'] = rng.choice(['string', 'strargs', 'repr'])
        if rng.random() < 0.5 and cls in ('hd', 'hc'):     # two-digit fields next to one-digit ones
            d = rng.randint(10, 20)
            ts = spec['ap'][6]
            h1, h2 = (0, 23) if cls == 'hc' else (spec['ap'][2], spec['ap'][5])
            full = [(_doy(10, d) - 1) * 1440 + h * 60 + k * (60 // ts) for h in range(h1, h2 + 1) for k in range(ts)]
            spec.update(ap=[10, d, h1, 10, d, h2, ts, 0],
                        dts=full if cls == 'hc' else sorted(rng.sample(full, min(6, len(full)))))
            spec['vals'] = [rng.randint(-5, 30) for _ in spec['dts']]
    elif kind == 'unicode':
        spec['meta'] = {'k1': 'zon\u00e9 \u2460', 'k2': ['\u00fc', 'a b', ''], '\u043a\u043b\u044e\u0447': 1,
                        'zb': 2, 'a': 3}         # (keys not in sorted order)
    elif kind == 'extreme':
        spec['vals'] = [rng.choice([1e-12, -1e-12, 1e16, -1e16, 0.5, 2.5, -0.5, -0.0, 1e-300, 123456789.125])
                        for _ in spec['dts']]
    elif kind == 'past':
        ch = rng.choice(_past_chains(cls, mutable, spec['ap'][6]))
        ch = copy.deepcopy(ch)
        for st in ch:
            if st['op'] == 'filter_ap':
                st['args']['ap'] = list(spec['ap'])
        spec['pre'] = ch
    elif kind == 'shape':
        spec['vshape'] = rng.choice(['tuple', 'deque', 'dictvalues', 'array', 'list'])
        spec['dshape'] = rng.choice(DSHAPES)
    elif kind == 'empty-meta':
        spec['meta'] = {}
    elif kind == 'zeros':
        spec['vals'] = [0 for _ in spec['dts']]
        spec['meta'] = {'k1': 0, 'k2': []}
    return spec


def _branches(op, args, spec):
    """The branches of the anchored functions that a sweep case takes (read off the code; see the header)."""
    cls, ts, out = spec['cls'], spec['ap'][6], []
    pre = [st['op'] for st in spec.get('pre', ())]
    wrapped = (spec['ap'][0], spec['ap'][1]) > (spec['ap'][3], spec['ap'][4])
    if not spec['meta']:
        out.append('header.metadata:empty(value or {})')
    if wrapped:
        out.append('period:wrapped/' + op)
    if spec['ap'][7]:
        out.append('period:leap/' + op)
    if spec.get('aphow'):
        out.append('period:from-text/' + spec['aphow'])
    if pre:
        out.append('source:with-a-past/' + '+'.join(pre))
    if op == 'agg':
        sub = cls in ('hd', 'hc') and ts != 1 and args['iv'] in ('daily', 'monthly')
        out.append('_time_interval_operation:' + ('sub-hourly(new header)' if sub else 'header.duplicate'))
    elif op == 'validate':
        seen = cls == 'hc' or 'validate' in pre or (cls == 'hd' and ('cull' in pre or 'cull_inplace' in pre))
        out.append('validate:' + ('flag-already-set' if seen else 'flag-unset') + '/' + cls)
        if wrapped:
            out.append('validate:reversed-period/' + cls)
    elif op == 'filter_ap':
        cont = cls == 'hc' and args['ap'][2] == 0 and args['ap'][5] == 23
        out.append('filter_by_analysis_period:' + ('continuous-slice' if cont else 'by-moys'))
        if cont and wrapped:
            out.append('filter_by_analysis_period:two-slices(end_ind<=st_ind)')
    elif op == 'filter_keys' and cls == 'hc':
        out.append('filter_by_moys:' + ('reversed-index' if wrapped else 'plain-index'))
    elif op == 'to_unit':
        out.append('to_unit:' + ('identity' if UNITS[args['u']] == spec['unit'] else 'converted'))
    elif op in ('to_ip', 'to_si'):
        ident = (op == 'to_ip') == (spec['unit'] == 'F')
        out.append(op + ':' + ('identity' if ident else 'converted'))
    elif op == 'aligned':
        out.append('aligned:value-' + ('list' if isinstance(args['v'], list) else 'number'))
        out.append('aligned:mutable=%s' % args.get('m'))
        out.append('aligned:unit-' + ('given' if args.get('u') is not None else 'default'))
    elif op in ('dup', 'copy', 'to_immutable', 'to_mutable'):
        out.append('%s:%s' % (op, 'from-mutable' if spec['mutable'] else 'from-immutable(tuple kept)'))
    elif op in ('add', 'sub', 'mul', 'div', 'cfa'):
        out.append('%s:%s/%s' % ('arith' if op != 'cfa' else 'cfa', 'collection' if 'c' in args else 'number',
                                 'continuous-override' if cls == 'hc' else 'base'))
    elif op == 'interp_holes':
        out.append('interpolate_holes:' + ('continuous(duplicate)' if cls == 'hc' else 'discontinuous'))
    return out


def _r4_cases(ctx):
    """Round 4 strata that every run must contain (not left to sampling): every deriving operation on
    sources whose validated flag is already set (each class that has the flag), identity unit conversions
    on every class, sub-hourly aggregation with metadata, reversed periods, container types, returned
    containers."""
    rng = ctx.rng
    small = ctx.quick and not ctx.searching
    val = {'k': 'd', 'op': 'validate', 'args': {}}
    imm = {'k': 'd', 'op': 'to_immutable', 'args': {}}
    for cls in ('hd', 'daily', 'monthly', 'mph', 'hc'):
        for mutable in (True, False):
            base = gen_spec(rng, cls, mutable, hourly_days=1, energy=False)
            base['meta'] = {'k1': 1, 'k2': [1, 2]}
            # (e) hidden flag: the source was validated before
            chains = _past_chains(cls, mutable, base['ap'][6])
            ops = [o for o in SWEEP_OPS if o not in ENERGY_OPS]
            if small:
                ops = ['validate', 'dup', 'to_mutable', 'to_immutable'] + rng.sample(ops, 5)
            for op in ops:
                spec = copy.deepcopy(base)
                spec['pre'] = [val] if mutable else [val, imm]
                if op not in ('validate', 'dup') and rng.random() < 0.5:
                    spec['pre'] = copy.deepcopy(rng.choice(chains))
                    for st in spec['pre']:
                        if st['op'] == 'filter_ap':
                            st['args']['ap'] = list(spec['ap'])
                sib = _twin(spec, vals=[(int(v) % 7) + 1 for v in spec['vals']], meta={'k2': [5]})
                args = _derive_args(rng, op, spec, 2)
                case = {'build': [spec, sib], 'derive': {'on': 0, 'op': op, 'args': args}}
                if not ctx.searching:
                    case['mutators'] = sorted(rng.sample(range(N_PLAIN_MUTATORS), 4 if small else 8)
                                              + rng.sample(REFUSED_IDX, 1))
                for b in _branches(op, args, spec):
                    ctx.count('branch:' + b)
                ctx.count('r4:past')
                yield 'derive', case
            # (g) conversions that leave the numbers as they are
            for unit, op, a in (('C', 'to_si', {}), ('F', 'to_ip', {}), ('K', 'to_si', {}), ('C', 'to_unit', {'u': 0}),
                                ('F', 'to_unit', {'u': 1}), ('K', 'to_unit', {'u': 2})):
                spec = _twin(base, unit=unit)
                for b in _branches(op, a, spec):
                    ctx.count('branch:' + b)
                ctx.count('r4:identity-conversion')
                yield 'derive', {'build': [spec], 'derive': {'on': 0, 'op': op, 'args': dict(a)},
                                 'mutators': [0, 4, 5, 6, 7, 10] if not ctx.searching else None}
            # (j) sub-hourly aggregation / reversed periods, metadata not empty
            if cls in ('hd', 'hc'):
                for ts in (rng.sample([2, 3, 4, 6, 12], 2) if small else [2, 3, 4, 5, 6, 10, 12]):
                    spec = _rare_spec(rng, cls, mutable, 'ts')
                    full = [h * 60 + k * (60 // ts) for h in range(24) for k in range(ts)]
                    spec.update(ap=[1, 1, 0, 1, 1, 23, ts, 0],
                                dts=full if cls == 'hc' else sorted(rng.sample(full, 9)))
                    spec['vals'] = [rng.randint(-5, 30) for _ in spec['dts']]
                    for iv in ('daily', 'monthly', 'mph'):
                        a = {'iv': iv, 'fn': rng.choice(['average', 'total', 'percentile']), 'p': 50}
                        for b in _branches('agg', a, spec):
                            ctx.count('branch:' + b)
                        ctx.count('r4:sub-hourly-aggregation')
                        yield 'derive', {'build': [copy.deepcopy(spec)], 'derive': {'on': 0, 'op': 'agg', 'args': a},
                                         'mutators': [7, 8, 9, 10] if not ctx.searching else None}
            wspec = _rare_spec(rng, cls, mutable, 'wrap')
            for op in (['filter_keys', 'filter_ap', 'validate'] + rng.sample(['agg', 'dup', 'aligned', 'cull',
                                                                              'filter_pattern', 'to_immutable'], 2)
                       if small else [o for o in SWEEP_OPS if o not in ENERGY_OPS]):
                spec = copy.deepcopy(wspec)
                args = _derive_args(rng, op, spec, 2)
                for b in _branches(op, args, spec):
                    ctx.count('branch:' + b)
                ctx.count('r4:wrapped-period')
                yield 'derive', {'build': [spec, _twin(spec, meta={'k2': [5]})],
                                 'derive': {'on': 0, 'op': op, 'args': args},
                                 'mutators': sorted(rng.sample(range(N_PLAIN_MUTATORS), 4)) if not ctx.searching
                                 else None}
            # (f) / (i) container types and one-shot iterables, for every way a sequence gets in
            spec = copy.deepcopy(base)
            for via in ('ctor', 'setter', 'aligned'):
                if via == 'setter' and not mutable:
                    continue
                for vs in VSHAPES:
                    ds = rng.choice(DSHAPES) if via == 'ctor' else 'list'
                    ctx.count('shape:%s/values=%s' % (via, vs))
                    yield 'shape', {'spec': spec, 'via': via, 'vshape': vs, 'dshape': ds}
            for ds in DSHAPES:
                ctx.count('shape:ctor/datetimes=%s' % ds)
                yield 'shape', {'spec': spec, 'via': 'ctor', 'vshape': rng.choice(['list', 'tuple']), 'dshape': ds}
            for get in RETURNED_GETTERS:
                ctx.count('returned:' + get)
                yield 'returned', {'spec': spec, 'get': get}
    for vs, same in ((('list', True), ('tuple', True), ('deque', False)) if small else
                     [(v, sm) for v in ('list', 'tuple', 'deque', 'array') for sm in (True, False)]):
        for ts, leap in (((1, 0),) if small else ((1, 0), (2, 0), (1, 1))):
            ctx.count('shape:wea_annual/values=%s%s' % (vs, '/one-container-twice' if same else ''))
            yield 'shape', {'spec': {'cls': 'hc', 'mutable': True, 'ap': [1, 1, 0, 12, 31, 23, ts, leap], 'vals': []},
                            'via': 'wea_annual', 'vshape': vs, 'same': same}
    for obj, get in RETURNED_OTHER:
        ctx.count('returned:%s.%s' % (obj, get))
        yield 'returned', {'obj': obj, 'get': get}
    yield 'misc', {'what': 'epw_dict_round_trip'}


# --- round 5: operands that are NOT alike (class "an operation generalised to a wider class of operand pairs")

FAMILY_UNITS = {'Temperature': ['C', 'F', 'K'], 'Energy': ['kWh', 'kBtu', 'Wh', 'MJ'], 'Power': ['W', 'kW', 'Btu/h'],
                'EnergyIntensity': ['kWh/m2', 'kBtu/ft2', 'Wh/m2'], 'EnergyFlux': ['W/m2', 'kW/m2', 'Btu/h-ft2']}
HETERO_VARIANTS = ['unit', 'unit2', 'unit+imm', 'unit+mut', 'dtype', 'mutability', 'meta', 'class', 'period', 'length']
PAIR_OPS = ['add', 'sub', 'mul', 'div', 'cfa', 'queries', 'statement_filter_many', 'windrose', 'wea_init']


def _hetero_sibling(rng, spec, variant):
    """A second operand that differs from `spec` in ONE respect (same class and length unless the variant
    says otherwise): another unit of the same data type, another data type, the other mutability, other
    metadata, another collection class, another period, another length.  Plain numbers only."""
    sib = _twin(spec, vals=[(int(abs(v)) % 7) + 1 for v in spec['vals']], meta={'k2': [5], 'k1': 'sib'})
    sib.pop('pre', None)
    dt = spec.get('dtype', 'Temperature')
    fam = [u for u in FAMILY_UNITS[dt] if u != spec['unit']]
    if variant in ('unit', 'unit2', 'unit+imm', 'unit+mut'):
        sib['unit'] = fam[0] if variant != 'unit2' else fam[-1]
        if variant == 'unit+imm':
            sib['mutable'] = False
        elif variant == 'unit+mut':
            sib['mutable'] = True
        else:
            sib['mutable'] = rng.random() < 0.7
    elif variant == 'dtype':
        other = rng.choice([d for d in FAMILY_UNITS if d != dt])
        sib.update(dtype=other, unit=rng.choice(FAMILY_UNITS[other]))
    elif variant == 'mutability':
        sib['mutable'] = not spec['mutable']
    elif variant == 'meta':
        sib['meta'] = rng.choice([{}, {'k1': 1, 'k2': [1, 2]}, {'type': 'Zone', 'k3': ['x']}])
    elif variant == 'class':
        if spec['cls'] in ('hc', 'hd'):
            sib['cls'] = 'hd' if spec['cls'] == 'hc' else 'hc'
            if sib['cls'] == 'hc':      # a whole day that holds the datetimes of the discontinuous one
                d = spec['dts'][0] // 1440
                ts = spec['ap'][6]
                sib.update(ap=[spec['ap'][0], spec['ap'][1], 0, spec['ap'][0], spec['ap'][1], 23, ts, spec['ap'][7]],
                           dts=[d * 1440 + h * 60 + k * (60 // ts) for h in range(24) for k in range(ts)])
                sib['vals'] = [(i % 7) + 1 for i in range(len(sib['dts']))]
        else:
            sib.update(copy.deepcopy(ODD_SPECS['d' if spec['cls'] == 'monthly' else 'm']))
            sib.update(mutable=spec['mutable'], unit=spec['unit'])
            if dt != 'Temperature':
                sib['dtype'] = dt
    elif variant == 'period':
        ap = list(spec['ap'])
        if spec['cls'] in ('hc', 'hd') and ap[0] == ap[3] and ap[4] < 27:
            ap[1] += 1
            ap[4] += 1
            sib.update(ap=ap, dts=[t + 1440 for t in spec['dts']])
        else:
            ap[7] = 1 - ap[7] if spec['cls'] not in ('hc', 'hd') else ap[7]
            sib['ap'] = ap
    elif variant == 'length' and spec['cls'] != 'hc' and len(spec['dts']) > 1:
        sib.update(dts=spec['dts'][:-1], vals=sib['vals'][:-1])
    return sib


def _hetero_cases(ctx):
    """Round 5: every operation that takes TWO collections (arithmetic - base and continuous override -,
    compute_function_aligned, the alignment queries, filter_collections_by_statement, WindRose, the Wea
    constructor) on pairs that are not alike: units of one data type (C / F / K, kWh / kBtu ..), data
    types, mutability, metadata, class, period, length; each operand on either side of the operator.  The call
    may answer or refuse: both operands read as before; then the usual edits on either side."""
    rng = ctx.rng
    small = ctx.quick and not ctx.searching
    for cls in ('hc', 'hd', 'daily', 'monthly', 'mph'):
        for mutable in (True, False):
            for dtype in (('Temperature',) if small and rng.random() < 0.6 else ('Temperature', rng.choice(
                    ['Energy', 'Power', 'EnergyIntensity', 'EnergyFlux']))):
                base = gen_spec(rng, cls, mutable, hourly_days=1, energy=False)
                base['meta'] = {'k1': 1, 'k2': [1, 2]}
                if dtype != 'Temperature':
                    base.update(dtype=dtype, unit=rng.choice(FAMILY_UNITS[dtype]),
                                vals=[abs(v) + 1 for v in base['vals']])
                else:
                    base['unit'] = rng.choice(['C', 'F', 'K'])
                for variant in HETERO_VARIANTS:
                    unitv = variant.startswith('unit')
                    ops = [o for o in PAIR_OPS if cls in ('hc', 'hd') or o not in ('windrose', 'wea_init')]
                    if small:
                        ops = (['add', 'sub'] if unitv else []) + rng.sample(ops, 2 if unitv else 1)
                    elif ctx.quick and not unitv:
                        ops = rng.sample(ops, 4)
                    for op in dict.fromkeys(ops):
                        sib = _hetero_sibling(rng, base, variant)
                        on = rng.choice([0, 0, 1])
                        args = {'c': 1 - on}
                        if op == 'cfa':
                            args['u'] = rng.choice([0, 1])
                        elif op in ('windrose', 'statement_filter_many'):
                            args = {'j': 1 - on, 'n': 4, 'gt': -5}
                        case = {'build': [copy.deepcopy(base), sib], 'derive': {'on': on, 'op': op, 'args': args}}
                        if op in ('queries', 'wea_init'):
                            case['mutators'] = []
                        elif not ctx.searching:
                            case['mutators'] = sorted(set([0, 7] + rng.sample(range(N_PLAIN_MUTATORS), 2)))
                        ctx.count('r5:pair:%s/%s' % (variant, op))
                        ctx.count('r5:pair-left:%s' % ('first' if on == 0 else 'second'))
                        yield 'derive', case
            # statistics / reports of one collection: nothing changes
            for kind in (['plain'] + rng.sample(RARE_KINDS, 1 if small else 3)):
                spec = gen_spec(rng, cls, mutable, hourly_days=1) if kind == 'plain' else \
                    _rare_spec(rng, cls, mutable, kind)
                ctx.count('r5:stats')
                yield 'derive', {'build': [spec], 'derive': {'on': 0, 'op': 'stats', 'args': {}}, 'mutators': []}


SWEEP_OPS = [o for o in DERIVE_OPS if o != 'cfa_ref'] + ['copy', 'hourlyplot', 'monthlychart',
                                                         'statement_filter_many', 'from_dict']


def _sweep_cases(ctx):
    """Every deriving operation x class x mutability, with an aligned sibling as second source."""
    rng = ctx.rng
    reps = 1 if ctx.quick and not ctx.searching else 2
    small = ctx.quick and not ctx.searching
    n_kinds, n_ops = (2, 5) if small else ((3, 12) if ctx.quick else (len(RARE_KINDS), 16))
    for _ in range(reps):
        for cls in ('hc', 'hd', 'daily', 'monthly', 'mph'):
            for mutable in (True, False):
                base = gen_spec(rng, cls, mutable, hourly_days=1)
                if not base['meta'] or rng.random() < 0.5:
                    base['meta'] = {'k1': 1, 'k2': [1, 2]}
                bases = [('plain', base)]
                for kind in rng.sample(RARE_KINDS, n_kinds):
                    bases.append((kind, _rare_spec(rng, cls, mutable, kind)))
                for kind, rbase in bases[1:]:
                    ops = rng.sample(SWEEP_OPS, n_ops)
                    for op in ops:
                        if op in ENERGY_OPS:
                            continue
                        spec = copy.deepcopy(rbase)
                        sib = _twin(spec, vals=[(int(v) % 7) + 1 for v in spec['vals']],
                                    mutable=spec['mutable'] if kind == 'past' else rng.random() < 0.5,
                                    meta={} if kind == 'empty-meta' else {'k2': [5]})
                        args = _derive_args(rng, op, spec, 2)
                        for b in _branches(op, args, spec):
                            ctx.count('branch:' + b)
                        if kind == 'zeros' and 's' in args:
                            args['s'] = 0                       # falsy scalar operand
                        if kind == 'zeros' and op == 'aligned':
                            args['v'] = 0
                        case = {'build': [spec, sib], 'derive': {'on': 0, 'op': op, 'args': args}}
                        if small:
                            case['mutators'] = sorted(rng.sample(range(N_PLAIN_MUTATORS), 4)
                                                      + rng.sample(REFUSED_IDX, 1))
                        ctx.count('sweep:rare:' + kind)
                        yield 'derive', case
                for op in SWEEP_OPS:
                    bad = _derive_args_bad(op, base)
                    if small and bad:
                        bad = [rng.choice(bad)]
                    for args in bad:
                        spec = copy.deepcopy(base)
                        sib = _twin(spec, vals=[(v % 7) + 1 for v in spec['vals']], mutable=rng.random() < 0.5,
                                    meta={'k2': [5]})
                        ctx.count('sweep:refused-derive')
                        yield 'derive', {'build': [spec, sib, ODD_SPECS['d' if cls == 'monthly' else 'm']],
                                         'derive': {'on': 0, 'op': op, 'args': args}, 'mutators': []}
                for op in SWEEP_OPS:
                    spec = copy.deepcopy(base)
                    if op in ('normalize', 'time_rate'):
                        spec.update(dtype='Energy', unit='kWh', meta={'type': 'Energy', 'k2': [1]})
                    elif op == 'aggregate_area':
                        spec.update(dtype='EnergyIntensity', unit='kWh/m2', meta={'type': 'Energy Intensity'})
                    elif op in ('time_aggregated', 'time_agg'):
                        spec.update(dtype='Power', unit='W')
                    sib = _twin(spec, vals=[(v % 7) + 1 for v in spec['vals']], mutable=rng.random() < 0.5,
                                meta={'k2': [5]})
                    case = {'build': [spec, sib],
                            'derive': {'on': 0, 'op': op, 'args': _derive_args(rng, op, spec, 2)}}
                    if ctx.quick and not ctx.searching:
                        # quick tier: the five core mutators and three of the others per case
                        core_m = [0, 5, 7, 10, 4]
                        rest = [i for i in range(N_PLAIN_MUTATORS) if i not in core_m]
                        case['mutators'] = sorted(core_m + rng.sample(rest, 2) + rng.sample(REFUSED_IDX, 2))
                    yield 'derive', case


# ---------------------------------------------------------------------------------------------
# round 6: the derive-capable public API is DISCOVERED on the tree under test


API_KNOWN = frozenset([
    'ToString', '__add__', '__contains__', '__copy__', '__dict__', '__div__', '__doc__', '__eq__', '__getitem__',
    '__hash__', '__init__', '__iter__', '__len__', '__module__', '__mul__', '__ne__', '__neg__', '__repr__',
    '__setitem__', '__slots__', '__sub__', '__truediv__', '__weakref__', 'aggregate_by_area', 'arange',
    'are_collections_aligned', 'are_metadatas_aligned', 'average', 'average_daily', 'average_monthly',
    'average_monthly_per_hour', 'bounds', 'compute_function_aligned', 'convert_to_culled_timestep', 'convert_to_ip',
    'convert_to_si', 'convert_to_unit', 'cull_to_timestep', 'datetime_strings', 'datetimes', 'duplicate',
    'filter_by_analysis_period', 'filter_by_conditional_statement', 'filter_by_doys', 'filter_by_hoys',
    'filter_by_months', 'filter_by_months_per_hour', 'filter_by_moys', 'filter_by_pattern', 'filter_by_range',
    'filter_collections_by_statement', 'from_dict', 'get_aligned_collection', 'group_by_day', 'group_by_month',
    'group_by_month_per_hour', 'header', 'highest_values', 'histogram', 'histogram_circular', 'interpolate_holes',
    'interpolate_to_timestep', 'is_collection_aligned', 'is_continuous', 'is_in_data_type_range',
    'is_metadata_aligned', 'is_mutable', 'linspace', 'lowest_values', 'max', 'median', 'min', 'moys_dict',
    'normalize_by_area', 'pattern_from_collections_and_statement', 'percentile', 'percentile_daily',
    'percentile_monthly', 'percentile_monthly_per_hour', 'timestep_text', 'to_dict', 'to_discontinuous',
    'to_immutable', 'to_ip', 'to_mutable', 'to_si', 'to_time_aggregated', 'to_time_rate_of_change', 'to_unit',
    'total', 'total_daily', 'total_monthly', 'total_monthly_per_hour', 'validate_analysis_period',
    'validated_a_period', 'values'])
API_NOT_CALLED = frozenset(['__init__', '__new__', '__dict__', '__doc__', '__module__', '__slots__', '__weakref__',
                            '__hash__', '__setitem__', '__delitem__', '__setattr__', '__delattr__', '__del__',
                            '__class__', '__init_subclass__', '__subclasshook__', '__getattribute__', '__getattr__',
                            '__reduce__', '__reduce_ex__', '__getstate__', '__setstate__', '__sizeof__',
                            '__enter__', '__exit__'])
API_WRITER_WORDS = ('write', 'save', 'file', 'dump', 'export', 'csv', 'json', 'folder', 'path', 'print')
API_BIN = ('add', 'sub', 'mul', 'truediv', 'floordiv', 'mod', 'pow', 'matmul', 'and', 'or', 'xor', 'lshift',
           'rshift')
API_UNARY = ('neg', 'pos', 'abs', 'invert')
API_NUM_PROBES = ('zero', 'zerof', 'negzero', 'false', 'one', 'onef', 'true', 'num', 'neg')
API_PROBES = ('none',) + API_NUM_PROBES + ('sib', 'self', 'list1', 'list2', 'empty', 'unit', 'ap', 'none1', 'slice',
                                          'zero2', 'sibzero', 'text')
API_BUILTINS = ('sum1', 'sum1iter', 'sum1gen', 'sum1tuple', 'sum1start0f', 'sum2', 'sum3', 'prod1', 'prod2',
                'deepcopy', 'copy', 'round', 'reversed')


def _api_probe(name, c, sib):
    if name == 'none':
        return ()
    simple = {'zero': 0, 'zerof': 0.0, 'negzero': -0.0, 'false': False, 'one': 1, 'onef': 1.0, 'true': True,
              'num': 2.5, 'neg': -3, 'none1': None, 'text': 'a > 0'}
    if name in simple:
        return (simple[name],)
    if name == 'sib':
        return (sib,)
    if name == 'self':
        return (c,)
    if name == 'list1':
        return ([c],)
    if name == 'list2':
        return ([c, sib],)
    if name == 'empty':
        return ([],)
    if name == 'emptydict':
        return ({},)
    if name == 'unit':
        return (c.header.unit,)
    if name == 'ap':
        return (_mk_ap(_ap_tokens(c.header.analysis_period)),)
    if name == 'slice':
        return (slice(None),)
    if name == 'zero2':
        return (0, 0)
    if name == 'sibzero':
        return (sib, 0)
    if name.startswith('mix:'):
        out = ()
        for b in name[4:].split('.'):
            out += _api_probe(b, c, sib)
        return out
    if name.startswith('rep:'):                 # the same probe for each of k required parameters
        _, base, k = name.split(':')
        return _api_probe(base, c, sib) * int(k)
    raise ValueError('unknown probe ' + name)


@contextlib.contextmanager
def _no_files():
    """A name the check does not know is called with probe operands: while it runs, nothing can be opened (a
    writer given a probe as its path must not leave files behind or close a standard stream)."""
    import builtins
    real = builtins.open

    def refuse(*args, **kw):
        raise IOError('no files during an API probe')
    builtins.open = refuse
    try:
        yield
    finally:
        builtins.open = real


def _api_call(c, sib, a):
    """One public attribute / operator / built-in protocol of collection `c`, by NAME (nothing here knows
    what the name does)."""
    import math
    import operator
    form, name = a['form'], a['name']
    if form == 'builtin':
        if name == 'sum1':
            return sum([c])
        if name == 'sum1iter':
            return sum(iter([c]))
        if name == 'sum1gen':
            return sum(x for x in [c])
        if name == 'sum1tuple':
            return sum((c,))
        if name == 'sum1start0f':
            return sum([c], 0.0)
        if name == 'sum2':
            return sum([c, sib])
        if name == 'sum3':
            return sum([c, sib, c])
        if name == 'prod1':
            return math.prod([c])
        if name == 'prod2':
            return math.prod([c, sib])
        if name == 'deepcopy':
            return copy.deepcopy(c)
        if name == 'copy':
            return copy.copy(c)
        if name == 'round':
            return round(c)
        if name == 'reversed':
            return reversed(c)
        raise ValueError('unknown builtin form ' + name)
    p = _api_probe(a['probe'], c, sib)
    if a['probe'] in ('list1', 'list2'):
        a['_list'] = p[0]
    if form == 'op':
        return getattr(operator, {'and': 'and_', 'or': 'or_'}.get(name, name))(c, p[0])
    if form == 'rop':
        return getattr(operator, {'and': 'and_', 'or': 'or_'}.get(name, name))(p[0], c)
    if form == 'unary':
        return getattr(operator, name)(c)
    if form == 'call':
        f = getattr(c, name)
        if not callable(f):
            return f
        with _no_files():
            return f(*p)
    raise ValueError('unknown api form ' + form)


def _api_collect(res, depth=0, kinds=('coll',)):
    """The collections inside whatever came back (lists / tuples / dict values, two levels)."""
    if not isinstance(res, (list, tuple, dict)) and _kind(res) in kinds:
        return [res]
    out = []
    if depth < 2 and isinstance(res, (list, tuple, dict)) and len(res) <= 64:
        for x in (res.values() if isinstance(res, dict) else res):
            out.extend(_api_collect(x, depth + 1, kinds))
    return out


def _api_names(cls):
    """Public names and the special methods a ladybug class defines (read from the class of the tree under test)."""
    names = []
    for n in dir(cls):
        if n.startswith('__') and n.endswith('__'):
            if not any(n in b.__dict__ and str(b.__module__).startswith('ladybug') for b in cls.__mro__):
                continue
            if not callable(getattr(cls, n, None)):
                continue                    # __doc__, __slots__, the copyreg cache ...
        elif n.startswith('_'):
            continue
        names.append(n)
    return names


def _api_arity_probes(cls, n, known=API_KNOWN):
    """A name the check does not know that asks for k >= 2 arguments: each number probe k times."""
    import inspect
    if n in known:
        return ()
    try:
        ps = list(inspect.signature(getattr(cls, n)).parameters.values())
        k = len([q for q in ps if q.default is q.empty and q.kind in (q.POSITIONAL_ONLY, q.POSITIONAL_OR_KEYWORD)])
        if ps and ps[0].name in ('self', 'cls'):
            k -= 1
    except Exception:
        return ()
    if k < 2 or k > 4:
        return ()
    import itertools
    mixed = tuple('mix:' + '.'.join(t) for t in itertools.product(('zero', 'one', 'none1') if k <= 3 else
                                                                  ('zero', 'one'), repeat=k)
                  if len(set(t)) > 1)           # every pairing of the identity elements 0 / 1 / None
    return tuple('rep:%s:%d' % (b, k) for b in ('zero', 'one', 'onef', 'num', 'sib', 'true', 'none1')) + mixed


API_PROBES_SHORT = ('none', 'zero', 'one', 'num', 'sib', 'list2', 'unit', 'ap', 'none1')


def _api_forms(cls, small=False):
    """(name, form, probes) for everything that could hand back a collection: every discovered name called with
    every probe; every binary operator of the language with a number / a sibling on either side (whether the
    class defines it or not: a reflected or fall-back protocol defined tomorrow is asked today); the unary
    operators; the built-in protocols that reduce to them (sum, math.prod, copy, deepcopy)."""
    out = []
    for n in _api_names(cls):
        if n in API_NOT_CALLED or n.startswith('convert_to_') or (
                n.startswith('__i') and n[3:-2] in API_BIN + ('div',)):
            continue                        # constructors, in-place protocols, the in-place converters
        if n not in API_KNOWN and any(t in n for t in API_WRITER_WORDS):
            continue                        # an unknown name that looks like a file writer is not called
        out.append((n, 'call', (API_PROBES_SHORT if small and n in API_KNOWN else API_PROBES)
                    + _api_arity_probes(cls, n)))
    for b in API_BIN:
        out.append((b, 'op', API_NUM_PROBES + ('sib', 'self', 'none1')))
        out.append((b, 'rop', API_NUM_PROBES + ('sib', 'none1', 'empty')))
    for u in API_UNARY:
        out.append((u, 'unary', ('none',)))
    for b in API_BUILTINS:
        out.append((b, 'builtin', ('none',)))
    return out


def _api_text(a):
    p = {'zero': '0', 'zerof': '0.0', 'negzero': '-0.0', 'false': 'False', 'one': '1', 'onef': '1.0', 'true': 'True',
         'num': '2.5', 'neg': '-3', 'sib': 'sibling', 'self': 'c', 'list1': '[c]', 'list2': '[c, sibling]',
         'none': '', 'none1': 'None', 'empty': '[]'}.get(a.get('probe'), a.get('probe'))
    form, name = a.get('form'), a.get('name')
    if form == 'op':
        return 'operator.%s(c, %s)' % (name, p)
    if form == 'rop':
        return 'operator.%s(%s, c)' % (name, p)
    if form == 'unary':
        return 'operator.%s(c)' % name
    if form == 'builtin':
        return {'sum1': 'sum([c])', 'sum1iter': 'sum(iter([c]))', 'sum1gen': 'sum(x for x in [c])',
                'sum1tuple': 'sum((c,))', 'sum1start0f': 'sum([c], 0.0)', 'sum2': 'sum([c, sibling])',
                'sum3': 'sum([c, sibling, c])', 'prod1': 'math.prod([c])', 'prod2': 'math.prod([c, sibling])',
                }.get(name, '%s(c)' % name)
    return 'c.%s(%s)' % (name, p)


def _api_form_known(name, form, probe):
    """Does the operator / protocol form end in a special method the check has strata of its own for?"""
    if form == 'call':
        return name in API_KNOWN
    if form == 'op' or (form == 'rop' and probe in ('sib', 'self')):
        return '__%s__' % name in API_KNOWN
    if form == 'unary':
        return '__%s__' % name in API_KNOWN
    return form == 'builtin' and name == 'copy'


def _api_shares(r, objs):
    for o in objs:
        if r is o:
            return 'is-source'
        try:
            if r.header is o.header or r.header.metadata is o.header.metadata:
                return 'header'
            if isinstance(r._values, list) and r._values is o._values:
                return 'values'
        except Exception:
            pass
    return None


_API_SPEC = {'hc': ([1, 1, 0, 1, 1, 23, 1, 0], [h * 60 for h in range(24)]),
             'hd': ([1, 1, 0, 1, 1, 23, 1, 0], [h * 60 for h in (0, 1, 2, 5, 6, 7, 12, 23)]),
             'daily': ([1, 1, 0, 1, 6, 23, 1, 0], [1, 2, 3, 4, 5, 6]),
             'monthly': ([1, 1, 0, 6, 30, 23, 1, 0], [1, 2, 3, 4, 5, 6]),
             'mph': ([1, 1, 0, 2, 28, 23, 1, 0], [10000 + h * 100 for h in range(24)] +
                     [20000 + h * 100 for h in range(24)])}


def _api_cases(ctx):
    """Scan: each discovered (name, form, probe) is called once on a small source of each of the ten classes.
    Whatever hands back a collection becomes a `derive` case (op `api`: fresh result, nothing shared, source and
    sibling as before, asked again = first answer).  Names the check does not know from the tree it was written
    for, operator / built-in protocols, and calls whose result looks shared get the case with every mutator;
    the names it knows (they have their own strata) a sample."""
    rng = ctx.rng
    small = ctx.quick and not ctx.searching
    classes = _classes()
    inplace = set()
    for cls in ('hc', 'hd', 'daily', 'monthly', 'mph'):
        for mutable in (True, False):
            ap, dts = _API_SPEC[cls]
            spec = {'cls': cls, 'mutable': mutable, 'unit': 'C', 'ap': list(ap), 'dts': list(dts),
                    'meta': {'k1': 1, 'k2': [1, 2]}, 'vals': [float((7 * i) % 11) - 2 for i in range(len(dts))]}
            if rng.random() < 0.3:
                spec['vals'] = [0.0] * len(dts)
            sib = _twin(spec, vals=[(int(v) % 7) + 1 for v in spec['vals']], mutable=rng.random() < 0.5,
                        meta={'k2': [5]})
            build = [spec, sib]
            try:
                forms = _api_forms(classes[(cls, mutable)], small)
            except Exception:
                ctx.count('api:discovery-failed')
                continue
            must, known = [], []
            objs = None
            for name, form, probes in forms:
                new_name = form == 'call' and name not in API_KNOWN
                if new_name:
                    ctx.count('api:name-not-known:%s' % name)
                for probe in probes:
                    a = {'name': name, 'form': form, 'probe': probe}
                    if probe == 'list2':
                        a['c'] = 1
                    try:
                        if objs is None:
                            objs = [build_obj(s) for s in build]
                            before = [snapshot(o) for o in objs]
                        res = _api_collect(_api_call(objs[0], objs[1], dict(a)))
                        raised = False
                    except Exception:
                        res, raised = [], True
                    try:
                        after = [snapshot(o) for o in objs]
                        changed, sib_changed = after != before, after[1:] != before[1:]
                    except Exception:
                        changed, sib_changed = True, False
                    if changed:
                        objs = None
                    ctx.count('api:scan:%s' % ('refused' if raised else 'collection' if res else 'other'))
                    case = {'build': copy.deepcopy(build), 'derive': {'on': 0, 'op': 'api', 'args': a}}
                    if changed and not mutable and not raised:
                        # an immutable source edited by a public call: reported by the argument clause
                        must.append(case)
                        continue
                    if changed and (raised or form != 'call' or name in API_KNOWN or sib_changed):
                        must.append(dict(case, mutators=[]))       # argument hygiene clause of check_derive
                        continue
                    if changed:
                        # a name the check does not know that edits a mutable source: an in-place operation (it
                        # may answer with the object itself, like the in-place protocols of the language), with
                        # every probe - also those that happen to leave the numbers as they are
                        inplace.add((cls, name))
                        continue
                    if not res:
                        continue
                    shared = [x for x in (_api_shares(r, objs or []) for r in res) if x]
                    if new_name or shared or not _api_form_known(name, form, probe):
                        ctx.count('api:full:%s:%s' % (form, name))
                        must.append(case)
                    else:
                        known.append(case)
            must = [c for c in must if not (c['derive']['args']['form'] == 'call'
                                            and (cls, c['derive']['args']['name']) in inplace)]
            for case in must:
                if small and len(must) > 12:
                    core_m = [0, 5, 7, 10, 4]
                    case.setdefault('mutators', sorted(core_m + rng.sample(REFUSED_IDX, 1)))
                yield 'derive', case
            for case in rng.sample(known, min(len(known), 3 if small else 12 if ctx.quick else 60)):
                if ctx.quick:
                    case['mutators'] = sorted(rng.sample(range(N_PLAIN_MUTATORS), 4) + rng.sample(REFUSED_IDX, 1))
                ctx.count('api:sampled-known')
                yield 'derive', case


API_KNOWN_WEA = frozenset([
    'ToString', '__copy__', '__eq__', '__getitem__', '__init__', '__iter__', '__len__', '__ne__', '__repr__',
    'analysis_period', 'count_timesteps', 'datetimes', 'diffuse_horizontal_irradiance',
    'direct_horizontal_irradiance', 'direct_normal_irradiance', 'directional_irradiance', 'duplicate',
    'enforce_on_hour', 'estimate_illuminance_components', 'filter_by_analysis_period', 'filter_by_hoys',
    'filter_by_moys', 'filter_by_pattern', 'filter_by_sun_up', 'from_annual_values', 'from_ashrae_clear_sky',
    'from_ashrae_revised_clear_sky', 'from_daysim_file', 'from_dict', 'from_epw_file', 'from_file', 'from_stat_file',
    'from_zhang_huang_solar', 'get_irradiance_value', 'get_irradiance_value_for_hoy', 'global_horizontal_irradiance',
    'header', 'hoys', 'is_annual', 'is_continuous', 'is_leap_year', 'location', 'metadata', 'timestep',
    'to_constant_value', 'to_dict', 'to_file_string', 'write'])
API_KNOWN_HEADER = frozenset([
    'ToString', '__copy__', '__eq__', '__hash__', '__init__', '__iter__', '__ne__', '__repr__', 'analysis_period',
    'data_type', 'duplicate', 'from_csv_strings', 'from_dict', 'metadata', 'to_csv_strings', 'to_dict', 'to_tuple',
    'unit'])
API_KNOWN_EPW = frozenset([
    'ToString', '__init__', '__repr__', 'aerosol_optical_depth', 'albedo', 'annual_cooling_design_day_004',
    'annual_cooling_design_day_010', 'annual_heating_design_day_990', 'annual_heating_design_day_996',
    'approximate_design_day', 'ashrae_climate_zone', 'atmospheric_station_pressure', 'best_available_design_days',
    'ceiling_height', 'comments_1', 'comments_2', 'convert_to_ip', 'convert_to_si',
    'cooling_design_condition_dictionary', 'daylight_savings_end', 'daylight_savings_start',
    'days_since_last_snowfall', 'dew_point_temperature', 'diffuse_horizontal_illuminance',
    'diffuse_horizontal_radiation', 'direct_normal_illuminance', 'direct_normal_radiation', 'dry_bulb_temperature',
    'extraterrestrial_direct_normal_radiation', 'extraterrestrial_horizontal_radiation', 'extreme_cold_weeks',
    'extreme_design_condition_dictionary', 'extreme_hot_weeks', 'file_path', 'from_dict', 'from_file_string',
    'from_missing_values', 'global_horizontal_illuminance', 'global_horizontal_radiation', 'header',
    'heating_design_condition_dictionary', 'horizontal_infrared_radiation_intensity', 'import_data_by_field',
    'is_data_loaded', 'is_header_loaded', 'is_ip', 'is_leap_year', 'liquid_precipitation_depth',
    'liquid_precipitation_quantity', 'location', 'metadata', 'monthly_cooling_design_days',
    'monthly_ground_temperature', 'opaque_sky_cover', 'precipitable_water', 'present_weather_codes',
    'present_weather_observation', 'relative_humidity', 'save', 'sky_temperature', 'snow_depth', 'to_ddy',
    'to_ddy_monthly_cooling', 'to_dict', 'to_file_string', 'to_mos', 'to_wea', 'total_sky_cover', 'typical_weeks',
    'visibility', 'wind_direction', 'wind_speed', 'write', 'years', 'zenith_luminance'])
API_COMP_PROBES = ('none', 'zero', 'zerof', 'false', 'one', 'num', 'sib', 'self', 'list1', 'list2', 'none1', 'slice')


def _api_comp_cases(ctx):
    """The same discovery on the Wea class: every operator of the language with a number / another Wea on either
    side, the unary operators, sum / math.prod / copy / deepcopy, and every public METHOD the check does not
    know (the accessors of the members are known names; names that look like writers are not called).  What
    hands back a Wea or a collection goes through `check_composite`."""
    rng = ctx.rng
    small = ctx.quick and not ctx.searching
    for src in COMP_SOURCES + ['epw']:
        epw = src == 'epw'
        inp = {'src': src, 'past': [] if epw else ['meta']}
        known = API_KNOWN_EPW if epw else API_KNOWN_WEA
        try:
            w = _comp_source(inp)
            names = [n for n in _api_names(type(w)) if n not in known and n not in API_NOT_CALLED
                     and callable(getattr(type(w), n, None))
                     and not any(t in n for t in API_WRITER_WORDS + ('from_', 'convert_to_'))]
        except Exception:
            ctx.count('api:discovery-failed')
            continue
        forms = [(n, 'call', API_COMP_PROBES + _api_arity_probes(type(w), n, known)) for n in names]
        for n in names:
            ctx.count('api:%s-name-not-known:%s' % ('epw' if epw else 'wea', n))
        if epw:
            # (an EPW object is 35 year-long collections: fewer operands; the quick tier asks four forms only)
            nums, others = ('zero', 'one', 'num'), ('sib', 'self', 'none1')[:1]
        else:
            nums, others = API_NUM_PROBES, ('sib', 'self', 'none1')
        if epw and small:
            forms += [('add', 'rop', ('zero',)), ('mul', 'rop', ('one',)), ('sum1', 'builtin', ('none',)),
                      ('prod1', 'builtin', ('none',))]
        else:
            for b in API_BIN:
                forms.append((b, 'op', nums + others))
                forms.append((b, 'rop', nums + others[:1] + others[2:]))
            forms += [(u, 'unary', ('none',)) for u in API_UNARY]
            forms += [(b, 'builtin', ('none',)) for b in API_BUILTINS if b not in ('copy',)]
        found = []
        for name, form, probes in forms:
            for probe in probes:
                d = 'api:%s:%s:%s' % (form, name, probe)
                try:
                    if w is None:
                        w = _comp_source(inp)
                    before = _comp_snap(w, False)
                    res = _comp_derive(w, d)
                except Exception:
                    res = []
                try:
                    changed = _comp_snap(w, False) != before
                except Exception:
                    changed = True
                ctx.count('api:wea-scan:%s' % ('object' if res else 'nothing'))
                if changed:
                    w = None
                    if form == 'call':
                        continue                        # an in-place operation the check does not know
                if res or changed:
                    found.append(dict(inp, derive=d, views=False))
        for case in found:
            if small and len(found) > 6:
                case['mutators'] = sorted(set(['meta_key', 'meta_nested'] + rng.sample(COMP_MUTATORS, 2)
                                              + rng.sample(COLL_MUTATORS, 2)))
            ctx.count('api:wea-full')
            yield 'composite', case


def _hdr_snap(h):
    return (h.unit, type(h.data_type).__name__, tuple(_ap_tokens(h.analysis_period)),
            json.dumps(h.metadata, sort_keys=True, default=str))


def check_api_header(inp):
    """One public name of Header (found on the tree under test) called with one probe on the header of a
    collection: a Header that comes back is a new object with its own metadata dictionary and nested values;
    edits of either leave the other (and the collection) as they were."""
    from ladybug.header import Header
    a = inp['call']
    sig = {'what': 'api_header', 'api': a['name'], 'probe': a['probe']}

    def fresh():
        c = build_obj(inp['build'][0])
        r = _api_call(c.header, build_obj(inp['build'][0]).header, dict(a))
        out = [x for x in (r if isinstance(r, (list, tuple)) else [r]) if isinstance(x, Header)]
        return c, out

    c = build_obj(inp['build'][0])
    before = snapshot(c)
    try:
        c, res = fresh()
    except Exception:
        return None
    if snapshot(c) != before:
        return {'required': 'header unchanged by %s' % a['name'], 'observed': 'changed', 'sig': dict(sig, side='args')}
    for r in res:
        if r is c.header:
            return {'required': 'Header.%s(%s) returns a new header' % (a['name'], a['probe']),
                    'observed': 'the source header', 'sig': dict(sig, side='result-is-source')}
    edits = [lambda h, t: h.metadata.__setitem__('k1', t), lambda h, t: h.metadata.__setitem__('znew', t),
             lambda h, t: h.metadata['k2'].append(t), lambda h, t: setattr(h, 'metadata', {'other': t}),
             lambda h, t: h.metadata.clear(), lambda h, t: setattr(h, 'unit', 'F'),
             lambda h, t: h.to_dict()['metadata'].update(x=t)]
    for k, e in enumerate(edits):
        for side in ('result', 'source'):
            for idx in range(len(res) if side == 'result' else 1):
                try:
                    c, res = fresh()
                except Exception:
                    return {'required': 'deterministic call', 'observed': 'raises', 'sig': dict(sig, side='nondet')}
                target = res[idx] if side == 'result' else c.header
                others = [h for h in [c.header] + res if h is not target]
                s0 = [_hdr_snap(h) for h in others]
                _EDIT_COUNTER[0] += 1
                try:
                    e(target, 'edit#%d' % _EDIT_COUNTER[0])
                except Exception:
                    pass
                if [_hdr_snap(h) for h in others] != s0:
                    return {'required': 'the other headers unchanged after edit %d of the %s of Header.%s(%s)' % (
                                k, side, a['name'], a['probe']), 'observed': 'changed',
                            'sig': dict(sig, side=side, edit=k)}
    return None


def _api_header_cases(ctx):
    from ladybug.header import Header
    spec = dict(_HC24, meta={'k1': 1, 'k2': [1, 2]})
    try:
        names = [n for n in _api_names(Header) if n not in API_NOT_CALLED
                 and (n in API_KNOWN_HEADER or not any(t in n for t in API_WRITER_WORDS))]
    except Exception:
        ctx.count('api:discovery-failed')
        return
    forms = [(n, 'call', ('none', 'zero', 'one', 'num', 'sib', 'self', 'none1', 'empty', 'true', 'false', 'emptydict')
              + _api_arity_probes(Header, n, API_KNOWN_HEADER)) for n in names]
    for n in names:
        if n not in API_KNOWN_HEADER:
            ctx.count('api:header-name-not-known:%s' % n)
    forms += [(b, 'op', ('zero', 'one', 'sib', 'none1')) for b in API_BIN]
    forms += [(b, 'rop', ('zero', 'one', 'none1')) for b in API_BIN]
    forms += [(u, 'unary', ('none',)) for u in API_UNARY]
    forms += [(b, 'builtin', ('none',)) for b in ('sum1', 'sum2', 'prod1', 'deepcopy', 'copy')]
    for name, form, probes in forms:
        for probe in probes:
            a = {'name': name, 'form': form, 'probe': probe}
            try:
                c = build_obj(spec)
                sib = build_obj(spec).header
                r = _api_call(c.header, sib, dict(a))
                hit = any(isinstance(x, Header) for x in (r if isinstance(r, (list, tuple)) else [r]))
            except Exception:
                hit = False
            ctx.count('api:header-scan:%s' % ('header' if hit else 'nothing'))
            if hit:
                yield 'api_header', {'build': [copy.deepcopy(spec)], 'call': a}


MISC = ['header_duplicate', 'wea_exports', 'wea_duplicate', 'wea_filter_pattern', 'wea_filter_ap', 'wea_filter_hoys',
        'wea_ghi', 'wea_dhi', 'wea_directional', 'wea_siblings', 'wea_directional_siblings',
        'wea_siblings_from_dict', 'wea_duplicate_location']
EPW_MISC = [('epw_to_file_string', False), ('epw_to_wea', False), ('epw_to_wea_hoys', False),
            ('epw_to_file_string_short', False), ('epw_to_file_string', True), ('epw_to_wea', True),
            ('epw_to_file_string_short', True)]

FIXED_CORPUS = [
    # r = a + b; r.convert_to_unit('F')  (continuous arithmetic used to pass self.header)
    ('derive', {'build': [_HC24, _twin(_HC24, meta={})], 'derive': {'on': 0, 'op': 'add', 'args': {'c': 1}}}),
    ('derive', {'build': [_HC24, _twin(_HC24, meta={})], 'derive': {'on': 0, 'op': 'neg', 'args': {}}}),
    ('derive', {'build': [_HC24], 'derive': {'on': 0, 'op': 'to_immutable', 'args': {}}}),
    ('derive', {'build': [_twin(_HC24, mutable=False)], 'derive': {'on': 0, 'op': 'to_mutable', 'args': {}}}),
    ('derive', {'build': [_twin(_HC24, mutable=False)], 'derive': {'on': 0, 'op': 'dup', 'args': {}}}),
    ('derive', {'build': [_HC24], 'derive': {'on': 0, 'op': 'aligned', 'args': {'v': 5, 'u': None, 'm': None}}}),
    ('derive', {'build': [_HC24, _twin(_HC24, meta={})], 'derive': {'on': 0, 'op': 'cfa', 'args': {'s': 3, 'u': 0}}}),
    ('derive', {'build': [_twin(_HC24, mutable=False), _twin(_HC24, meta={})],
                'derive': {'on': 0, 'op': 'cfa', 'args': {'c': 1, 'u': 0}}}),
    ('derive', {'build': [_twin(_HC24, vals=[370] * 24), _twin(_HC24, meta={})],
                'derive': {'on': 0, 'op': 'windrose', 'args': {'j': 1, 'n': 4}}}),
    ('derive', {'build': [_twin(_HC24, vals=[370] * 24, mutable=False), _twin(_HC24, meta={})],
                'derive': {'on': 0, 'op': 'windrose', 'args': {'j': 1, 'n': 4}}}),
    # refused calls (argument hygiene "also when the call fails"): WindRose with a collection that is not
    # aligned / a direction count of 0 (direction values beyond 360 would be normalised), misaligned
    # compute_function_aligned, unknown unit
    ('derive', {'build': [_twin(_HC24, vals=[370] * 24), _twin(_HC24, meta={}), ODD_SPECS['m']],
                'derive': {'on': 0, 'op': 'windrose', 'args': {'j': 2, 'n': 4}}, 'mutators': []}),
    ('derive', {'build': [_twin(_HC24, vals=[370] * 24), _twin(_HC24, meta={}), ODD_SPECS['m']],
                'derive': {'on': 0, 'op': 'windrose', 'args': {'j': 1, 'n': 0}}, 'mutators': []}),
    ('derive', {'build': [_HC24, _twin(_HC24, meta={}), ODD_SPECS['m']],
                'derive': {'on': 0, 'op': 'cfa', 'args': {'c': 2, 'u': 0}}, 'mutators': []}),
    ('derive', {'build': [_HC24, _twin(_HC24, meta={}), ODD_SPECS['m']],
                'derive': {'on': 0, 'op': 'to_unit', 'args': {'u': 3}}, 'mutators': []}),
    # sources without metadata (`value or {}`) next to each other
    ('derive', {'build': [_twin(_HC24, meta={}), _twin(_HC24, meta={})],
                'derive': {'on': 0, 'op': 'dup', 'args': {}}}),
    ('derive', {'build': [_HC24], 'derive': {'on': 0, 'op': 'monthlychart', 'args': {}}}),
    ('derive', {'build': [_HC24], 'derive': {'on': 0, 'op': 'from_dict', 'args': {}}}),
    ('misc', {'what': 'header_duplicate'}), ('misc', {'what': 'header_duplicate', 'via': 'copy'}),
    ('misc', {'what': 'immutable_metadata_route', 'mutator': 'meta_set'}),
    ('misc', {'what': 'immutable_metadata_route', 'mutator': 'meta_replace'}),
    ('misc', {'what': 'immutable_metadata_route', 'mutator': 'meta_set', 'cls': 'monthly'}),
    ('misc', {'what': 'dict_round_trip', 'via': 'collection'}), ('misc', {'what': 'dict_round_trip', 'via': 'header'}),
    ('misc', {'what': 'epw_sky_temperature'}),
    ('misc', {'what': 'location_from_dict_args'}),
    ('misc', {'what': 'epw_from_dict_args'}),
    # round 4: containers handed out by dictionary exports (known findings until the repairs are committed)
    ('returned', {'spec': _HC24, 'get': 'to_dict'}),
    ('returned', {'obj': 'epw', 'get': 'to_dict'}),
    ('misc', {'what': 'epw_dict_round_trip'}),
    # round 5: a list stored as an EPW metadata value and sky_temperature (known finding until the repair is committed)
    ('composite', {'src': 'epw', 'past': [], 'derive': 'sky_temperature', 'mutators': ['meta_nested'], 'views': False}),
    # a + b with b in another unit of the same data type: both operands read as before
    ('derive', {'build': [_HC24, _twin(_HC24, meta={}, unit='F')], 'derive': {'on': 0, 'op': 'add', 'args': {'c': 1}},
                'mutators': [0, 5, 7]}),
    ('derive', {'build': [_twin(_HC24, cls='daily', ap=[1, 1, 0, 1, 3, 23, 1, 0], dts=[1, 2, 3], vals=[1, 2, 3], unit='K'),
                          _twin(_HC24, cls='daily', ap=[1, 1, 0, 1, 3, 23, 1, 0], dts=[1, 2, 3], vals=[4, 5, 6], meta={})],
                'derive': {'on': 0, 'op': 'sub', 'args': {'c': 1}}, 'mutators': [0, 5, 7]}),
    # a filtered Wea and its source: metadata edits of either do not show in the other
    ('composite', {'src': 'dict', 'past': ['meta'], 'derive': 'filter_ap',
                   'mutators': ['meta_key', 'meta_nested', 'meta_new_key', 'meta_set']}),
]


REREAD = [('wea', 'ghi'), ('wea', 'dhi'), ('wea', 'directional'), ('wea', 'duplicate'), ('wea', 'filter_pattern'),
          ('wea', 'filter_hoys'), ('wea', 'filter_ap'), ('epw', 'sky_temperature'), ('header', 'duplicate'),
          ('header', 'copy')]
WEA_CALLS = ['write:path', 'filter_by_pattern:empty', 'filter_by_hoys:text', 'filter_by_analysis_period:timestep',
             'directional_irradiance:text', 'estimate_illuminance_components:misaligned',
             'get_irradiance_value:outside']


def _misc_cases(ctx):
    rng = ctx.rng
    small = ctx.quick and not ctx.searching
    for w in MISC:
        yield 'misc', {'what': w}
    for obj, get in REREAD:
        yield 'misc', {'what': 'reread', 'obj': obj, 'get': get}
    yield 'misc', {'what': 'reread', 'obj': 'epw', 'get': 'sky_temperature', 'ip': True}
    for call in WEA_CALLS:
        yield 'misc', {'what': 'refused_wea', 'call': call}
    if os.path.exists(_epw_path()):
        calls = [(c, ip) for c in EPW_CALLS for ip in (True, False)]
        if small:       # the refused calls on the IP object always; a sample of the rest
            must = [(c, True) for c in EPW_CALLS if ':' in c and c != 'to_wea:hoys']
            rest = [x for x in calls if x not in must]
            calls = must[:]
            calls += rng.sample(rest, 4)
        for c, ip in calls:
            ctx.count('epw_call:%s/%s' % (c, 'ip' if ip else 'si'))
            yield 'misc', {'what': 'epw_call', 'call': c, 'ip': ip}


def _oracle_cases(ctx):
    """The oracle stream; once a broken tie has led to a good number of failing inputs the rest of the
    (five times larger) search is not needed."""
    for c in _oracle_cases_all(ctx):
        if ctx.searching and len(ctx.failures) >= 30:
            ctx.count('oracle:stopped-early-after-30-failures')
            return
        yield c


def _api_all_cases(ctx):
    for gen in (_api_cases, _api_comp_cases, _api_header_cases):
        for c in gen(ctx):
            yield c


def _oracle_cases_all(ctx):
    rng = ctx.rng

    def epw_block():
        for k in range(ctx.n(3, 20) * (2 if ctx.searching else 1)):
            ctx.count('epw_oracle_histories')
            yield 'history', epw_oracle_history(rng, ip_first=k % 2 == 0)
        if os.path.exists(_epw_path()):
            for w, ip in (EPW_MISC if not ctx.quick or ctx.searching else [EPW_MISC[3], EPW_MISC[6]]):
                yield 'misc', {'what': w, 'ip': ip}

    def history_block():
        n = 300 if ctx.quick else 4500
        if ctx.searching:
            n *= 3
        for _ in range(n // 3):                  # round 5: histories around Wea objects
            _, _, h = run_history(rng, None, wea_focus=True, modelled=False)
            ctx.count('oracle_histories:wea-centred')
            yield 'history', h
        for _ in range(n):
            _, _, h = run_history(rng, None)
            yield 'history', h

    blocks = [lambda: iter(FIXED_CORPUS), lambda: _sweep_cases(ctx), lambda: _r4_cases(ctx),
              lambda: _hetero_cases(ctx), lambda: _composite_cases(ctx), lambda: _misc_cases(ctx), epw_block,
              history_block, lambda: _api_all_cases(ctx)]
    if ctx.searching:
        # a tie is broken: the cheap broad blocks first (pairs, composites, single calls, histories), the large
        # sweeps after them (the stream stops once it has led to 30 failing inputs)
        blocks = [blocks[0], blocks[8], blocks[3], blocks[4], blocks[5], blocks[7], blocks[1], blocks[2], blocks[6]]
    else:
        blocks = [blocks[0], blocks[8]] + blocks[1:8]
    for b in blocks:
        for c in b():
            yield c


# --- process-order independence: the same cases in fresh interpreters, in different orders


def _worker_main():
    """Entry of a fresh interpreter: JSON list of [op, inp] on stdin -> JSON list of results on stdout."""
    import sys
    sys.path.insert(0, core.REPO)
    cases = json.load(sys.stdin)
    out = []
    with contextlib.redirect_stdout(io.StringIO()):
        for op, inp in cases:
            try:
                res = check_case(op, inp)
            except Exception as e:       # noqa: BLE001
                res = {'required': 'oracle evaluates', 'observed': 'exception %s: %s' % (type(e).__name__, e),
                       'sig': {'exception': type(e).__name__}}
            out.append(res)
    sys.__stdout__.write(json.dumps(out, default=str))


def _spawn(cases):
    import subprocess
    import sys
    env = dict(os.environ, LADYBUG_REPO=core.REPO, PYTHONHASHSEED='0')
    f = tempfile.TemporaryFile()
    f.write(json.dumps(cases, default=str).encode('utf-8'))
    f.seek(0)
    p = subprocess.Popen([sys.executable, '-c', 'from harness.props import c14; c14._worker_main()'],
                         cwd=core.ROOT, env=env, stdin=f, stdout=subprocess.PIPE, stderr=subprocess.PIPE)
    f.close()
    return p


def _collect(p, timeout=900):
    try:
        so, se = p.communicate(timeout=timeout)
    except Exception as e:           # noqa: BLE001
        p.kill()
        return [{'required': 'fresh interpreter answers', 'observed': 'timeout/%s' % type(e).__name__,
                 'sig': {'fail': 'worker'}}]
    if p.returncode != 0:
        return [{'required': 'fresh interpreter runs the cases', 'observed': se.decode('utf-8', 'replace')[-400:],
                 'sig': {'fail': 'worker'}}]
    return json.loads(so.decode('utf-8'))


def _run_order(cases):
    """Run cases in ONE fresh interpreter -> (index, result) of the first failure, or None."""
    for i, r in enumerate(_collect(_spawn(cases))):
        if r:
            return i, r
    return None


def check_process_order(inp):
    hit = _run_order(inp['order'])
    if hit is None:
        return None
    i, r = hit
    return {'required': 'case %d of %d, in this order in a fresh interpreter (%s): %s' % (
                i, len(inp['order']), inp['order'][i][0], r.get('required')),
            'observed': r.get('observed'), 'sig': dict(r.get('sig') or {}, process_order=True)}


def _rarity(case):
    """Rare classes first: refused calls, immutable sources, IP objects, leap years, single values."""
    op, inp = case
    txt = json.dumps(inp, default=str)
    score = 0
    if op == 'derive' and inp.get('mutators') == []:
        score -= 8
    if op == 'misc' and (':' in str(inp.get('call', '')) or inp.get('what') == 'refused_wea'):
        score -= 8
    if '"mutable": false' in txt:
        score -= 4
    if '"meta": {}' in txt:
        score -= 3
    if inp.get('ip') or '"ip": true' in txt:
        score -= 2
    if op == 'derive' and inp['build'][0]['ap'][7]:
        score -= 2
    if op == 'derive' and len(inp['build'][0]['vals']) == 1:
        score -= 1
    return score


def _order_slice(ctx):
    rng = ctx.rng
    cases = [list(c) for c in FIXED_CORPUS if c[1].get('what') not in ('immutable_metadata_route', 'dict_round_trip',
                                                                       'epw_dict_round_trip')
             and c[0] != 'returned']
    sweep = [list(c) for c in _sweep_cases(_Quiet(ctx))]
    seen = set()
    rng.shuffle(sweep)
    for op, inp in sweep:
        key = (inp['derive']['op'], inp.get('mutators') == [])
        if key in seen:
            continue
        seen.add(key)
        if inp.get('mutators'):
            inp = dict(inp, mutators=sorted(rng.sample(inp['mutators'], 3)))
        cases.append([op, inp])
    # round 4 strata (without the inputs of the open findings and the year-long Wea lists)
    r4 = [list(c) for c in _r4_cases(_Quiet(ctx))]
    r4 = [c for c in r4 if not (c[0] == 'returned' and c[1]['get'] == 'to_dict')
          and c[1].get('what') != 'epw_dict_round_trip' and c[1].get('via') != 'wea_annual']
    rng.shuffle(r4)
    cases.extend(r4[:40])
    for obj, get in REREAD:
        cases.append(['misc', {'what': 'reread', 'obj': obj, 'get': get}])
    for call in WEA_CALLS:
        cases.append(['misc', {'what': 'refused_wea', 'call': call}])
    for w in MISC:
        cases.append(['misc', {'what': w}])
    if os.path.exists(_epw_path()):
        for call in ('to_wea:hoys-range', 'to_wea:path', 'write:path', 'to_file_string'):
            cases.append(['misc', {'what': 'epw_call', 'call': call, 'ip': True}])
    for k in range(2):
        cases.append(['history', epw_oracle_history(rng, ip_first=k == 0)])
    with contextlib.redirect_stdout(io.StringIO()):
        for _ in range(ctx.n(15, 150)):
            cases.append(['history', run_history(rng, None)[2]])
    return json.loads(json.dumps(cases, default=str))


class _Quiet(object):
    """The sweep generator with the quick-tier sizes and without counting."""

    def __init__(self, ctx):
        self.rng, self.quick, self.searching = ctx.rng, True, False

    def count(self, *a, **k):
        pass


def _shrink_order(order, j):
    """A short prefix-free sublist that still fails at its last case (or None: it fails on its own)."""
    bad = order[j]
    if _run_order([bad]) is not None:
        return None
    for i in range(j):
        if i < 6 and _run_order([order[i], bad]) is not None:
            return [order[i], bad]
    lo = 0
    for cut in (j // 2, (3 * j) // 4, (7 * j) // 8):
        if cut > lo and _run_order(order[cut:j] + [bad]) is not None:
            lo = cut
    return order[lo:j] + [bad]


def _start_process_orders(ctx):
    """Start the fresh interpreters (they work while the in-process oracle runs)."""
    rng = ctx.rng
    cases = _order_slice(ctx)
    rare_first = sorted(cases, key=_rarity)
    orders = [rare_first, list(reversed(rare_first))]
    while len(orders) < ctx.n(3, 4):
        o = list(cases)
        rng.shuffle(o)
        orders.append(o)
    return orders, [_spawn(o) for o in orders]


def _oracle_process_orders(ctx, started=None):
    orders, procs = started or _start_process_orders(ctx)
    if len(ctx.failures) >= 200:
        for p in procs:
            p.kill()
        return
    for o, p in zip(orders, procs):
        res = _collect(p)
        ctx.count('order:interpreters')
        ctx.count('order:cases', len(res))
        for c in o[:len(res)]:
            ctx.case(('order', json.dumps(c, sort_keys=True, default=str)[:3000]))
        for j, r in enumerate(res):
            if not r:
                continue
            if (r.get('sig') or {}).get('fail') == 'worker':
                ctx.fail('process_order', {'order': o}, r.get('required'), r.get('observed'), r.get('sig'))
                return
            short = _shrink_order(o, j)
            if short is None:
                ctx.fail(o[j][0], o[j][1], r.get('required'), r.get('observed'), r.get('sig'))
            else:
                inp = {'order': short}
                rr = check_process_order(inp) or {'required': r.get('required'), 'observed': r.get('observed'),
                                                  'sig': dict(r.get('sig') or {}, process_order=True)}
                ctx.fail('process_order', inp, rr['required'], rr['observed'], rr['sig'])
            return


def oracle(ctx):
    started = _start_process_orders(ctx)
    try:
        with contextlib.redirect_stdout(io.StringIO()):
            run_oracle_cases(ctx, _oracle_cases(ctx), check_case)
    finally:
        _oracle_process_orders(ctx, started)


LEVEL_TEXT = ('Machine-checked Lean 4 theorems over an executable heap model (Header / metadata dict with nested list '
              'cells / values list / analysis period / Location / collection / composite cells) of the '
              'data-collection, Wea and EPW API: frame theorem, separation preserved by every deriving operation '
              '(deep copy of metadata included), non-interference for every history of building, deriving, '
              'WindRose / Wea / EPW steps, mutators and edits of caller-held lists (no bound on length), argument '
              'hygiene incl. lists passed by the caller, EPW exports restore the object also on failure, '
              'immutability; the model is tied to the code by comparing, for every step of random histories, the '
              'sharing signature (which sub-objects are the same Python objects) and the snapshot of every live '
              'object; the property itself is evaluated on the real objects by derive x mutator x side sweeps. '
              'Round 3: the history machine has outcomes (stepOut): a refused step leaves heap and live objects '
              'as they were (C14_refused_preserves), reading steps in any order and number leave every report '
              'unchanged (C14_read_pure), what an unedited object reports does not depend on the history '
              '(C14_history_refines_fresh_partial); on the real objects: derivations asked again, history-free '
              'twins, refused calls, one-object EPW histories, process-order runs in fresh interpreters. '
              'Round 4: a deriving operation never returns an existing object whatever the class, flag or past '
              'of its source (C14_derive_new_object), both branches of validate_analysis_period copy '
              '(C14_validate_branches), constructors / get_aligned_collection / values setter do not depend on '
              'the container type of a sequence argument (C14_*_container_independent); on the real objects: '
              'sources with a past, container types, returned containers, text-made and reversed periods. '
              'Round 5: arithmetic leaves its second operand as it is whatever the units of the two are and its '
              'result does not look at the second operand\'s header (C14_arith_operand_kept, '
              'C14_arith_ignores_operand_header); a new Wea (from_dict, duplicate, every filter) and the Wea it '
              'came from do not see each other\'s metadata edits (C14_fresh_comp_metadata_edit, '
              'C14_source_metadata_edit_after_fresh, C14_wea_filter_metadata_separate, '
              'C14_wea_duplicate_metadata_separate); on the real objects: operand pairs that are not alike for '
              'every two-collection call, composite derive x settings-edit x side sweeps, Wea-centred histories; '
              'the history oracle, which had skipped every step since round 2, is executed. '
              'Round 6: arithmetic with an identity operand (c + 0, 0 + c, c * 1 ...) and the built-in sum over '
              'one or more collections, defined through the modelled addition, answer with new objects that are '
              'separated from their operands (C14_identity_operand_new_object, C14_identity_operand_then_edit, '
              'C14_radd_zero_new_object, C14_sum_new_object, C14_sum_single_new_object); on the real objects: the '
              'public names, operators and built-in protocols found on the classes of the tree under test, each '
              'with a family of probe operands, go through the derive oracle (operations the model does not '
              'know are oracle-only).')
LEVEL_NOTE = ('Trusted: Lean kernel; axioms propext/Classical.choice/Quot.sound only; the hand model of which cells '
              'each operation allocates/aliases (agreement on generated histories only); payload values of '
              'aggregation/validation/interpolation/Wea-derived collections; two of the 35 EPW fields modelled; '
              'charts, collection from_dict and Wea file exports are oracle-only.')
TECHNIQUE = ('Lean 4 proof (generic footprint systems: heap separation invariant, frame + preservation lemmas, '
             'induction over the operation list) about a model tied to the code by sharing-signature correspondence')
